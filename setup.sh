#!/bin/sh
# Offline setup: nothing to build (pure Python harness on /venv). Sanity-check the seam.
set -e
cd "$(dirname "$0")"
mkdir -p evidence /dev/shm/asyncssh-verif-home
PYTHONDONTWRITEBYTECODE=1 PYTHONHASHSEED=0 /venv/bin/python lib/selftest.py
