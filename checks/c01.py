"""C01  Encrypted transport is tamper-evident in both directions.

Fault enumeration on a live real<->real connection: for every negotiable (cipher, MAC,
compression) triple and each direction, one fault (bit flip at byte j, truncation,
drop, duplicate, swap, splice, insertion) is applied by an on-path editor to the
ciphertext stream at packet i; the receiving application must see exactly the data of
the packets before i, and the receiver must fail with an integrity/protocol error or
stall (and then fail with ConnectionLost at EOF) with nothing further delivered.
"""

import asyncio
import json

import asyncssh
from asyncssh.encryption import get_encryption_algs, get_encryption_params
from asyncssh.mac import get_mac_algs

import core
import pair as P
from vloop import EOF, Chunk, Livelock

PROP = 'C01'


def payloads(bs, comp):
    sizes = [1, max(bs - 6, 2), max(bs - 5, 3), bs + 3, 2 * bs + 1, 200]
    if comp != 'none':
        sizes.append(600)
    out = []
    for i, n in enumerate(sizes):
        if n == 600:
            out.append((b'compressible-' * 60)[:600])
        else:
            out.append(bytes((k * 17 + i * 29 + 3) % 251 for k in range(n)))
    return out


class Editor:
    """on-path editor: applies one fault to direction `d` at encrypted packet index `i`"""

    def __init__(self, d, i, fault):
        self.d, self.i, self.fault = d, i, fault
        self.count = {'cs': -1, 'sc': -1}   # encrypted packet index per direction (-1: not yet keyed)
        self.keyed = {'cs': False, 'sc': False}
        self.history = {'cs': [], 'sc': []}
        self.applied = False
        self.data_before = 0                # DATA packets of direction d delivered before the fault
        self.types_before = []

    def next(self, d, q):
        """pop what should be delivered next for direction d from queue q -> bytes | EOF | None"""
        if not q:
            return None
        head = q[0]
        if head is EOF:
            q.popleft()
            return EOF
        if not self.keyed[d]:
            q.popleft()
            if head.label == 21:
                self.keyed[d] = True
            return bytes(head)
        self.count[d] += 1
        idx = self.count[d]
        if getattr(self, 'glue', False) and d == self.d and not self.applied and self.fault is not None and idx == self.i - 1 \
                and len(q) >= 2 and q[1] is not EOF:
            # the altered packet reaches the receiver in one chunk with the packet before it (one TCP segment): the
            # receiver may still be busy with that one (handlers of key exchange packets are coroutines)
            first = q.popleft()
            self.history[d].append(bytes(first))
            self.types_before.append(first.label)
            if first.label in (94, 95):
                self.data_before += 1
            self.glued = True
            return bytes(first) + self.next(d, q)
        if d != self.d or self.applied or self.fault is None or idx != self.i:
            q.popleft()
            self.history[d].append(bytes(head))
            if d == self.d and not self.applied:
                self.types_before.append(head.label)
                if head.label in (94, 95):
                    self.data_before += 1
            return bytes(head)
        # apply the fault at this packet
        self.applied = True
        self.target_label = head.label
        kind = self.fault[0]
        pkt = bytes(q.popleft())
        if kind == 'flip':
            j, bit = self.fault[1], self.fault[2]
            j = j if j >= 0 else len(pkt) + j
            j = min(max(j, 0), len(pkt) - 1)
            return pkt[:j] + bytes([pkt[j] ^ (1 << bit)]) + pkt[j + 1:]
        if kind == 'trunc':
            j = self.fault[1]
            j = j if j >= 0 else len(pkt) + j
            j = min(max(j, 0), len(pkt) - 1)
            # the following packets continue right after byte j; if their first bytes happen to
            # equal the removed ones the packet itself is bit-identical and is rightly accepted
            follow = b''.join(bytes(c) for c in list(q)[:3] if c is not EOF)
            if follow[:len(pkt) - j] == pkt[j:] and head.label in (94, 95):
                self.data_before += 1
            return pkt[:j]
        if kind == 'drop':
            return b''
        if kind == 'dup' or (kind == 'swap' and not (q and q[0] is not EOF)):
            # the first copy is the genuine packet: the alteration starts after it
            if head.label in (94, 95):
                self.data_before += 1
            return pkt + pkt
        if kind == 'swap':
            nxt = bytes(q.popleft())
            return nxt + pkt
        if kind == 'insert':
            return bytes(self.fault[1]) + pkt
        if kind == 'splice-earlier':
            h = self.history[d]
            return (h[0] if h else pkt[::-1]) + pkt
        if kind == 'splice-other':
            other = 'sc' if d == 'cs' else 'cs'
            h = self.history[other]
            return (h[-1] if h else pkt[::-1]) + pkt
        if kind == 'replace-other':
            other = 'sc' if d == 'cs' else 'cs'
            h = self.history[other]
            return h[-1] if h else pkt[::-1]
        raise ValueError(self.fault)


def run(cfg, d, i, fault, seed=0, editor=None, glue=False):
    cipher, mac, comp = cfg[:3]
    rekey = len(cfg) > 3
    loop = P.fresh(seed)
    P.install_wire_labels()
    bs = max(8, get_encryption_params(cipher.encode())[2])
    c_msgs = payloads(bs, comp)
    s_msgs = [m[::-1] + b's' for m in payloads(bs, comp)]

    def on_start(sess):
        for m in s_msgs:
            sess.chan.write(m)
    env = {'session_factory': lambda: P.RecSession('srv', on_start=on_start)}
    algs = dict(encryption_algs=[cipher], compression_algs=[comp])
    if mac:
        algs['mac_algs'] = [mac]
    calgs = dict(algs)
    if rekey:
        algs['rekey_bytes'] = 150       # a re-exchange (by either side) happens among the data packets
        if cfg[3] != 'rekey-s':
            calgs['rekey_bytes'] = 150  # 'rekey-s': only the server has a limit, so it starts every re-exchange
                                        # and the client answers with KEXINIT and its next kex packet back to back
    try:
        pair = P.Pair(loop, sopts=dict(encoding=None, **algs), copts=calgs, env=env)
        ed = editor or Editor(d, i, fault)
        ed.glue = glue
        csess = {}
        task = None

        async def app():
            chan, sess = await pair.c.create_session(lambda: P.RecSession('cli'), encoding=None)
            csess['s'] = sess
            for m in c_msgs:
                chan.write(m)
        steps = 0
        eof_sent = False
        while True:
            loop.quiesce()
            if task is None and pair.copt.waiter.done():
                if pair.copt.waiter.exception() is None:
                    task = loop.create_task(app())
                    continue
            progressed = False
            for name, t in (('cs', pair.st), ('sc', pair.ct)):
                if t.lost or t.closing or t.peer is None:
                    continue
                out = ed.next(name, t.peer.outq)
                if out is None:
                    continue
                progressed = True
                if out is EOF:
                    loop.call_soon(loop._deliver_eof, t)
                elif out:
                    loop.inject(t, out)
                loop.quiesce()
            if not progressed:
                if not eof_sent:
                    # end of traffic: close the pipe so that a stalled receiver gets EOF
                    eof_sent = True
                    for t in (pair.st, pair.ct):
                        if not t.lost and not t.closing:
                            loop.call_soon(loop._deliver_eof, t)
                    continue
                break
            steps += 1
            if steps > 5000:
                raise Livelock('too many deliveries')
        srv = env.get('server_sessions', [])
        obs = {
            'srv_data': srv[0].got() if srv else b'',
            'cli_data': csess['s'].got() if 's' in csess else b'',
            'srv_exc': type(pair.server_owner.lost_exc).__name__ if pair.server_owner and pair.server_owner.lost else None,
            'cli_exc': type(pair.client_owner.lost_exc).__name__ if pair.client_owner and pair.client_owner.lost else None,
            'applied': ed.applied,
            'data_before': ed.data_before,
            'target': getattr(ed, 'target_label', None),
            'npkts': dict(ed.count),
            'loop_exc': [repr(c.get('exception') or c.get('message'))[:200] for c in loop.unretrieved()],
            'c_msgs': c_msgs, 's_msgs': s_msgs,
        }
        return obs
    finally:
        P.done(loop)


GOOD_EXC = {'MACError', 'ProtocolError', 'CompressionError', 'ConnectionLost', 'KeyExchangeFailed',
            'DisconnectError', 'PermissionDenied', 'ServiceNotAvailable', 'IllegalUserName',
            'ChannelOpenError'}


def judge(cfg, d, i, fault, obs):
    v = []
    if obs['loop_exc']:
        v.append(('loop-exception', obs['loop_exc'][0]))
    if not obs['applied']:
        return v
    msgs = obs['c_msgs'] if d == 'cs' else obs['s_msgs']
    got = obs['srv_data'] if d == 'cs' else obs['cli_data']
    exp = b''.join(msgs[:obs['data_before']])
    full = b''.join(msgs)
    if got != exp:
        if full.startswith(got) and len(got) < len(exp):
            v.append(('intact-prefix-lost', 'receiver application got %d bytes but %d bytes were sent in '
                      'packets complete before the altered byte' % (len(got), len(exp))))
        else:
            v.append(('altered-data-delivered', 'receiving application got %d bytes; the %d data packets '
                      'before the fault carry %d bytes; prefix-of-original=%s; got tail=%r'
                      % (len(got), obs['data_before'], len(exp), full.startswith(got), got[len(exp):][:40])))
    exc = obs['srv_exc'] if d == 'cs' else obs['cli_exc']
    if exc is None:
        v.append(('no-error', 'receiver never reported the end of the connection'))
    elif exc not in GOOD_EXC:
        v.append(('wrong-error', 'receiver owner got %s' % exc))
    return v


def faults_for(pkt_len, bs, macsize, tier):
    """fault list for one target packet of pkt_len bytes"""
    f = []
    if tier == 'quick':
        pos = sorted({0, 1, 3, 4, 5, 6, bs, pkt_len - macsize - 1, max(pkt_len - macsize, 0),
                      pkt_len - 1, pkt_len // 2})
        for j in pos:
            if 0 <= j < pkt_len:
                f.append(('flip', j, (j * 3) % 8))
        for b in range(8):
            f.append(('flip', 3, b))
        f.append(('flip', 0, 7))
        f.append(('flip', -1, 0))
        for j in (1, 4, bs, pkt_len - macsize, pkt_len - 1):
            if 0 < j < pkt_len:
                f.append(('trunc', j))
    else:
        for j in range(pkt_len):
            bits = range(8) if j < 4 or j >= pkt_len - 2 else [(j * 3) % 8]
            for b in bits:
                f.append(('flip', j, b))
        for j in range(1, pkt_len):
            f.append(('trunc', j))
    f += [('drop',), ('dup',), ('swap',), ('insert', 1), ('insert', bs), ('insert', pkt_len),
          ('splice-earlier',), ('splice-other',), ('replace-other',)]
    return list(dict.fromkeys(f))


def worker(job):
    cfg, tier = job
    acc = core.Acc()
    cipher, mac, comp = cfg[:3]
    bs = max(8, get_encryption_params(cipher.encode())[2])
    name = '%s/%s/%s' % cfg[:3] + ('/' + cfg[3] if len(cfg) > 3 else '')
    try:
        base = run(cfg, 'cs', 0, None)
    except Exception as exc:        # pylint: disable=broad-except
        acc.notes.append('config %s unusable here: %r' % (name, exc))
        return acc
    if base['srv_data'] != b''.join(base['c_msgs']) or base['cli_data'] != b''.join(base['s_msgs']):
        acc.violation('tamper:baseline-broken:%s' % name, 'unfaulted session did not deliver its data: %r'
                      % ({k: base[k] for k in ('srv_exc', 'cli_exc', 'npkts')},), {'cfg': list(cfg), 'kind': 'base'})
        return acc
    acc.add(core.digest(('base', cfg)), transitions=sum(base['npkts'].values()))
    for d in ('cs', 'sc'):
        # learn the packet layout of this direction from a probe that faults nothing
        n = base['npkts'][d] + 1
        # packet lengths and labels: re-run with an editor that records (cheap: one extra run)
        layout = probe_layout(cfg, d)
        data_idx = [k for k, (lab, ln) in enumerate(layout) if lab in (94, 95)]
        if tier == 'quick':
            targets = sorted({0, data_idx[0] if data_idx else 0, data_idx[-1] if data_idx else 0})
            if len(cfg) > 3:
                # around the re-exchange: its NEWKEYS, the packet before and the two after it
                nk = [k for k, (lab, ln) in enumerate(layout) if lab == 21]
                for k in nk[:2]:
                    targets = sorted(set(targets) | {max(k - 1, 0), k, min(k + 1, n - 1), min(k + 2, n - 1)})
        else:
            targets = list(range(n))
        for i in targets:
            lab, ln = layout[i]
            macsize = 16
            fl = faults_for(ln, bs, macsize, tier if (tier == 'quick' or i in data_idx[:2] + data_idx[-2:]) else 'quick')
            # the altered packet in one chunk with its predecessor: everywhere in quick (few targets); in thorough
            # where either of the two is a key exchange message (their handlers are coroutines)
            kext = (20, 21, 30, 31, 32, 33, 34)
            glues = (False, True) if len(cfg) > 3 and i > 0 and (tier == 'quick' or lab in kext or layout[i - 1][0] in kext) else (False,)
            for fault, glue in [(f_, g_) for f_ in fl for g_ in glues]:
                try:
                    obs = run(cfg, d, i, fault, glue=glue)
                    viol = judge(cfg, d, i, fault, obs)
                    out = (obs['srv_exc'], obs['cli_exc'], len(obs['srv_data']), len(obs['cli_data']))
                except Livelock as exc:
                    viol, out = [('livelock', str(exc))], 'livelock'
                acc.add(core.digest((cfg, d, i, fault, glue, out)), transitions=1,
                        sample={'config': name, 'direction': d, 'packet': i, 'fault': fault,
                                'receiver_error': out[0] if d == 'cs' else out[1]} if fault[0] == 'swap' and i else None)
                acc.count('recv-outcome:%s' % (out[0] if d == 'cs' else out[1] if out != 'livelock' else out))
                for k, det in viol:
                    acc.violation('tamper:%s:%s:%s:%s' % (k, name, d, fault[0]),
                                  '%s; packet %d (type %s, %d bytes) fault %r' % (det, i, lab, ln, fault),
                                  {'cfg': list(cfg), 'd': d, 'i': i, 'fault': list(fault), 'kind': 'fault', 'glue': glue})
    return acc


# ------------------------------------------------------------------ the receiving application uses the stream API
def run_stream(cfg, d, i, fault, style, seed=0):
    """Same fault catalogue, but the receiver reads through SSHReader: continuously ('blocked'), or only
    after everything was delivered and the connection torn down ('busy': it was doing something else).
    The sender never sends EOF, so the reader must see a prefix of the data and then an error --
    never a clean end-of-file."""
    cipher, mac, comp = cfg
    loop = P.fresh(seed)
    P.install_wire_labels()
    bs = max(8, get_encryption_params(cipher.encode())[2])
    msgs = payloads(bs, comp)
    results = []
    st = {}
    gate = {}

    async def consume(rd):
        how = style.split('-')[1] if '-' in style else 'read'
        if style.startswith('busy'):
            gate['ev'] = asyncio.Event()
            await gate['ev'].wait()
        while True:
            try:
                if how == 'read':
                    data = await rd.read(1 << 16)
                elif how == 'readline':
                    data = await rd.readline()
                elif how == 'readuntil':
                    data = await rd.readuntil(b'\n')
                else:
                    data = await rd.readexactly(7)
            except asyncio.IncompleteReadError as exc:
                # the documented way to hand over what arrived before the end: the end itself comes next
                if exc.partial:
                    results.append(('data', exc.partial))
                    continue
                results.append(('eof',))
                return
            except Exception as exc:        # pylint: disable=broad-except
                results.append(('exc', type(exc).__name__))
                return
            if not data:
                results.append(('eof',))
                return
            results.append(('data', data))

    async def handler(process):
        if d == 'cs':
            await consume(process.stdin)
        else:
            for m in msgs:
                process.stdout.write(m)
            await asyncio.sleep(10 ** 6)
    algs = dict(encryption_algs=[cipher], compression_algs=[comp])
    if mac:
        algs['mac_algs'] = [mac]
    try:
        pair = P.Pair(loop, sopts=dict(encoding=None, process_factory=handler, **algs), copts=algs)
        ed = Editor(d, i, fault)
        task = None

        async def app():
            w, r, _e = await pair.c.open_session('x', encoding=None)
            if d == 'cs':
                for m in msgs:
                    w.write(m)
                await asyncio.sleep(10 ** 6)
            else:
                await consume(r)
        steps = 0
        eof_sent = False
        while True:
            loop.quiesce()
            if task is None and pair.copt.waiter.done():
                if pair.copt.waiter.exception() is None:
                    task = loop.create_task(app())
                    continue
            progressed = False
            for name, t in (('cs', pair.st), ('sc', pair.ct)):
                if t.lost or t.closing or t.peer is None:
                    continue
                out = ed.next(name, t.peer.outq)
                if out is None:
                    continue
                progressed = True
                if out is EOF:
                    loop.call_soon(loop._deliver_eof, t)
                elif out:
                    loop.inject(t, out)
                loop.quiesce()
            if not progressed:
                if not eof_sent:
                    eof_sent = True
                    for t in (pair.st, pair.ct):
                        if not t.lost and not t.closing:
                            loop.call_soon(loop._deliver_eof, t)
                    continue
                break
            steps += 1
            if steps > 5000:
                raise Livelock('too many deliveries')
        if 'ev' in gate:
            gate['ev'].set()
        loop.quiesce()
        loop.quiesce()
        return {'results': results, 'applied': ed.applied, 'data_before': ed.data_before, 'msgs': msgs,
                'loop_exc': [repr(c.get('exception') or c.get('message'))[:200] for c in loop.unretrieved()]}
    finally:
        P.done(loop)


def stream_worker(job):
    cfg, tier = job
    acc = core.Acc()
    name = '%s/%s/%s' % cfg
    bs = max(8, get_encryption_params(cfg[0].encode())[2])
    for d in ('cs', 'sc'):
        layout = probe_layout(cfg, d)
        data_idx = [k for k, (lab, ln) in enumerate(layout) if lab in (94, 95)]
        if not data_idx:
            continue
        for i in sorted({data_idx[0], data_idx[len(data_idx) // 2], data_idx[-1]}):
            lab, ln = layout[i]
            for fault in [('flip', 0, 7), ('flip', ln // 2, 1), ('flip', -1, 0), ('trunc', ln - 1), ('drop',), ('insert', 1), ('replace-other',)]:
                for style in ('blocked', 'busy', 'blocked-readline', 'busy-readline', 'busy-readuntil', 'blocked-readexactly', 'busy-readexactly'):
                    try:
                        obs = run_stream(cfg, d, i, fault, style)
                    except Livelock as exc:
                        obs = None
                        viol = [('livelock', str(exc))]
                    if obs is not None:
                        viol = []
                        res = obs['results']
                        got = b''.join(r[1] for r in res if r[0] == 'data')
                        exp = b''.join(obs['msgs'][:obs['data_before']])
                        if obs['applied']:
                            if got != exp:
                                viol.append(('stream-data', 'stream reader got %d bytes, %d bytes were sent in packets complete before the altered byte'
                                             % (len(got), len(exp))))
                            if not res or res[-1][0] == 'data':
                                viol.append(('stream-reader-hangs', 'reader still waiting after the connection ended (results so far: %d)' % len(res)))
                            elif res[-1][0] == 'eof':
                                viol.append(('clean-eof-after-tamper', 'the %s reader was handed a clean end-of-file although the stream was cut by an '
                                             'integrity failure (no EOF was ever sent)' % style))
                            elif res[-1][1] not in GOOD_EXC and res[-1][1] not in ('BrokenPipeError',):
                                viol.append(('wrong-error', 'stream reader got %s' % res[-1][1]))
                        if obs['loop_exc']:
                            viol.append(('loop-exception', obs['loop_exc'][0]))
                    acc.add(core.digest(('stream', cfg, d, i, fault, style, repr(obs and [r[0] for r in obs['results']][-1:]))), transitions=1,
                            sample={'config': name, 'direction': d, 'packet': i, 'fault': fault, 'reader': style,
                                    'ends_with': obs and obs['results'][-1:] and obs['results'][-1][:2][-1] if obs and obs['results'] and obs['results'][-1][0] == 'exc' else None}
                            if style == 'busy' and fault[0] == 'drop' and i == data_idx[-1] else None)
                    for k, det in viol:
                        acc.violation('tamper:%s:%s:%s:%s:%s' % (k, name, d, fault[0], style),
                                      '%s; packet %d (type %s, %d bytes) fault %r' % (det, i, lab, ln, fault),
                                      {'cfg': list(cfg), 'd': d, 'i': i, 'fault': list(fault), 'kind': 'stream', 'style': style})
    return acc


def probe_layout(cfg, d):
    """[(label, length)] of the encrypted packets of direction d in the unfaulted run"""
    class Rec(Editor):
        def __init__(self):
            Editor.__init__(self, d, -1, None)
            self.layout = []

        def next(self, dd, q):
            if q and q[0] is not EOF and self.keyed[dd] and dd == d:
                self.layout.append((q[0].label, len(q[0])))
            return Editor.next(self, dd, q)
    rec = Rec()
    run(cfg, d, -1, None, editor=rec)
    return rec.layout


def configs(tier):
    encs = [a.decode() for a in get_encryption_algs()]
    macs = [a.decode() for a in get_mac_algs()]
    comps = ['none', 'zlib@openssh.com', 'zlib']
    out = []
    for e in encs:
        aead = 'gcm' in e or 'chacha' in e
        for k, m in enumerate([None] if aead else macs):
            for c in comps:
                # quick: every cipher x MAC pair without compression; the two zlib variants with
                # every cipher (one MAC) and with every MAC (one cipher).  thorough: full product
                if tier == 'quick' and c != 'none' and not (k == 0 or e == 'aes128-ctr'):
                    continue
                out.append((e, m, c))
    return out


# ------------------------------------------------------------------ the sender has finished, its close waits behind unread data, then the stream is damaged
def finished_then_damaged(cfg, how, n, api, seed=0):
    """The remote command writes n bytes, ends and closes its channel while the local reader has not read yet (window
    64: what arrived is parked, part in the stream buffer, part in the paused channel with EOF and CLOSE queued
    behind it).  Another command keeps the connection busy; one of ITS later packets is damaged (a bit flipped, bytes
    inserted) or the connection is cut.  The slow reader then reads: what it gets is a prefix of what was written,
    and unless it got all of it the end is an error, never a clean end of file."""
    cipher, mac, comp = cfg
    loop = P.fresh(seed)
    P.install_wire_labels()
    W = 64
    data = bytes((i * 7 + 3) % 251 for i in range(n))
    results = []
    try:
        async def handler(process):
            if process.command == 'fin':
                process.stdout.write(data)
                process.exit(0)
            else:
                while True:
                    d_ = await process.stdin.read(100)
                    if not d_:
                        break
                    process.stdout.write(d_)
        algs = dict(encryption_algs=[cipher], compression_algs=[comp])
        if mac:
            algs['mac_algs'] = [mac]
        pair = P.Pair(loop, sopts=dict(encoding=None, process_factory=handler, **algs), copts=algs)
        pair.handshake()
        st = {}

        async def app():
            st['fin'] = await pair.c.create_process('fin', encoding=None, window=W, max_pktsize=32)
            st['other'] = await pair.c.create_process('echo', encoding=None)
        pair.run(app())
        loop.flush_all()
        fin = st['fin']
        state_before = fin.channel._recv_state
        # the other command talks: its reply is what gets damaged
        st['other'].stdin.write(b'ping')
        loop.quiesce()
        while pair.st in loop.deliverable():
            P.deliver_packet(loop, pair.st)
            loop.quiesce()
        if how == 'cut':
            loop.cut(pair.ct, ConnectionResetError('cut'))
        elif pair.ct in loop.deliverable():
            chunk = pair.ct.peer.outq.popleft()
            raw = bytearray(bytes(chunk))
            if how == 'flip':
                raw[len(raw) // 2] ^= 0x10
            else:
                raw[5:5] = b'\\x00\\x01'
            loop.inject(pair.ct, bytes(raw))
        loop.flush_all()

        async def consume():
            rd = fin.stdout
            while True:
                try:
                    if api == 'read':
                        d_ = await rd.read(1 << 16)
                    elif api == 'readline':
                        d_ = await rd.readline()
                    else:
                        d_ = await rd.readexactly(7)
                except asyncio.IncompleteReadError as exc:
                    if exc.partial:
                        results.append(('data', exc.partial))
                        continue
                    results.append(('eof',))
                    return
                except Exception as exc:        # pylint: disable=broad-except
                    results.append(('exc', type(exc).__name__))
                    return
                if not d_:
                    results.append(('eof',))
                    return
                results.append(('data', d_))
        t = loop.create_task(consume())
        loop.flush_all()
        viol = []
        stalled = False
        if not t.done() and pair.c._transport is not None:
            # the damage changed an encrypted length field into a plausible larger one (CBC / CTR with a plain MAC):
            # the receiver is waiting for the rest of a packet that never comes.  Stalling is what the property
            # leaves to an attacker; the stream ends when the transport does, and then the reader must come back.
            stalled = True
            loop.cut(pair.ct, ConnectionResetError('cut'))
            loop.flush_all()
        got = b''.join(r[1] for r in results if r[0] == 'data')
        if not data.startswith(got):
            viol.append(('stream-data', 'the reader got %d bytes that are not a prefix of the %d written' % (len(got), n)))
        if not t.done():
            viol.append(('stream-reader-hangs', 'reader still waiting after the connection ended'))
        elif results and results[-1][0] == 'eof' and got != data:
            viol.append(('clean-eof-after-damage', 'the reader got %d of %d bytes and then a clean end of file (channel receive state before the damage: %s)'
                         % (len(got), n, state_before)))
        return {'viol': viol, 'state': state_before, 'got': len(got), 'stalled': stalled,
                'loop_exc': [repr(c.get('exception') or c.get('message'))[:200] for c in loop.unretrieved()]}
    finally:
        P.done(loop)


def finished_worker(job):
    acc = core.Acc()
    for cfg, how, n, api in job:
        name = '%s/%s/%s' % cfg
        try:
            obs = finished_then_damaged(cfg, how, n, api)
            viol = obs['viol'] + ([('loop-exception', obs['loop_exc'][0])] if obs['loop_exc'] else [])
            acc.count('finished:state-before-damage:%s' % obs['state'])
            if obs.get('stalled'):
                acc.count('finished:receiver-stalled-until-cut')
        except Livelock as exc:
            viol = [('livelock', str(exc))]
        acc.add(core.digest(('finished', cfg, how, n, api)), transitions=1,
                sample={'config': name, 'sender_finished_then': how, 'bytes_written': n, 'reader': api} if how == 'flip' and n == 150 and api == 'read' else None)
        for k, det in viol:
            acc.violation('tamper:%s:%s:finished-%s:%s' % (k, name, how, api), '%s; n=%d' % (det, n),
                          {'kind': 'finished', 'cfg': list(cfg), 'how': how, 'n': n, 'api': api})
    return acc


def finished_jobs(cfgs):
    cases = [(cfg, how, n, api) for cfg in cfgs for how in ('flip', 'insert', 'cut') for n in (10, 64, 65, 100, 128, 150, 400)
             for api in ('read', 'readline', 'readexactly')]
    return [cases[i::32] for i in range(32)]


def main(tier, seed):
    t0 = core.now()
    cfgs = configs(tier)
    a = run(cfgs[0], 'cs', 3, ('flip', 5, 1), seed)
    b = run(cfgs[0], 'cs', 3, ('flip', 5, 1), seed)
    if a != b:
        print('HARNESS-NONDETERMINISM')
        return 2
    rk = [c + ('rekey',) for c in cfgs if c[2] == 'none' and (tier == 'thorough' or c[1] in (None, 'hmac-sha2-256', 'hmac-sha1-etm@openssh.com'))]
    if tier == 'quick':
        rk = [c for c in rk if c[0] in ('chacha20-poly1305@openssh.com', 'aes256-gcm@openssh.com', 'aes128-ctr', 'aes192-cbc')]
    rk += [c[:3] + ('rekey-s',) for c in rk if c[1] in ((None, 'hmac-sha2-256') if tier == 'quick' else (None, 'hmac-sha2-256', 'hmac-sha1-etm@openssh.com', 'umac-64@openssh.com'))]
    acc = core.pmap(worker, core.rotate([(c, tier) for c in cfgs + rk], seed), chunksize=2)
    scfgs = [c for c in cfgs if c[2] == 'none' and (tier == 'thorough' or c[1] in (None, 'hmac-sha2-256', 'hmac-sha2-256-etm@openssh.com', 'umac-64@openssh.com'))]
    if tier == 'quick':
        scfgs = [c for c in scfgs if c[0] in ('chacha20-poly1305@openssh.com', 'aes128-gcm@openssh.com', 'aes128-ctr', 'aes256-cbc', '3des-cbc')]
    acc.merge(core.pmap(stream_worker, [(c, tier) for c in scfgs]))
    # quick: four suites plus one CBC suite with a plain MAC (there a damaged length field can stall the receiver)
    fq = scfgs[:4] + [c for c in scfgs[4:] if c[0].endswith('-cbc') and c[1] and 'etm' not in c[1]][:1]
    acc.merge(core.pmap(finished_worker, finished_jobs(fq if tier == 'quick' else scfgs)))
    rule = ('every negotiable cipher x MAC (AEAD ciphers once) x compression triple, each direction; '
            'target packets: first encrypted packet, first and last data packet (thorough: every packet); '
            'faults: bit flips at the boundaries of every region (length field all 8 bits of one byte, '
            'padding-length byte, body, padding, tag) (thorough: every byte), truncation after byte j, '
            'drop, duplicate, swap with next, insertion of 1/blocksize/packet-length zero bytes, splice of an '
            'earlier packet of the same direction and of a packet of the other direction; the same with the receiver '
            'in sessions that re-key in mid-stream (faults around the second NEWKEYS), and reading through the stream API, blocked in a read or busy elsewhere until the connection is gone '
            '(prefix then error, never a clean EOF); distinct = '
            'distinct (config, direction, packet, fault, outcome)')
    return core.finish(PROP, tier, seed, 'fault_enumeration', acc, t0, rule,
                       {'configs': len(cfgs)},
                       assumptions=['single fault per execution; the same triple in both directions '
                                    '(directions use independent cipher objects)',
                                    'cryptographic weakness of arcfour/CBC itself is out of scope'])


def replay(rep):
    r = rep['replay']
    cfg = tuple(r['cfg'])
    if r['kind'] == 'base':
        acc = worker((cfg, 'quick'))
        print(json.dumps(acc.violations[:3], indent=1, default=repr))
        return 1 if acc.violations else 0
    if r['kind'] == 'finished':
        acc = finished_worker([(tuple(None if x is None else x for x in cfg), r['how'], r['n'], r['api'])])
        print(json.dumps(acc.violations[:3], indent=1, default=repr))
        if acc.violations:
            print('VIOLATION property=%s replay=(given)' % PROP)
        return 1 if acc.violations else 0
    if r['kind'] == 'stream':
        acc = stream_worker((cfg, 'quick'))
        v = [x for x in acc.violations if x['replay'].get('style') == r.get('style') and x['replay'].get('d') == r['d']]
        print(json.dumps(v[:3], indent=1, default=repr))
        if v:
            print('VIOLATION property=%s replay=(given)' % PROP)
        return 1 if v else 0
    fault = tuple(r['fault'])
    obs = run(cfg, r['d'], r['i'], fault, glue=r.get('glue', False))
    v = judge(cfg, r['d'], r['i'], fault, obs)
    obs.pop('c_msgs')
    obs.pop('s_msgs')
    print(json.dumps({'replay': r, 'observation': {k: (len(x) if isinstance(x, bytes) else x) for k, x in obs.items()},
                      'violations': v}, indent=1, default=repr))
    if v:
        print('VIOLATION property=%s replay=(given)' % PROP)
        return 1
    return 0
