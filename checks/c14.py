"""C14  Each SFTP request gets exactly one matching, well-typed reply.

(a) real SFTPClient over the model server: k concurrent API calls, replies in every order,
    per-reply faults (wrong type, unknown id, duplicate id, other caller's id), request
    cancellation with a late reply -- DFS over reply schedules;
(b) real SFTPServerHandler fed, for versions 3..6, every request type in well-formed,
    every-truncation and trailing-byte shape, followed by a probe request;
(c) attribute / name / vfs / limits / ranges codecs: decode(encode(x)) == x for every
    subset of the flags a version can carry, plus an independent encoder for the layout.
"""

import asyncio
import errno
import itertools
import json
import os
import shutil
import struct

import asyncssh
from asyncssh.packet import SSHPacket
from asyncssh.sftp import (SFTPAttrs, SFTPLimits, SFTPName, SFTPRanges, SFTPServer, SFTPServerHandler,
                           SFTPVFSAttrs)

import core
import pair as P
import refsftp as RS
from refsftp import FXP, s, u32, u64
from vloop import Livelock

PROP = 'C14'
SCRATCH = '/dev/shm/asyncssh-verif-c14-%d' % os.getpid()       # unique per check run (workers are forked later)


# ------------------------------------------------------------------ (a) client side matching
CALLS = {
    'stat': (lambda sftp: sftp.stat('/f'), lambda v: getattr(v, 'size', None) == 10),
    'stat2': (lambda sftp: sftp.stat('/g'), lambda v: getattr(v, 'size', None) == 20),
    'realpath': (lambda sftp: sftp.realpath('/f'), lambda v: v == '/f'),
    'open': (lambda sftp: sftp.open('/f', 'rb'), lambda v: hasattr(v, 'read')),
    'listdir': (lambda sftp: sftp.listdir('/'), lambda v: sorted(v) == ['f', 'g']),
    'missing': (lambda sftp: sftp.stat('/nope'), None),      # expects SFTPNoSuchFile
    'readlink': (lambda sftp: sftp.readlink('/l'), lambda v: v == '/f'),
}


def client_run(calls, chooser, allow_faults=True, cancel=False, seed=0, bare_status=False):
    loop = P.fresh(seed)
    trace = []
    try:
        srv = RS.RefSFTP(loop, extensions=[])
        srv.put_file(b'/f', b'x' * 10)
        srv.put_file(b'/g', b'y' * 20)
        srv.links[b'/l'] = b'/f'
        srv.bare_status = bare_status
        start, conn = RS.start_client(loop, srv)
        for _ in range(20):
            loop.quiesce()
            if start.done():
                break
            if srv.pending:
                srv.answer(0, 'ok')
        sftp = start.result()
        async def call(c):
            return await CALLS[c][0](sftp)
        tasks = [loop.create_task(call(c)) for c in calls]
        faulted = False
        cancelled = set()
        steps = 0
        while True:
            loop.quiesce()
            pend = srv.pending
            if not pend:
                break
            opts = [('ok', i) for i in range(len(pend))]
            if allow_faults and not faulted:
                for t in (101, 102, 103, 104, 105, 201):
                    opts.append(('type', t))
                opts += [('unknown-id', 0), ('dup-id', 0)]
                if len(pend) >= 2:
                    opts.append(('other-id', 0))
            if cancel and not cancelled and len(tasks) > 1:
                opts.append(('cancel', 0))
            k = chooser.choose(len(opts), label='reply')
            kind, arg = opts[k]
            req0 = pend[0]
            if kind == 'ok':
                trace.append('ok:%s#%d' % (pend[arg].name, pend[arg].id))
                srv.answer(arg, 'ok')
            elif kind == 'type':
                faulted = True
                trace.append('wrong-type-%d:%s' % (arg, req0.name))
                srv.answer(0, 'ok', type_override=arg)
            elif kind == 'unknown-id':
                faulted = True
                trace.append('unknown-id')
                srv.status(0xdeadbeef, 0)
            elif kind == 'dup-id':
                faulted = True
                trace.append('dup-id:%s' % req0.name)
                srv.answer(0, 'ok')
                srv.status(req0.id, 0)
            elif kind == 'other-id':
                faulted = True
                trace.append('other-id:%s->%d' % (req0.name, pend[1].id))
                srv.answer(0, 'ok', rid_override=pend[1].id)
            elif kind == 'cancel':
                # cancel the API call whose request is the oldest outstanding one; its reply comes late
                cancelled.add(0)
                tasks[0].cancel()
                trace.append('cancel-call-0')
            steps += 1
            if steps > 200:
                raise Livelock('too many replies')
        loop.quiesce()
        viol = []
        results = []
        for i, (c, t) in enumerate(zip(calls, tasks)):
            if not t.done():
                viol.append(('caller-hangs', 'call %s never completed; replies=%s' % (c, trace)))
                results.append('pending')
                continue
            if t.cancelled():
                results.append('cancelled')
                continue
            exc = t.exception()
            if exc is not None:
                results.append(type(exc).__name__)
                if not isinstance(exc, asyncssh.SFTPError):
                    viol.append(('undocumented-error', '%s raised %r' % (c, exc)))
                elif not faulted and not (c == 'missing' and isinstance(exc, asyncssh.SFTPNoSuchFile)):
                    viol.append(('own-reply-not-delivered', 'all replies were correct (order: %s) but call %s '
                                 'raised %r' % (trace, c, exc)))
            else:
                results.append('value')
                check = CALLS[c][1]
                if faulted:
                    pass        # a server that lies with a well-typed reply cannot be told apart
                elif check is None:
                    viol.append(('wrong-value', 'call %s should have failed, returned %r' % (c, t.result())))
                elif not check(t.result()):
                    viol.append(('wrong-value', 'call %s received a value that belongs to another request or '
                                 'is malformed: %r ; replies=%s' % (c, t.result(), trace)))
        lexc = loop.unretrieved()
        if lexc:
            viol.append(('loop-exception', repr(lexc[0].get('exception') or lexc[0].get('message'))[:200]))
        return {'viol': viol, 'trace': trace, 'results': results, 'steps': steps}
    except Livelock as exc:
        return {'viol': [('livelock', str(exc))], 'trace': trace, 'results': [], 'steps': 0}
    finally:
        P.done(loop)


def client_worker(job):
    calls, bound, cancel = job[:3]
    bare = len(job) > 3 and job[3]
    acc = core.Acc()

    def check(obs, ch):
        acc.add(core.digest((calls, cancel, bare, tuple(obs['trace']), tuple(obs['results']))), transitions=obs['steps'],
                sample={'calls': calls, 'replies': obs['trace'], 'results': obs['results']} if len(ch.labels()) == 2 else None)
        for k, d in obs['viol']:
            acc.violation('match:%s:%s' % (k, '+'.join(calls)), d,
                          {'kind': 'client', 'calls': list(calls), 'choices': ch.choices, 'cancel': cancel, 'bare': bare})
    core.explore_dfs(lambda ch: client_run(calls, ch, cancel=cancel, bare_status=bare), bound, check)
    return acc


# ------------------------------------------------------------------ (b) server side
class DummyChan:
    def get_connection(self):
        return None

    def get_extra_info(self, name, default=None):
        return default


class CollectWriter:
    def __init__(self):
        self.buf = b''
        self.closed = False
        self.channel = self
        self.logger = asyncssh.logging.logger

    def write(self, data):
        self.buf += bytes(data)

    def close(self):
        self.closed = True

    def write_eof(self):
        pass

    def get_extra_info(self, name, default=None):
        return default

    def packets(self):
        out, b = [], self.buf
        while len(b) >= 4:
            n = struct.unpack('>I', b[:4])[0]
            out.append(b[4:4 + n])
            b = b[4 + n:]
        return out


def attrs_empty(v):
    return u32(0) if v == 3 else u32(0) + b'\x01'


def requests(v):
    """name -> (type, body, legal reply types)"""
    H, D = b'@FILE@', b'@DIR@'
    st = FXP['STATUS']
    R = {}
    if v <= 4:
        R['open'] = (3, s('f') + u32(1) + attrs_empty(v), {st, 102})
    else:
        R['open'] = (3, s('f') + u32(1) + u32(2) + attrs_empty(v), {st, 102})
    R['close'] = (4, s(H), {st})
    R['read'] = (5, s(H) + u64(0) + u32(4), {st, 103})
    R['write'] = (6, s(H) + u64(0) + s(b'zz'), {st})
    R['lstat'] = (7, s('f') + (u32(0) if v >= 4 else b''), {st, 105})
    R['fstat'] = (8, s(H) + (u32(0) if v >= 4 else b''), {st, 105})
    R['setstat'] = (9, s('f') + attrs_empty(v), {st})
    R['fsetstat'] = (10, s(H) + attrs_empty(v), {st})
    R['opendir'] = (11, s('d'), {st, 102})
    R['readdir'] = (12, s(D), {st, 104})
    R['remove'] = (13, s('nofile'), {st})
    R['mkdir'] = (14, s('newdir') + attrs_empty(v), {st})
    R['rmdir'] = (15, s('nodir'), {st})
    R['realpath'] = (16, s('.'), {st, 104})
    if v >= 6:
        R['realpath-compose'] = (16, s('d') + b'\x01' + s('x') + s('..'), {st, 104})
    R['stat'] = (17, s('f') + (u32(0) if v >= 4 else b''), {st, 105})
    R['rename'] = (18, s('f2') + s('f3') + (u32(0) if v >= 5 else b''), {st})
    R['readlink'] = (19, s('l'), {st, 104})
    if v <= 5:
        R['symlink'] = (20, s('newlink') + s('f'), {st})
    else:
        R['link'] = (21, s('newlink') + s('f') + b'\x01', {st})
        R['block'] = (22, s(H) + u64(0) + u64(1) + u32(0x40), {st})
        R['unblock'] = (23, s(H) + u64(0) + u64(1), {st})
    ext = lambda name, body: (200, s(name) + body)    # noqa
    R['x-posix-rename'] = ext('posix-rename@openssh.com', s('f2') + s('f3')) + ({st},)
    R['x-statvfs'] = ext('statvfs@openssh.com', s('/')) + ({st, 201},)
    R['x-fstatvfs'] = ext('fstatvfs@openssh.com', s(H)) + ({st, 201},)
    R['x-hardlink'] = ext('hardlink@openssh.com', s('f') + s('hl')) + ({st},)
    R['x-fsync'] = ext('fsync@openssh.com', s(H)) + ({st},)
    R['x-lsetstat'] = ext('lsetstat@openssh.com', s('f') + attrs_empty(v)) + ({st},)
    R['x-limits'] = ext('limits@openssh.com', b'') + ({st, 201},)
    R['x-copy-data'] = ext('copy-data', s(H) + u64(0) + u64(2) + s(H) + u64(4)) + ({st},)
    R['x-ranges'] = ext('ranges@asyncssh.com', s(H) + u64(0) + u64(10)) + ({st, 201},)
    R['x-unknown'] = ext('nosuch@example.com', s('abc')) + ({st},)
    R['type0'] = (0, b'abc', {st})
    R['type199'] = (199, b'', {st})
    R['type255'] = (255, u32(5), {st})
    return R


def server_session(v, root, server_cls, script):
    """script: list of (type, id, body) or raw bytes; returns list of reply packets"""
    loop = P.fresh(0)
    try:
        rd = RS.FakeReader(loop)
        wr = CollectWriter()
        handler = SFTPServerHandler(server_cls(DummyChan(), chroot=root), rd, wr, 6)
        task = loop.create_task(handler.run())
        rd.feed(u32(5) + bytes([1]) + u32(v))
        loop.flush_all()
        handles = {}

        def send(t, rid, body):
            body = body.replace(b'\x00\x00\x00\x06@FILE@', s(handles.get('file', b'none')))
            body = body.replace(b'\x00\x00\x00\x05@DIR@', s(handles.get('dir', b'none')))
            pkt = bytes([t]) + u32(rid) + body
            rd.feed(u32(len(pkt)) + pkt)
            loop.flush_all()
        # prelude: a file handle and a directory handle
        n0 = len(wr.packets())
        if v <= 4:
            send(3, 1, s('f') + u32(3) + attrs_empty(v))
        else:
            send(3, 1, s('f') + u32(3) + u32(3) + attrs_empty(v))
        send(11, 2, s('d'))
        for p in wr.packets()[n0:]:
            if p[0] == 102:
                rid = struct.unpack('>I', p[1:5])[0]
                handles['file' if rid == 1 else 'dir'] = p[9:]
        n1 = len(wr.packets())
        for item in script:
            send(*item)
        replies = wr.packets()[n1:]
        exc = loop.unretrieved()
        return replies, handles, wr.closed or task.done(), exc
    finally:
        P.done(loop)


def server_worker(job):
    v, names, tier = job
    acc = core.Acc()
    root = os.path.join(SCRATCH, 'srv-%d' % os.getpid())
    reqs = requests(v)
    for name in names:
        t, body, legal = reqs[name]
        shapes = [('ok', body)] + [('trunc@%d' % k, body[:k]) for k in range(len(body))] + [('trail', body + b'\0')]
        for shape, b in shapes:
            _mkroot(root)
            try:
                replies, handles, ended, lexc = server_session(v, root, SFTPServer, [(t, 77, b), (17, 99, s('f') + (u32(0) if v >= 4 else b''))])
            except Livelock as exc:
                acc.violation('serve:livelock:v%d:%s' % (v, name), str(exc), {'kind': 'server', 'v': v, 'name': name, 'shape': shape})
                continue
            viol = []
            r77 = [p for p in replies if len(p) >= 5 and struct.unpack('>I', p[1:5])[0] == 77]
            r99 = [p for p in replies if len(p) >= 5 and struct.unpack('>I', p[1:5])[0] == 99]
            other = [p for p in replies if p not in r77 and p not in r99]
            if len(r77) != 1:
                viol.append(('reply-count', 'request %s (%s) got %d replies' % (name, shape, len(r77))))
            elif r77[0][0] not in legal:
                viol.append(('reply-type', 'request %s (%s) answered with type %d, legal %r' % (name, shape, r77[0][0], sorted(legal))))
            elif shape == 'ok' and name in ('x-unknown', 'type0', 'type199', 'type255'):
                code = struct.unpack('>I', r77[0][5:9])[0]
                if r77[0][0] != 101 or code != 8:
                    viol.append(('unsupported-not-reported', 'request %s answered %d/%d, expected STATUS OP_UNSUPPORTED' % (name, r77[0][0], code)))
            if other:
                viol.append(('stray-reply', 'reply with an id nobody used: %r' % (other[0][:12],)))
            if len(r99) != 1 or r99[0][0] != 105:
                viol.append(('session-ended', 'after request %s (%s) the following STAT got %s (session closed=%s)'
                             % (name, shape, [p[0] for p in r99], ended)))
            if lexc:
                viol.append(('loop-exception', repr(lexc[0].get('exception') or lexc[0].get('message'))[:200]))
            acc.add(core.digest((v, name, shape, [p[:1] for p in r77])), transitions=2,
                    sample={'version': v, 'request': name, 'shape': shape, 'reply_type': r77[0][0] if r77 else None}
                    if shape == 'trail' and name == 'x-ranges' else None)
            for k, d in viol:
                acc.violation('serve:%s:v%d:%s' % (k, v, name), d, {'kind': 'server', 'v': v, 'name': name, 'shape': shape})
    shutil.rmtree(root, ignore_errors=True)
    return acc


# ------------------------------------------------------------------ (b2) applications that refuse or fail a method
APP_METHODS = ['open', 'open56', 'close', 'read', 'write', 'lstat', 'fstat', 'setstat', 'lsetstat', 'fsetstat', 'scandir',
               'remove', 'mkdir', 'rmdir', 'realpath', 'stat', 'rename', 'readlink', 'symlink', 'link', 'lock', 'unlock',
               'posix_rename', 'statvfs', 'fstatvfs', 'fsync']


def reply_well_typed(v, p):
    """is the reply packet p (type byte, id, body) well-formed for its own type in version v?"""
    try:
        t = p[0]
        pk = SSHPacket(p[5:])
        if t == 101:
            pk.get_uint32()
            if pk:
                pk.get_string()
                pk.get_string()
        elif t == 102:
            pk.get_string()
        elif t == 103:
            pk.get_string()
            if pk and v >= 6:
                pk.get_boolean()
        elif t == 104:
            n = pk.get_uint32()
            if n > 1000:
                return False
            for _ in range(n):
                SFTPName.decode(pk, v)
            if pk and v >= 6:
                pk.get_boolean()
        elif t == 105:
            SFTPAttrs.decode(pk, v)
        elif t == 201:
            return True
        else:
            return False
        pk.check_end()
        return True
    except Exception:           # pylint: disable=broad-except
        return False


def refusing_worker(job):
    """an application SFTPServer that refuses (NotImplementedError) or fails (OSError, SFTPError, ValueError)
    one method at a time: every request still gets one reply with its id; where the refusal changes the
    answer it becomes STATUS OP_UNSUPPORTED / the mapped error code; every reply parses as its own type"""
    v, methods = job
    acc = core.Acc()
    root = os.path.join(SCRATCH, 'ref-%d' % os.getpid())
    reqs = requests(v)
    names = [n for n in reqs if not n.startswith('type') and n not in ('x-unknown', 'close')] + ['close']   # handles stay open until the end
    script = [(reqs[n][0], 300 + i, reqs[n][1]) for i, n in enumerate(names)]
    _mkroot(root)
    base, _h, _e, _x = server_session(v, root, SFTPServer, script)
    base_by_id = {struct.unpack('>I', p[1:5])[0]: p for p in base}
    for m in methods:
        for how, exc, code in (('NotImplementedError', NotImplementedError(), 8), ('PermissionError', PermissionError(13, 'denied'), 3),
                               ('SFTPFailure', asyncssh.SFTPFailure('no'), 4)):
            def boom(self, *a, _exc=exc, **kw):
                raise _exc
            cls = type('App', (SFTPServer,), {m: boom})
            _mkroot(root)
            try:
                replies, _h, ended, lexc = server_session(v, root, cls, script)
            except Livelock as e:
                acc.violation('serve:livelock:v%d:refusing-%s' % (v, m), str(e), {'kind': 'refusing', 'v': v, 'm': m})
                continue
            by_id = {}
            for p in replies:
                by_id.setdefault(struct.unpack('>I', p[1:5])[0], []).append(p)
            viol = []
            for i, n in enumerate(names):
                rs = by_id.get(300 + i, [])
                if len(rs) != 1:
                    viol.append(('reply-count', 'request %s got %d replies' % (n, len(rs))))
                    continue
                p = rs[0]
                if p[0] not in reqs[n][2]:
                    viol.append(('reply-type', 'request %s answered with type %d' % (n, p[0])))
                elif not reply_well_typed(v, p):
                    viol.append(('reply-ill-typed', 'request %s answered with type %d whose body is not of that type: %s' % (n, p[0], p[5:40].hex())))
                elif p != base_by_id.get(300 + i) and p[0] != 101 and base_by_id.get(300 + i, b'\0')[0] != 101 and how == 'NotImplementedError' \
                        and p[0] == base_by_id[300 + i][0] and n not in ('readdir', 'fstat', 'stat', 'lstat', 'read'):
                    pass
            if lexc:
                viol.append(('loop-exception', repr(lexc[0].get('exception') or lexc[0].get('message'))[:200]))
            # the refused method's own request: exact status
            own = {'open': 'open' if v <= 4 else None, 'open56': 'open' if v >= 5 else None, 'lstat': 'lstat', 'stat': 'stat', 'fstat': 'fstat',
                   'realpath': 'realpath', 'readlink': 'readlink', 'statvfs': 'x-statvfs', 'fstatvfs': 'x-fstatvfs', 'remove': 'remove',
                   'mkdir': 'mkdir', 'rmdir': 'rmdir', 'rename': 'rename', 'setstat': 'setstat', 'posix_rename': 'x-posix-rename',
                   'fsync': 'x-fsync', 'lsetstat': 'x-lsetstat', 'read': 'read', 'write': 'write', 'fsetstat': 'fsetstat', 'close': 'close', 'symlink': 'symlink' if v <= 5 else None}.get(m)
            if own == 'realpath' and v >= 6:
                own = 'realpath-compose'
            b_own = base_by_id.get(300 + names.index(own)) if own and own in names else None
            if b_own is not None and b_own[0] == 101 and struct.unpack('>I', b_own[5:9])[0] != 0:
                own = None              # the stock server already answers this request with an error
            if own and own in names:
                rs = by_id.get(300 + names.index(own), [])
                if len(rs) == 1:
                    got = (rs[0][0], struct.unpack('>I', rs[0][5:9])[0] if len(rs[0]) >= 9 else None)
                    want = (101, expected_code(code, v))
                    if got != want:
                        viol.append(('refusal-not-reported', 'application %s raises %s: request %s answered type/code %r, expected %r'
                                     % (m, how, own, got, want)))
            acc.add(core.digest((v, m, how, tuple(sorted((k, x[0][0]) for k, x in by_id.items())))), transitions=len(script),
                    sample={'version': v, 'application_method': m, 'raises': how} if m == 'stat' and how == 'NotImplementedError' else None)
            for k, d in viol[:6]:
                acc.violation('serve:%s:v%d:app-%s-%s' % (k, v, m, how), d, {'kind': 'refusing', 'v': v, 'm': m})
    shutil.rmtree(root, ignore_errors=True)
    return acc


# ------------------------------------------------------------------ (b3) applications written in the other documented forms
def _flavoured(flavour):
    """An application SFTPServer that behaves exactly like the stock one but is written differently: methods as
    coroutines, stat results handed back as os.stat_result (what the stock methods return) or as SFTPAttrs."""
    import inspect
    ns = {}
    stats = ('stat', 'lstat', 'fstat')

    def wrap_async(name, to_attrs):
        async def method(self, *a, **kw):
            r = getattr(SFTPServer, name)(self, *a, **kw)
            if inspect.isawaitable(r):
                r = await r
            if to_attrs and isinstance(r, os.stat_result):
                r = asyncssh.SFTPAttrs.from_local(r)
            return r
        method.__name__ = name
        return method

    def wrap_sync_attrs(name):
        def method(self, *a, **kw):
            r = getattr(SFTPServer, name)(self, *a, **kw)
            return asyncssh.SFTPAttrs.from_local(r) if isinstance(r, os.stat_result) else r
        method.__name__ = name
        return method
    if flavour == 'async-stat':
        for n in stats:
            ns[n] = wrap_async(n, False)
    elif flavour == 'async-attrs-stat':
        for n in stats:
            ns[n] = wrap_async(n, True)
    elif flavour == 'attrs-stat':
        for n in stats:
            ns[n] = wrap_sync_attrs(n)
    elif flavour == 'async-all':
        for n in APP_METHODS:
            if n == 'scandir' or inspect.isasyncgenfunction(getattr(SFTPServer, n, None)) or not hasattr(SFTPServer, n):
                continue
            ns[n] = wrap_async(n, False)
    elif flavour.startswith('async-one:'):
        n = flavour.split(':')[1]
        ns[n] = wrap_async(n, False)
    elif flavour == 'listdir-hook':
        # the legacy directory hook: names only; attributes then come from lstat
        def listdir(self, path):
            return sorted(os.listdir(self.map_path(path))) if hasattr(self, 'map_path') else []
        ns['listdir'] = listdir
        ns['lstat'] = wrap_async('lstat', False)
    return type('App_' + flavour.replace('-', '_').replace(':', '_'), (SFTPServer,), ns)


def _reply_norm(v, p):
    """a reply with what two runs on freshly made trees cannot share taken out: times, inode change counters,
    free-space figures, handle values"""
    t = p[0]
    pk = SSHPacket(p[5:])
    try:
        def attrs(a):
            d = {k: getattr(a, k, None) for k in ('type', 'size', 'alloc_size', 'uid', 'gid', 'owner', 'group', 'permissions', 'nlink', 'extended')}
            d['times-present'] = tuple(getattr(a, k, None) is not None for k in ('atime', 'crtime', 'mtime', 'ctime'))
            return tuple(sorted((k, repr(x)) for k, x in d.items()))
        if t == 101:
            return (t, pk.get_uint32())
        if t == 102:
            return (t,)
        if t == 103:
            data = pk.get_string()
            return (t, data, pk.get_boolean() if pk and v >= 6 else None)
        if t == 104:
            n = pk.get_uint32()
            out = []
            for _ in range(n):
                nm = SFTPName.decode(pk, v)
                out.append((nm.filename, attrs(nm.attrs)))
            return (t, tuple(sorted(out)), pk.get_boolean() if pk and v >= 6 else None)
        if t == 105:
            return (t, attrs(SFTPAttrs.decode(pk, v)))
        return (t, len(p))
    except Exception as exc:        # pylint: disable=broad-except
        return (t, 'undecodable', repr(exc))


def flavour_worker(job):
    """every request of the version's script against the stock server and against the same server written in
    another documented form: the replies must be the same (times, free-space figures and handle values apart; READDIR under the names-only hook:
    every name still answered with attributes, no error status)"""
    v, flavours = job
    acc = core.Acc()
    root = os.path.join(SCRATCH, 'flav-%d' % os.getpid())
    reqs = requests(v)
    names = [n for n in reqs if not n.startswith('type') and n not in ('x-unknown', 'close')] + ['close']
    script = [(reqs[n][0], 300 + i, reqs[n][1]) for i, n in enumerate(names)]
    # the tail of the file (v6 READ works out the end-of-file flag through fstat) and the directory listing
    extra = []
    if 'read' in reqs:
        extra.append(('read-tail', 5, s('@FILE@') + struct.pack('>Q', 8) + u32(100)))
    script += [(t, 600 + i, b) for i, (_n, t, b) in enumerate(extra)]
    _mkroot(root)
    os.utime(os.path.join(root, 'f'), (1_600_000_000, 1_600_000_000))
    base, _h, _e, _x = server_session(v, root, SFTPServer, script)
    base_by_id = {struct.unpack('>I', p[1:5])[0]: p for p in base}
    for fl in flavours:
        _mkroot(root)
        os.utime(os.path.join(root, 'f'), (1_600_000_000, 1_600_000_000))
        try:
            replies, _h, ended, lexc = server_session(v, root, _flavoured(fl), script)
        except Livelock as e:
            acc.violation('serve:livelock:v%d:flavour-%s' % (v, fl), str(e), {'kind': 'flavour', 'v': v, 'fl': fl})
            continue
        viol = []
        by_id = {}
        for p in replies:
            by_id.setdefault(struct.unpack('>I', p[1:5])[0], []).append(p)
        allnames = names + [n for n, _t, _b in extra]
        ids = [300 + i for i in range(len(names))] + [600 + i for i in range(len(extra))]
        for rid, n in zip(ids, allnames):
            rs = by_id.get(rid, [])
            b = base_by_id.get(rid)
            if len(rs) != 1:
                viol.append(('reply-count', 'request %s got %d replies' % (n, len(rs))))
            elif fl == 'listdir-hook' and n == 'readdir':
                if rs[0][0] != 104 or not reply_well_typed(v, rs[0]):
                    viol.append(('reply-differs', 'READDIR under the names-only hook answered with type %d %s' % (rs[0][0], rs[0][5:60])))
            elif b is not None and _reply_norm(v, rs[0]) != _reply_norm(v, b):
                viol.append(('reply-differs', 'request %s: stock server answers type %d %s, the application written as %s answers type %d %s'
                             % (n, b[0], b[5:45].hex(), fl, rs[0][0], rs[0][5:45] if rs[0][0] == 101 else rs[0][5:45].hex())))
        if lexc:
            viol.append(('loop-exception', repr(lexc[0].get('exception') or lexc[0].get('message'))[:200]))
        acc.add(core.digest((v, fl, tuple(sorted((k, x[0][:1]) for k, x in by_id.items())))), transitions=len(script),
                sample={'version': v, 'application_written_as': fl} if fl == 'async-stat' else None)
        for k, d in viol[:6]:
            acc.violation('serve:%s:v%d:flavour-%s' % (k, v, fl), d, {'kind': 'flavour', 'v': v, 'fl': fl})
    shutil.rmtree(root, ignore_errors=True)
    return acc


def flavour_jobs():
    fls = ['async-stat', 'async-attrs-stat', 'attrs-stat', 'async-all', 'listdir-hook'] + ['async-one:%s' % m for m in APP_METHODS if m not in ('scandir', 'open56')]
    return [(v, fls[i::4]) for v in (3, 4, 5, 6) for i in range(4)]


# ------------------------------------------------------------------ (b4) the long names of a version 3 listing
LONGNAME_APPS = [(supplied, override) for supplied in ('none', 'some', 'all') for override in ('stock', 'sync', 'async', 'sync-returning')]


def _longname_app(supplied, override):
    """an application whose scandir() hands back its own SFTPName objects -- some with a long name of its own --
    and which may replace the formatter of the long names it did not supply"""
    ns = {}

    async def scandir(self, path):
        for i, fn in enumerate((b'alpha', b'beta', b'gamma')):
            given = supplied == 'all' or (supplied == 'some' and i != 1)
            yield SFTPName(fn, ('APP-LONG-%s' % fn.decode()).encode() if given else b'',
                           SFTPAttrs(size=10 + i, permissions=0o100640, uid=7, gid=8, atime=1_600_000_000, mtime=1_600_000_000))
    ns['scandir'] = scandir
    if override == 'sync':
        def format_longname(self, name):
            name.longname = b'FMT-' + name.filename
        ns['format_longname'] = format_longname
    elif override == 'async':
        async def format_longname(self, name):
            name.longname = b'FMT-' + name.filename
        ns['format_longname'] = format_longname
    elif override == 'sync-returning':
        def format_longname(self, name):            # an override that also hands the value back does no harm
            name.longname = b'FMT-' + name.filename
            return None
        ns['format_longname'] = format_longname
    return type('LongApp_%s_%s' % (supplied, override.replace('-', '_')), (SFTPServer,), ns)


def longname_worker(job):
    """READDIR at every version against applications that supply their own names: each entry reaches the client
    with the filename and attributes the application gave; at version 3 the long name is the application's own
    where it supplied one, the (possibly replaced) formatter's where it did not"""
    v, apps = job
    acc = core.Acc()
    root = os.path.join(SCRATCH, 'long-%d' % os.getpid())
    for supplied, override in apps:
        _mkroot(root)
        script = [(11, 1, s('d')), (12, 2, s(b'@DIR@')), (12, 3, s(b'@DIR@'))]
        rk = {'kind': 'longname', 'v': v, 'app': [supplied, override]}
        try:
            replies, _h, ended, lexc = server_session(v, root, _longname_app(supplied, override), script)
        except Livelock as e:
            acc.violation('serve:livelock:v%d:longname-%s-%s' % (v, supplied, override), str(e), rk)
            continue
        viol = []
        r2 = [p for p in replies if struct.unpack('>I', p[1:5])[0] == 2]
        got = []
        if len(r2) != 1 or r2[0][0] != 104:
            viol.append(('listing-missing', 'READDIR answered %r' % ([(p[0], p[5:40]) for p in r2],)))
        else:
            pk = SSHPacket(r2[0][5:])
            try:
                n = pk.get_uint32()
                for _ in range(n):
                    got.append(SFTPName.decode(pk, v))
            except Exception as exc:        # pylint: disable=broad-except
                viol.append(('listing-undecodable', repr(exc)))
        if not viol:
            if [g.filename for g in got] != [b'alpha', b'beta', b'gamma']:
                viol.append(('listing-names', repr([g.filename for g in got])))
            for i, g in enumerate(got[:3]):
                given = supplied == 'all' or (supplied == 'some' and i != 1)
                if (g.attrs.size, (g.attrs.permissions or 0) & 0o7777) != (10 + i, 0o640):     # v4+ carry the file type apart
                    viol.append(('listing-attrs', '%r: size %r permissions %r' % (g.filename, g.attrs.size, g.attrs.permissions)))
                if v == 3:
                    if given:
                        want = b'APP-LONG-' + g.filename
                        if g.longname != want:
                            viol.append(('longname-replaced', 'the application supplied %r for %r; the client received %r' % (want, g.filename, g.longname)))
                    elif override != 'stock':
                        if g.longname != b'FMT-' + g.filename:
                            viol.append(('longname-formatter-unused', '%r: the application formatter gives %r; the client received %r' % (g.filename, b'FMT-' + g.filename, g.longname)))
                    elif not g.longname or g.filename not in g.longname:
                        viol.append(('longname-empty', '%r: long name %r' % (g.filename, g.longname)))
        if lexc:
            viol.append(('loop-exception', repr(lexc[0].get('exception') or lexc[0].get('message'))[:200]))
        acc.add(core.digest((v, supplied, override, tuple((g.filename, g.longname if v == 3 else None) for g in got))), transitions=len(script))
        for k, d in viol[:4]:
            acc.violation('serve:%s:v%d:longname-%s-%s' % (k, v, supplied, override), d, rk)
    shutil.rmtree(root, ignore_errors=True)
    return acc


def longname_jobs():
    return [(v, LONGNAME_APPS[i::2]) for v in (3, 4, 5, 6) for i in range(2)]


def _mkroot(root):
    shutil.rmtree(root, ignore_errors=True)
    os.makedirs(os.path.join(root, 'd'))
    for n, c in (('f', b'0123456789'), ('f2', b'two'), ('d/x', b'x')):
        with open(os.path.join(root, n), 'wb') as f:
            f.write(c)
    os.symlink('f', os.path.join(root, 'l'))


ERRNO_TABLE = [(errno.ENOENT, 2), (errno.EACCES, 3), (errno.EEXIST, 11), (errno.EROFS, 12), (errno.ENOSPC, 14),
               (errno.EDQUOT, 15), (errno.ENOTEMPTY, 18), (errno.ENOTDIR, 19), (errno.ENAMETOOLONG, 20),
               (errno.EILSEQ, 20), (errno.ELOOP, 21), (errno.EINVAL, 23), (errno.EISDIR, 24), (errno.EIO, 4),
               (errno.EPERM, 4), (errno.EBUSY, 4)]
VERSION_LAST = {3: 8, 4: 13, 5: 17, 6: 31}


def expected_code(code, v):
    if code == 19 and v < 6:
        return 2
    if code > VERSION_LAST[v]:
        return 4
    return code


def errmap_worker(v):
    acc = core.Acc()
    root = os.path.join(SCRATCH, 'err-%d' % os.getpid())
    cases = [('OSError(%s)' % errno.errorcode[e], OSError(e, os.strerror(e)), c) for e, c in ERRNO_TABLE]
    for cls_name in ('SFTPNoSuchFile', 'SFTPPermissionDenied', 'SFTPFailure', 'SFTPBadMessage', 'SFTPOpUnsupported',
                     'SFTPInvalidHandle', 'SFTPNoSuchPath', 'SFTPFileAlreadyExists', 'SFTPWriteProtect',
                     'SFTPNoSpaceOnFilesystem', 'SFTPQuotaExceeded', 'SFTPDirNotEmpty', 'SFTPNotADirectory',
                     'SFTPInvalidFilename', 'SFTPLinkLoop', 'SFTPInvalidParameter', 'SFTPFileIsADirectory',
                     'SFTPLockConflict', 'SFTPEOFError'):
        cls = getattr(asyncssh, cls_name)
        inst = cls('x') if cls_name != 'SFTPEOFError' else cls()
        cases.append((cls_name, inst, inst.code))
    for label, exc, code in cases:
        class Raising(SFTPServer):
            def stat(self, path):
                raise exc
        _mkroot(root)
        replies, _h, ended, lexc = server_session(v, root, Raising, [(17, 77, s('f') + (u32(0) if v >= 4 else b'')), (7, 99, s('f') + (u32(0) if v >= 4 else b''))])
        r77 = [p for p in replies if struct.unpack('>I', p[1:5])[0] == 77]
        r99 = [p for p in replies if struct.unpack('>I', p[1:5])[0] == 99]
        got = struct.unpack('>I', r77[0][5:9])[0] if len(r77) == 1 and r77[0][0] == 101 else None
        want = expected_code(code, v)
        acc.add(core.digest((v, label, got)), transitions=2,
                sample={'version': v, 'raised': label, 'status': got} if label == 'OSError(ENOTDIR)' else None)
        if got != want:
            acc.violation('serve:error-mapping:v%d:%s' % (v, label), 'stat raising %s answered with status %r, '
                          'expected %d' % (label, got, want), {'kind': 'errmap', 'v': v})
        if len(r99) != 1 or r99[0][0] != 105 or lexc:
            acc.violation('serve:session-ended:v%d:errmap' % v, 'after %s the next request got %r' % (label, [p[0] for p in r99]),
                          {'kind': 'errmap', 'v': v})
    shutil.rmtree(root, ignore_errors=True)
    return acc


# ------------------------------------------------------------------ (c) codecs
V3_FIELDS = [('size', 12345678901), ('uidgid', (1000, 1001)), ('permissions', 0o100644), ('acmodtime', (1600000000, 1600000001)),
             ('extended', [(b'a@b', b'data')])]
V4_FIELDS = [('size', 2 ** 40 + 7), ('ownergroup', ('alice', 'staff')), ('permissions', 0o644), ('atime', 1600000000),
             ('crtime', 1500000000), ('mtime', 1600000002), ('subsec', (1, 2, 3, 4)), ('acl', b'\x00\x01acl'),
             ('extended', [(b'x@y', b'z')])]
V5_FIELDS = V4_FIELDS + [('bits', (0x21, 0x3f))]
V6_FIELDS = V5_FIELDS + [('alloc_size', 2 ** 41), ('ctime', 1600000003), ('text_hint', 1), ('mime_type', 'text/plain'),
                         ('nlink', 3), ('untrans_name', b'raw\xffname')]


def build_attrs(v, chosen):
    a = SFTPAttrs()
    d = dict(chosen)
    if v >= 4:
        a.type = 1
    if 'size' in d:
        a.size = d['size']
    if 'uidgid' in d:
        a.uid, a.gid = d['uidgid']
    if 'ownergroup' in d:
        a.owner, a.group = d['ownergroup']
    if 'permissions' in d:
        a.permissions = d['permissions']
        if v == 3:
            a.type = 1
    if 'acmodtime' in d:
        a.atime, a.mtime = d['acmodtime']
    for k in ('atime', 'crtime', 'mtime', 'ctime'):
        if k in d:
            setattr(a, k, d[k])
    if 'subsec' in d:
        for k, ns in zip(('atime', 'crtime', 'mtime', 'ctime'), d['subsec']):
            if k in d:
                setattr(a, k + '_ns', ns)
    if 'acl' in d:
        a.acl = d['acl']
    if 'bits' in d:
        a.attrib_bits, a.attrib_valid = d['bits']
    for k in ('alloc_size', 'text_hint', 'mime_type', 'nlink', 'untrans_name'):
        if k in d:
            setattr(a, k, d[k])
    if 'extended' in d:
        a.extended = list(d['extended'])
    return a


def ref_encode_v3(d):
    flags = (1 if 'size' in d else 0) | (2 if 'uidgid' in d else 0) | (4 if 'permissions' in d else 0) | \
        (8 if 'acmodtime' in d else 0) | (0x80000000 if 'extended' in d else 0)
    out = u32(flags)
    if 'size' in d:
        out += u64(d['size'])
    if 'uidgid' in d:
        out += u32(d['uidgid'][0]) + u32(d['uidgid'][1])
    if 'permissions' in d:
        out += u32(d['permissions'])
    if 'acmodtime' in d:
        out += u32(d['acmodtime'][0]) + u32(d['acmodtime'][1])
    if 'extended' in d:
        out += u32(len(d['extended'])) + b''.join(s(a) + s(b) for a, b in d['extended'])
    return out


def ref_encode_v46(v, d):
    """draft-ietf-secsh-filexfer-05/-13 layout for the fields used here (bits field excluded)"""
    sub = 'subsec' in d
    flags = 0
    out = b''
    if 'size' in d:
        flags |= 0x1
        out += u64(d['size'])
    if 'alloc_size' in d:
        flags |= 0x400
        out += u64(d['alloc_size'])
    if 'ownergroup' in d:
        flags |= 0x80
        out += s(d['ownergroup'][0]) + s(d['ownergroup'][1])
    if 'permissions' in d:
        flags |= 0x4
        out += u32(d['permissions'])
    for i, (k, bit) in enumerate((('atime', 0x8), ('crtime', 0x10), ('mtime', 0x20), ('ctime', 0x8000))):
        if k in d:
            flags |= bit
            out += u64(d[k])
            if sub:
                out += u32(d['subsec'][i])
    if sub and any(k in d for k in ('atime', 'crtime', 'mtime', 'ctime')):
        flags |= 0x100
    if 'acl' in d:
        flags |= 0x40
        out += s(d['acl'])
    if 'text_hint' in d:
        flags |= 0x800
        out += bytes([d['text_hint']])
    if 'mime_type' in d:
        flags |= 0x1000
        out += s(d['mime_type'])
    if 'nlink' in d:
        flags |= 0x2000
        out += u32(d['nlink'])
    if 'untrans_name' in d:
        flags |= 0x4000
        out += s(d['untrans_name'])
    if 'extended' in d:
        flags |= 0x80000000
        out += u32(len(d['extended'])) + b''.join(s(a) + s(b) for a, b in d['extended'])
    return u32(flags) + b'\x01' + out


def codec_worker(job):
    v, masks = job
    acc = core.Acc()
    fields = {3: V3_FIELDS, 4: V4_FIELDS, 5: V5_FIELDS, 6: V6_FIELDS}[v]
    for mask in masks:
        chosen = [f for i, f in enumerate(fields) if mask & (1 << i)]
        d = dict(chosen)
        if 'subsec' in d and not any(k in d for k in ('atime', 'crtime', 'mtime', 'ctime')):
            continue
        a = build_attrs(v, chosen)
        viol = []
        try:
            enc = a.encode(v)
            pkt = SSHPacket(enc)
            b = SFTPAttrs.decode(pkt, v)
            pkt.check_end()
            if repr(vars(a)) != repr(vars(b)):
                diff = {k: (getattr(a, k), getattr(b, k)) for k in vars(a) if getattr(a, k) != getattr(b, k)}
                viol.append(('roundtrip', 'fields %s: %r' % ([f[0] for f in chosen], diff)))
            if b.encode(v) != enc:
                viol.append(('re-encode', 'decode+encode changes the bytes for fields %s' % [f[0] for f in chosen]))
            ref = None
            if v == 3:
                ref = ref_encode_v3(d)
            elif 'bits' not in d:
                ref = ref_encode_v46(v, d)
            if ref is not None and ref != enc:
                viol.append(('layout', 'fields %s: asyncssh %s vs independent encoder %s' % (
                    [f[0] for f in chosen], enc.hex()[:120], ref.hex()[:120])))
            # the name record wrapping these attributes
            nm = SFTPName(b'file\xe9', b'longname', a)
            pk = SSHPacket(nm.encode(v))
            nm2 = SFTPName.decode(pk, v)
            pk.check_end()
            if nm2.filename != nm.filename or repr(vars(nm2.attrs)) != repr(vars(a)) or \
                    (v == 3 and nm2.longname != nm.longname):
                viol.append(('name-roundtrip', repr((nm2.filename, nm2.longname))))
        except Exception as exc:            # pylint: disable=broad-except
            viol.append(('codec-exception', '%s: %r' % ([f[0] for f in chosen], exc)))
        acc.add(core.digest((v, mask)), transitions=1,
                sample={'version': v, 'fields': [f[0] for f in chosen]} if mask == (1 << len(fields)) - 1 else None)
        for k, det in viol:
            acc.violation('codec:%s:v%d' % (k, v), det, {'kind': 'codec', 'v': v, 'mask': mask})
    return acc


# file types and encode histories: one attributes object served to sessions of different versions
TYPE_MODE = {1: 0o100644, 2: 0o040755, 3: 0o120777, 6: 0o140600, 7: 0o020600, 8: 0o060600, 9: 0o010600}


def history_worker(_job):
    """every file type x every sequence of <= 3 protocol versions applied to ONE SFTPAttrs / SFTPName object
    (a server caching stat results, a client passing a stat result on): encoding never changes the object,
    the k-th encoding equals what a fresh object gives, and each version carries the type it can carry"""
    import copy
    acc = core.Acc()
    for t in range(1, 10):
        for with_perm in (False, True):
            for seq in [p for n in (1, 2, 3) for p in itertools.product((3, 4, 5, 6), repeat=n)]:
                def fresh():
                    a = SFTPAttrs()
                    a.type = t
                    a.size = 7
                    if with_perm and t in TYPE_MODE:
                        a.permissions = TYPE_MODE[t]
                    return a
                obj = fresh()
                before = repr(vars(obj))
                viol = []
                try:
                    for i, v in enumerate(seq):
                        enc = obj.encode(v) if i % 2 == 0 else SFTPName(b'n', b'', obj).encode(v)[4 + 1 + (4 if v == 3 else 0):]
                        want = fresh().encode(v)
                        if enc != want:
                            viol.append(('encode-depends-on-history', 'type %d: encoding for v%d after %r differs from a fresh object\'s'
                                         % (t, v, seq[:i])))
                            break
                        if repr(vars(obj)) != before:
                            viol.append(('encode-mutates-object', 'type %d: object changed by encode(v%d) after %r: %s -> %s'
                                         % (t, v, seq[:i], before, repr(vars(obj)))))
                            break
                        pkt = SSHPacket(enc)
                        back = SFTPAttrs.decode(pkt, v)
                        pkt.check_end()
                        if v >= 5:
                            exp_t = t
                        elif v == 4:
                            exp_t = 4 if t >= 6 else t
                        else:
                            exp_t = t if (with_perm and t in TYPE_MODE) else 5
                        if back.type != exp_t:
                            viol.append(('type-not-carried', 'type %d over v%d (permissions %s) decodes as type %d, expected %d'
                                         % (t, v, oct(obj.permissions) if obj.permissions is not None else None, back.type, exp_t)))
                            break
                except Exception as exc:        # pylint: disable=broad-except
                    viol.append(('codec-exception', 'type %d seq %r: %r' % (t, seq, exc)))
                acc.add(core.digest(('hist', t, with_perm, seq)), transitions=len(seq),
                        sample={'file_type': t, 'versions_in_order': list(seq)} if t == 9 and seq == (4, 6) and with_perm else None)
                for k, det in viol:
                    acc.violation('codec:%s' % k, det, {'kind': 'history'})
    return acc


def time_ns_worker(_job):
    """v4-v6 carry one sub-second flag for the whole record: every present time then has a nanosecond word.
    Every subset of present times x every subset of them that has nanoseconds must survive (a time
    without nanoseconds comes back with 0 when another time has them)."""
    acc = core.Acc()
    for v in (4, 5, 6):
        times = ['atime', 'crtime', 'mtime'] + (['ctime'] if v >= 6 else [])
        for tmask in range(1, 1 << len(times)):
            present = [t for i, t in enumerate(times) if tmask >> i & 1]
            for nmask in range(1 << len(present)):
                with_ns = [t for i, t in enumerate(present) if nmask >> i & 1]
                a = SFTPAttrs()
                a.type = 1
                a.size = 5
                for i, t in enumerate(present):
                    setattr(a, t, 1600000000 + i)
                    if t in with_ns:
                        setattr(a, t + '_ns', 100 + i)
                viol = []
                try:
                    enc = a.encode(v)
                    pk = SSHPacket(enc)
                    b = SFTPAttrs.decode(pk, v)
                    pk.check_end()
                    for i, t in enumerate(present):
                        want_ns = (100 + i if t in with_ns else 0) if with_ns else None
                        if getattr(b, t) != 1600000000 + i or getattr(b, t + '_ns') != want_ns:
                            viol.append(('time-roundtrip', 'v%d times %r, nanoseconds on %r: %s comes back as %r.%r, expected %r.%r'
                                         % (v, present, with_ns, t, getattr(b, t), getattr(b, t + '_ns'), 1600000000 + i, want_ns)))
                            break
                    for t in times:
                        if t not in present and getattr(b, t) is not None:
                            viol.append(('time-roundtrip', 'v%d: absent %s comes back as %r' % (v, t, getattr(b, t))))
                    if b.size != 5 or b.type != 1:
                        viol.append(('time-roundtrip', 'v%d: size/type damaged: %r/%r' % (v, b.size, b.type)))
                except Exception as exc:        # pylint: disable=broad-except
                    viol.append(('codec-exception', 'v%d times %r, nanoseconds on %r: %r' % (v, present, with_ns, exc)))
                acc.add(core.digest(('time-ns', v, tmask, nmask)), transitions=1,
                        sample={'version': v, 'times': present, 'with_nanoseconds': with_ns} if v == 6 and tmask == 15 and nmask == 5 else None)
                for k, det in viol[:1]:
                    acc.violation('codec:%s:v%d' % (k, v), det, {'kind': 'time-ns'})
    return acc


def misc_codecs():
    acc = core.Acc()
    objs = [SFTPVFSAttrs(4096, 4096, 1000, 900, 800, 100, 90, 80, 0x1234, 1, 255),
            SFTPLimits(35000, 65536, 261120, 1019), SFTPLimits(0, 0, 0, 0),
            SFTPRanges([(0, 4), (8, 4), (2 ** 40, 2 ** 33)], True), SFTPRanges([], False)]
    for o in objs:
        for v in (3, 4, 5, 6):
            try:
                enc = o.encode(v) if isinstance(o, SFTPVFSAttrs) else o.encode()
                pkt = SSHPacket(enc)
                o2 = type(o).decode(pkt, v) if isinstance(o, SFTPVFSAttrs) else type(o).decode(pkt)
                pkt.check_end()
                ok = vars(o) == vars(o2)
            except Exception as exc:        # pylint: disable=broad-except
                ok = False
                o2 = exc
            acc.add(core.digest((type(o).__name__, repr(vars(o)), v)), transitions=1)
            if not ok:
                acc.violation('codec:roundtrip:%s' % type(o).__name__, '%r -> %r' % (vars(o), o2), {'kind': 'misc'})
    return acc


def main(tier, seed):
    t0 = core.now()
    bound = 3 if tier == 'quick' else 4
    names = list(CALLS)
    call_sets = [tuple(c) for c in itertools.permutations(names, 2)] if tier == 'thorough' else \
        [tuple(c) for c in itertools.combinations(names, 2)]
    call_sets += [('stat', 'stat2', 'realpath'), ('open', 'listdir', 'stat'), ('missing', 'stat', 'readlink'),
                  ('stat', 'stat', 'stat2')]
    if tier == 'thorough':      # every set of three different calls as well, one more deviation for the pairs
        call_sets += [tuple(c) for c in itertools.combinations(names, 3) if tuple(c) not in call_sets]
    a = client_run(('stat', 'stat2', 'realpath'), core.Chooser([1, 0]), seed=seed)
    b = client_run(('stat', 'stat2', 'realpath'), core.Chooser([1, 0]), seed=seed)
    if a != b:
        print('HARNESS-NONDETERMINISM')
        return 2
    deep = 2 if tier == 'thorough' else 0       # thorough: pairs to 6 deviations, triples to 5
    jobs = [(cs, bound + deep if len(cs) == 2 else bound + deep // 2, False) for cs in call_sets] + \
        [(cs, bound, True) for cs in call_sets if len(cs) == 3]
    # a server that sends status codes alone (no message, no language tag): EOF, NO_SUCH_FILE, ... mean the same
    jobs += [(cs, 1, False, True) for cs in call_sets if 'missing' in cs or 'listdir' in cs]
    acc = core.pmap(client_worker, core.rotate(jobs, seed))
    n_a = acc.evaluations
    sj = []
    for v in (3, 4, 5, 6):
        ns = list(requests(v))
        for i in range(0, len(ns), 4):
            sj.append((v, ns[i:i + 4], tier))
    acc.merge(core.pmap(server_worker, core.rotate(sj, seed)))
    acc.merge(core.pmap(errmap_worker, [3, 4, 5, 6]))
    acc.merge(core.pmap(refusing_worker, [(v, APP_METHODS[i::4]) for v in (3, 4, 5, 6) for i in range(4)]))
    acc.merge(core.pmap(flavour_worker, flavour_jobs()))
    acc.merge(core.pmap(longname_worker, longname_jobs()))
    n_b = acc.evaluations - n_a
    cj = []
    for v, fields in ((3, V3_FIELDS), (4, V4_FIELDS), (5, V5_FIELDS), (6, V6_FIELDS)):
        allm = list(range(1 << len(fields)))
        for i in range(0, len(allm), 2048):
            cj.append((v, allm[i:i + 2048]))
    acc.merge(core.pmap(codec_worker, cj))
    acc.merge(misc_codecs())
    acc.merge(core.pmap(history_worker, [0]))
    acc.merge(core.pmap(time_ns_worker, [0]))
    shutil.rmtree(SCRATCH, ignore_errors=True)
    rule = ('(a) %d sets of 2-3 concurrent SFTPClient calls over the model server; at every step any outstanding '
            'request may be answered correctly, or (once) with each wrong reply type, an unknown id, a duplicate id '
            'or another caller\'s id, or a caller is cancelled and its reply arrives late; DFS deviation bound %s; (b) versions '
            '3-6 x every request type/extension x well-formed, every truncation, trailing byte, then a probe '
            'request; error mapping for 16 errno values and 19 SFTPError classes per version; an application that '
            'refuses or fails each of 26 methods in turn (every reply parses as its own type, the refused request '
            'gets STATUS with the mapped code); the stock application rewritten in the other documented forms (each method, '
            'or all, as coroutines; stat results as os.stat_result or SFTPAttrs, returned or awaited; the names-only listdir hook): '
            'replies equal the stock server\'s (times and free-space figures apart); (c) attribute codecs '
            'for every subset of 5 (v3), 9 (v4), 10 (v5), 16 (v6) field groups incl. independent layout encoders; '
            'every file type x every sequence of <= 3 versions encoded from one object (no mutation, no history); '
            'every subset of present times x every subset of them carrying nanoseconds'
            % (len(call_sets), '%d for pairs, %d for triples (the space stops growing beyond that: each fault kind is offered once)' % (bound + deep, bound + deep // 2) if deep else str(bound)))
    return core.finish(PROP, tier, seed, 'model_checking', acc, t0, rule,
                       {'client_execs': n_a, 'server_execs': n_b, 'codec_cases': acc.evaluations - n_a - n_b},
                       assumptions=['the errno table is written from the SFTP status code definitions and the '
                                    'version ranges of the drafts', 'v5 attrib-bits layout is only round-tripped'])


def replay(rep):
    r = rep['replay']
    if r['kind'] == 'client':
        obs = client_run(tuple(r['calls']), core.Chooser(r['choices']), cancel=r.get('cancel', False), bare_status=r.get('bare', False))
        v = obs['viol']
        print(json.dumps({'replay': r, 'replies': obs['trace'], 'violations': v}, indent=1, default=repr))
    elif r['kind'] == 'server':
        acc = server_worker((r['v'], [r['name']], 'thorough'))
        v = [x for x in acc.violations]
        print(json.dumps(v[:4], indent=1, default=repr))
    elif r['kind'] == 'refusing':
        v = refusing_worker((r['v'], [r['m']])).violations
        print(json.dumps(v[:4], indent=1, default=repr))
    elif r['kind'] == 'flavour':
        v = flavour_worker((r['v'], [r['fl']])).violations
        print(json.dumps(v[:4], indent=1, default=repr))
    elif r['kind'] == 'longname':
        v = longname_worker((r['v'], [tuple(r['app'])])).violations
        print(json.dumps(v[:4], indent=1, default=repr))
    elif r['kind'] == 'errmap':
        v = errmap_worker(r['v']).violations
        print(json.dumps(v[:4], indent=1, default=repr))
    elif r['kind'] == 'codec':
        v = codec_worker((r['v'], [r['mask']])).violations
        print(json.dumps(v, indent=1, default=repr))
    else:
        v = misc_codecs().violations + history_worker(0).violations + time_ns_worker(0).violations
    if v:
        print('VIOLATION property=%s replay=(given)' % PROP)
        return 1
    return 0
