"""C02  Emitted packets conform to RFC 4253 and survive any segmentation.

(a) enumeration of kex x cipher x MAC x compression x payload length against the
    independent decoder/encoder refpeer, both roles;
(b) exhaustive (bounded) enumeration of stream segmentations real<->real;
(c) interoperability with /usr/bin/ssh (oracle call on the real loop).
"""

import asyncio
import json
import os
import shutil
import subprocess
import tempfile

import asyncssh

import core
import determ
import pair as P
import refpeer as R
import rpharness as H
from vloop import EOF, Livelock

PROP = 'C02'


def payload(n, salt=0):
    return bytes((i * 31 + salt * 7 + 5) % 256 for i in range(n))


def lengths(bs, tier):
    ls = list(range(0, 4 * bs + 9)) + [255, 256, 257]
    ls += list(range(32758, 32769)) if tier == 'thorough' else [32767, 32768]
    return ls


# ------------------------------------------------------------------ (a) conformance
def _split(cipher, mac, comp):
    c = cipher if isinstance(cipher, (tuple, list)) else (cipher, cipher)
    m = mac if isinstance(mac, (tuple, list)) else (mac, mac)
    z = comp if isinstance(comp, (tuple, list)) else (comp, comp)
    return c[0], c[1], m[0], m[1], z[0], z[1]


def _uniq(*xs):
    out = []
    for x in xs:
        if x and x not in out:
            out.append(x)
    return out


def _rp_kw(kex, c_cs, c_sc, m_cs, m_sc, z_cs, z_sc):
    return dict(kex=[kex], ciphers=[c_cs], ciphers_sc=[c_sc], macs=[m_cs or 'hmac-sha1'],
                macs_sc=[m_sc or 'hmac-sha1'], comps=[z_cs], comps_sc=[z_sc])


def conf_server(item):
    """asyncssh server emits; refpeer client decodes and sends back"""
    kex, cipher, mac, comp, tier = item
    acc = core.Acc()
    c_cs, c_sc, m_cs, m_sc, z_cs, z_sc = _split(cipher, mac, comp)
    bs = max(R.CIPHERS[c_cs][2], R.CIPHERS[c_sc][2])
    ls = lengths(bs, tier)
    sent_by_server = [payload(n, 1) for n in ls if n]
    env = {}

    def on_start(sess):
        for d in sent_by_server:
            sess.chan.write(d)
    env['session_factory'] = lambda: P.RecSession('srv', on_start=on_start)
    w = H.SrvWorld(sopts=dict(kex_algs=[kex], encryption_algs=_uniq(c_cs, c_sc),
                              mac_algs=_uniq(m_cs, m_sc) or (), compression_algs=_uniq(z_cs, z_sc),
                              window=2 ** 24),
                   rp_kw=_rp_kw(kex, c_cs, c_sc, m_cs, m_sc, z_cs, z_sc), env=env)
    cfg = '%s/%s/%s/%s/server' % (kex, cipher, mac, comp)
    viol = []
    try:
        w.kex().auth()
        remote, rwin, rpkt = w.open_session(window=2 ** 30)
        got = b''.join(R.Reader(p, 5).string() for t, p in w.rp.inbox if t == R.MSG_CHANNEL_DATA)
        if got != b''.join(sent_by_server):
            viol.append(('payload-mismatch', 'refpeer decoded %d bytes, server app wrote %d'
                         % (len(got), len(b''.join(sent_by_server)))))
        # other direction: refpeer sends, asyncssh must deliver exactly
        to_server = [payload(n, 2) for n in ls if 0 < n <= rpkt]
        total = 0
        for d in to_server:
            w.rp.send(w.rp.channel_data(remote, d))
            total += len(d)
            if total > 2 ** 19:
                w.flush()
                total = 0
        w.flush()
        sess = env['server_sessions'][0]
        if sess.got() != b''.join(to_server):
            viol.append(('delivery-mismatch', 'server app received %d bytes, refpeer sent %d'
                         % (len(sess.got()), len(b''.join(to_server)))))
        # a key re-exchange in mid-session (fresh keys, fresh compression contexts), then both directions again
        if not viol and not w.server_closed():
            n_before = w.rp.kex_done
            w.rp.send_kexinit()
            w.flush()
            again = [payload(n, 5) for n in (1, bs, 3 * bs + 1, 300)]
            for d in again:
                sess.chan.write(d)
                w.rp.send_app(w.rp.channel_data(remote, d[::-1]))
            w.flush()
            got2 = b''.join(R.Reader(p, 5).string() for t, p in w.rp.inbox if t == R.MSG_CHANNEL_DATA)
            if w.rp.kex_done != n_before + 1:
                viol.append(('rekey-incomplete', 'exchanges completed: %d' % w.rp.kex_done))
            if got2 != got + b''.join(again):
                viol.append(('payload-mismatch-after-rekey', 'refpeer decoded %d bytes after the re-exchange, server app wrote %d'
                             % (len(got2) - len(got), len(b''.join(again)))))
            if sess.got() != b''.join(to_server) + b''.join(d[::-1] for d in again):
                viol.append(('delivery-mismatch-after-rekey', 'server app received %d bytes after the re-exchange, refpeer sent %d'
                             % (len(sess.got()) - len(b''.join(to_server)), len(b''.join(again)))))
        if w.server_closed():
            viol.append(('closed', repr(getattr(w.owner, 'lost_exc', None))))
        if w.proto.error:
            viol.append(('refpeer-reject', str(w.proto.error)))
        pads = sorted({i['padlen'] for i in w.rp.infos})
        obs = (cfg, len(w.rp.infos), pads[0], pads[-1])
        acc.add(core.digest(obs), transitions=len(w.rp.infos) + len(w.rp.sent), sample={
            'cfg': cfg, 'packets_decoded': len(w.rp.infos), 'padlen_range': [pads[0], pads[-1]]})
    except R.RefError as exc:
        viol.append(('refpeer-reject', str(exc)))
        acc.add(core.digest((cfg, 'err')))
    except Livelock as exc:
        viol.append(('livelock', str(exc)))
        acc.add(core.digest((cfg, 'err')))
    except (asyncssh.Error, OSError) as exc:
        # asyncssh refused what the independent implementation sent (or failed on its own output)
        viol.append(('asyncssh-reject', repr(exc)))
        acc.add(core.digest((cfg, 'err')))
    finally:
        w.close()
    for k, d in viol:
        acc.violation('conformance:%s:%s' % (cfg, k), d, {'kind': 'conf_server', 'item': list(item)})
    return acc


def conf_client(item):
    """asyncssh client emits; refpeer server decodes and sends back"""
    kex, cipher, mac, comp, tier = item
    acc = core.Acc()
    c_cs, c_sc, m_cs, m_sc, z_cs, z_sc = _split(cipher, mac, comp)
    bs = max(R.CIPHERS[c_cs][2], R.CIPHERS[c_sc][2])
    ls = lengths(bs, tier)
    cfg = '%s/%s/%s/%s/client' % (kex, cipher, mac, comp)
    w = H.CliWorld(copts=dict(kex_algs=[kex], encryption_algs=_uniq(c_cs, c_sc),
                              mac_algs=_uniq(m_cs, m_sc) or (), compression_algs=_uniq(z_cs, z_sc)),
                   rp_kw=_rp_kw(kex, c_cs, c_sc, m_cs, m_sc, z_cs, z_sc))
    w.window = 2 ** 30
    viol = []
    try:
        w.login()
        chan, sess = w.run(w.conn.create_session(lambda: P.RecSession('cli'), encoding=None,
                                                 window=2 ** 24))
        written = [payload(n, 3) for n in ls if n]
        for d in written:
            chan.write(d)
        w.flush()
        got = b''.join(R.Reader(p, 5).string() for t, p in w.rp.inbox if t == R.MSG_CHANNEL_DATA)
        if got != b''.join(written):
            viol.append(('payload-mismatch', 'refpeer decoded %d bytes, client app wrote %d'
                         % (len(got), len(b''.join(written)))))
        sender = w.chan_opens[0][1]
        back = [payload(n, 4) for n in ls if 0 < n <= 32768]
        total = 0
        for d in back:
            w.rp.send(w.rp.channel_data(sender, d))
            total += len(d)
            if total > 2 ** 19:
                w.flush()
                total = 0
        w.flush()
        if sess.got() != b''.join(back):
            viol.append(('delivery-mismatch', 'client app received %d bytes, refpeer sent %d'
                         % (len(sess.got()), len(b''.join(back)))))
        if not viol and w.conn._transport is not None:
            n_before = w.rp.kex_done
            w.rp.send_kexinit()
            w.flush()
            again = [payload(n, 6) for n in (1, bs, 3 * bs + 1, 300)]
            for d in again:
                chan.write(d)
                w.rp.send_app(w.rp.channel_data(sender, d[::-1]))
            w.flush()
            got2 = b''.join(R.Reader(p, 5).string() for t, p in w.rp.inbox if t == R.MSG_CHANNEL_DATA)
            if w.rp.kex_done != n_before + 1:
                viol.append(('rekey-incomplete', 'exchanges completed: %d' % w.rp.kex_done))
            if got2 != got + b''.join(again):
                viol.append(('payload-mismatch-after-rekey', 'refpeer decoded %d bytes after the re-exchange, client app wrote %d'
                             % (len(got2) - len(got), len(b''.join(again)))))
            if sess.got() != b''.join(back) + b''.join(d[::-1] for d in again):
                viol.append(('delivery-mismatch-after-rekey', 'client app received %d bytes after the re-exchange, refpeer sent %d'
                             % (len(sess.got()) - len(b''.join(back)), len(b''.join(again)))))
        if w.conn._transport is None:
            viol.append(('closed', repr(getattr(w.owner, 'lost_exc', None))))
        if w.proto.error:
            viol.append(('refpeer-reject', str(w.proto.error)))
        pads = sorted({i['padlen'] for i in w.rp.infos})
        acc.add(core.digest((cfg, len(w.rp.infos), pads[0], pads[-1])),
                transitions=len(w.rp.infos) + len(w.rp.sent))
    except R.RefError as exc:
        viol.append(('refpeer-reject', str(exc)))
        acc.add(core.digest((cfg, 'err')))
    except Livelock as exc:
        viol.append(('livelock', str(exc)))
        acc.add(core.digest((cfg, 'err')))
    except (asyncssh.Error, OSError) as exc:
        # asyncssh refused what the independent implementation sent (or failed on its own output)
        viol.append(('asyncssh-reject', repr(exc)))
        acc.add(core.digest((cfg, 'err')))
    finally:
        w.close()
    for k, d in viol:
        acc.violation('conformance:%s:%s' % (cfg, k), d, {'kind': 'conf_client', 'item': list(item)})
    return acc


def guess_worker(job):
    """RFC 4253 7.1: the client announces first_kex_packet_follows and sends a guessed key exchange packet for
    its preferred method, which the server does not support: the server ignores that one packet (it still
    counts for the sequence numbers) and the exchange goes on with the negotiated method"""
    acc = core.Acc()
    for cipher, mac, strict, right in job:
        env = {}

        def on_start(sess):
            sess.chan.write(payload(40, 7))
        env['session_factory'] = lambda: P.RecSession('srv', on_start=on_start)
        kexs = ['curve25519-sha256'] if right else ['ecdh-sha2-nistp256', 'curve25519-sha256']
        w = H.SrvWorld(sopts=dict(kex_algs=['curve25519-sha256'] + (['ecdh-sha2-nistp256'] if right == 'server-has-both' else []),
                                  encryption_algs=[cipher], mac_algs=[mac] if mac else ()),
                       rp_kw=dict(kex=kexs, ciphers=[cipher], macs=[mac or 'hmac-sha1'], strict=strict), env=env)
        w.rp.follows = True
        if not right:
            w.rp.guess_payload = R.byte(30) + R.string(b'\x04' + bytes(64))
        cfg = 'guess/%s/%s/strict=%s/%s' % (cipher, mac, strict, 'right' if right else 'wrong')
        viol = []
        try:
            w.kex().auth()
            remote, rwin, rpkt = w.open_session(window=2 ** 20)
            w.rp.send(w.rp.channel_data(remote, payload(33, 8)))
            w.flush()
            got = b''.join(R.Reader(p, 5).string() for t, p in w.rp.inbox if t == R.MSG_CHANNEL_DATA)
            sess = env['server_sessions'][0]
            if got != payload(40, 7):
                viol.append(('payload-mismatch', 'refpeer decoded %d bytes of 40' % len(got)))
            if sess.got() != payload(33, 8):
                viol.append(('delivery-mismatch', 'server app received %d bytes of 33' % len(sess.got())))
            if w.server_closed():
                viol.append(('closed', repr(getattr(w.owner, 'lost_exc', None))))
            if w.proto.error:
                viol.append(('refpeer-reject', str(w.proto.error)))
        except R.RefError as exc:
            viol.append(('refpeer-reject', str(exc)))
        except Livelock as exc:
            viol.append(('livelock', str(exc)))
        except (asyncssh.Error, OSError) as exc:
            viol.append(('asyncssh-reject', repr(exc)))
        finally:
            w.close()
        acc.add(core.digest(cfg), transitions=10, sample={'first_kex_packet_follows': cfg} if not right and not strict and mac else None)
        for k, d in viol:
            acc.violation('conformance:%s:%s' % (cfg, k), d, {'kind': 'guess', 'item': [cipher, mac, strict, right]})
    return acc


def guess_jobs():
    suites = [('aes128-ctr', 'hmac-sha2-256'), ('aes128-ctr', 'hmac-sha2-256-etm@openssh.com'), ('aes128-gcm@openssh.com', None),
              ('chacha20-poly1305@openssh.com', None), ('aes256-cbc', 'hmac-sha1')]
    return [[(c, m, strict, right)] for c, m in suites for strict in (True, False) for right in (False, True)]


ASYM = [('aes128-ctr', 'hmac-sha2-256'), ('aes128-ctr', 'hmac-sha2-256-etm@openssh.com'),
        ('aes128-gcm@openssh.com', None), ('chacha20-poly1305@openssh.com', None),
        ('3des-cbc', 'hmac-sha1'), ('aes256-cbc', 'hmac-sha2-512-etm@openssh.com')]


def conf_items(tier):
    items = []
    # different algorithms per direction (client->server, server->client)
    for c1, m1 in ASYM:
        for c2, m2 in ASYM:
            if (c1, m1) != (c2, m2):
                for comp in (('none', 'zlib@openssh.com'), ('zlib', 'none')):
                    items.append(('curve25519-sha256', (c1, c2), (m1, m2), comp, tier))
    for kex in R.ALL_KEX:
        items.append((kex, 'aes128-ctr', 'hmac-sha2-256', 'none', tier))
        # longest keys: with a 20-byte exchange hash the 64-byte MAC / chacha keys need 4 derivation rounds
        items.append((kex, 'aes256-ctr', 'hmac-sha2-512', 'none', tier))
        items.append((kex, 'chacha20-poly1305@openssh.com', 'hmac-sha2-256', 'none', tier))
        items.append((kex, 'aes256-cbc', 'hmac-sha2-512-etm@openssh.com', 'none', tier))
    for cipher, (_ks, _iv, _bs, kind) in R.CIPHERS.items():
        macs = ['hmac-sha2-256'] if kind in ('gcm', 'chacha') else list(R.MACS)
        for mac in macs:
            for comp in R.COMPRESSIONS:
                items.append(('curve25519-sha256', cipher, mac, comp, tier))
    return items


# ------------------------------------------------------------------ (a2) sequence numbers that wrap
WRAP_SUITES = [('aes128-ctr', 'hmac-sha2-256'), ('aes128-ctr', 'hmac-sha2-256-etm@openssh.com'), ('aes128-ctr', 'hmac-sha1-96'),
               ('aes128-ctr', 'umac-64@openssh.com'), ('aes128-ctr', 'umac-128@openssh.com'),
               ('aes256-ctr', 'umac-64-etm@openssh.com'), ('aes128-cbc', 'umac-128-etm@openssh.com'),
               ('aes128-gcm@openssh.com', 'hmac-sha2-256'), ('chacha20-poly1305@openssh.com', 'hmac-sha2-256'),
               ('3des-cbc', 'hmac-md5')]


def seqwrap_worker(job):
    """a long-lived connection: both ends' packet counters stand a few packets short of 2^32 (set to the same
    value on both sides of each direction, the state an uninterrupted conversation reaches), then ten packets go
    each way across the wrap: the independent implementation still accepts every packet and vice versa"""
    cipher, mac, role, before = job
    acc = core.Acc()
    cfg = 'seqwrap/%s/%s/%s/%d' % (cipher, mac, role, before)
    viol = []
    env = {}
    env['session_factory'] = lambda: P.RecSession('srv')
    kw = dict(kex_algs=['curve25519-sha256'], encryption_algs=[cipher], mac_algs=[mac], compression_algs=['none'])
    rk = _rp_kw('curve25519-sha256', cipher, cipher, mac, mac, 'none', 'none')
    if role == 'server':
        w = H.SrvWorld(sopts=dict(window=2 ** 24, **kw), rp_kw=rk, env=env)
    else:
        w = H.CliWorld(copts=kw, rp_kw=rk)
    try:
        if role == 'server':
            w.kex().auth()
            peer_chan, _rwin, _rpkt = w.open_session(window=2 ** 30)
            sess = env['server_sessions'][0]
            chan = sess.chan
        else:
            w.window = 2 ** 30
            w.login()
            chan, sess = w.run(w.conn.create_session(lambda: P.RecSession('cli'), encoding=None, window=2 ** 24))
            peer_chan = w.chan_opens[0][1]
        w.flush()
        n0 = len([1 for t, p in w.rp.inbox if t == R.MSG_CHANNEL_DATA])
        x, y = (0xffffffff - before) & 0xffffffff, (0xffffffff - before - 1) & 0xffffffff
        w.conn._send_seq = w.rp.recv_dir.seq = x
        w.conn._recv_seq = w.rp.send_dir.seq = y
        out = [payload(20 + i, 40 + i) for i in range(10)]
        back = [payload(33 + i, 60 + i) for i in range(10)]
        for a, b in zip(out, back):
            chan.write(a)
            w.rp.send(w.rp.channel_data(peer_chan, b))
            w.flush()
        got = [R.Reader(p, 5).string() for t, p in w.rp.inbox if t == R.MSG_CHANNEL_DATA][n0:]
        if b''.join(got) != b''.join(out):
            viol.append(('payload-mismatch', 'refpeer decoded %d of the %d bytes written across the wrap' % (len(b''.join(got)), len(b''.join(out)))))
        if sess.got()[-len(b''.join(back)):] != b''.join(back):
            viol.append(('delivery-mismatch', 'application received %d bytes; refpeer sent %d across the wrap' % (len(sess.got()), len(b''.join(back)))))
        if w.conn._transport is None:
            viol.append(('closed', repr(getattr(w.owner, 'lost_exc', None))))
        if w.proto.error:
            viol.append(('refpeer-reject', str(w.proto.error)))
        seqs = [i['seq'] for i in w.rp.infos][-40:]
        seqs = seqs[seqs.index(x):] if x in seqs else seqs
        acc.add(core.digest((cfg, tuple(seqs))), transitions=20, sample={'cfg': cfg, 'sequence_numbers_decoded': seqs} if mac.startswith('umac-64@') else None)
        if before < 10 and 0 not in seqs and not viol:
            viol.append(('no-wrap', 'harness: sequence numbers decoded %r never passed zero' % (seqs,)))
    except R.RefError as exc:
        viol.append(('refpeer-reject', str(exc)))
        acc.add(core.digest((cfg, 'err')))
    except Livelock as exc:
        viol.append(('livelock', str(exc)))
        acc.add(core.digest((cfg, 'err')))
    except (asyncssh.Error, OSError) as exc:
        viol.append(('asyncssh-reject', repr(exc)))
        acc.add(core.digest((cfg, 'err')))
    finally:
        w.close()
    for k, d in viol:
        acc.violation('wire:%s:%s' % (k, cfg), d, {'kind': 'seqwrap', 'job': list(job)})
    return acc


def seqwrap_jobs(tier):
    befores = (3,) if tier == 'quick' else (0, 1, 3, 9)
    return [(c, m, role, b) for c, m in WRAP_SUITES for role in ('server', 'client') for b in befores]


# ------------------------------------------------------------------ (b) segmentation
SEG_SIZES = [1, 15, 16, 17, 100, 300]


SEG_SUITES = [('aes128-ctr', 'hmac-sha2-256', 'none'), ('aes128-ctr', 'hmac-sha2-256-etm@openssh.com', 'none'),
              ('aes128-gcm@openssh.com', None, 'none'), ('chacha20-poly1305@openssh.com', None, 'none'),
              ('aes128-cbc', 'hmac-sha1', 'none'), ('3des-cbc', 'hmac-sha2-512', 'zlib@openssh.com'),
              ('aes256-ctr', 'umac-64@openssh.com', 'zlib')]


class SegWorld:
    def __init__(self, seed=0, suite=0):
        self.loop = P.fresh(seed)
        P.install_wire_labels()
        sizes = SEG_SIZES

        def on_start(sess):
            for i, n in enumerate(sizes):
                sess.chan.write(payload(n, 10 + i))
            sess.chan.write_stderr(payload(7, 30))

        class Srv(P.RecSession):
            def eof_received(self):
                P.RecSession.eof_received(self)
                self.chan.write_eof()
                self.chan.exit(5)
                return True
        self.env = {'session_factory': lambda: Srv('srv', on_start=on_start)}
        enc, mac, comp = SEG_SUITES[suite]
        algs = dict(encryption_algs=[enc], compression_algs=[comp])
        if mac:
            algs['mac_algs'] = [mac]
        self.pair = P.Pair(self.loop, sopts=dict(encoding=None, **algs), env=self.env, copts=algs)
        self.off = {'cs': 0, 'sc': 0}       # stream offsets delivered so far
        self.connect_exc = None

    def run(self, policy):
        """policy(direction, offset, avail) -> number of bytes for the next chunk"""
        pair, loop = self.pair, self.loop
        task = None
        n = 0
        while True:
            loop.quiesce()
            if task is None and pair.copt.waiter.done() and not self.connect_exc:
                if pair.copt.waiter.exception() is not None:
                    self.connect_exc = repr(pair.copt.waiter.exception())
                    continue
                task = loop.create_task(self.client_app())
                continue
            progressed = False
            for d, t in (('cs', pair.st), ('sc', pair.ct)):
                if t.lost or t.closing or not t.peer.outq:
                    continue
                if t.peer.outq[0] is EOF:
                    loop.deliver(t)
                    progressed = True
                    break
                avail = 0
                for c in t.peer.outq:
                    if c is EOF:
                        break
                    avail += len(c)
                k = policy(d, self.off[d], avail)
                k = max(1, min(k, avail))
                loop.deliver(t, nbytes=k)
                self.off[d] += k
                self.nchunks = getattr(self, 'nchunks', 0) + 1
                progressed = True
                break
            if not progressed:
                break
            n += 1
            if n > 100000:
                raise Livelock('segmentation run too long')
        self.task = task
        return self.observe()

    async def client_app(self):
        conn = self.pair.c
        chan, sess = await conn.create_session(lambda: P.RecSession('cli'), 'cmd', encoding=None)
        self.csess = sess
        for i, n in enumerate(SEG_SIZES):
            chan.write(payload(n, 50 + i))
        chan.write_eof()
        await chan.wait_closed()
        conn.close()
        await conn.wait_closed()

    def observe(self):
        def summarize(sess):
            out = []
            for e in sess.log:
                if e[0] == 'data':
                    if out and out[-1][0] == 'data' and out[-1][1] == e[1]:
                        out[-1] = ('data', e[1], out[-1][2] + e[2])
                    else:
                        out.append(e)
                else:
                    out.append(e)
            return out
        ss = self.env.get('server_sessions', [])
        return {
            'task_done': self.task is not None and self.task.done() and
            (self.task.exception() is None),
            'connect_exc': self.connect_exc,
            'task_exc': repr(self.task.exception()) if self.task is not None and self.task.done()
            and self.task.exception() is not None else None,
            'client': summarize(self.csess) if hasattr(self, 'csess') else None,
            'server': [summarize(s) for s in ss],
            'client_lost': repr(getattr(self.pair.client_owner, 'lost_exc', 'n/a')),
            'server_lost': repr(getattr(self.pair.server_owner, 'lost_exc', 'n/a')),
            'loop_exc': len(self.loop.unretrieved()),
            'stream_len': dict(self.off, chunks=getattr(self, 'nchunks', 0)),
        }

    def close(self):
        P.done(self.loop)


def seg_run(policy_desc, seed=0, suite=0):
    kind = policy_desc[0]
    if kind == 'whole':
        pol = lambda d, off, avail: avail
    elif kind == 'uniform':
        k = policy_desc[1]
        pol = lambda d, off, avail: k
    elif kind == 'split':
        _, dirn, points = policy_desc
        pts = sorted(points)

        def pol(d, off, avail):
            if d != dirn:
                return avail
            for p in pts:
                if off < p < off + avail:
                    return p - off
            return avail
    else:
        raise ValueError(policy_desc)
    w = SegWorld(seed, suite)
    try:
        obs = w.run(pol)
        bounds = {d: [sum(len(c) for c in t.writes[:i + 1]) for i in range(len(t.writes))]
                  for d, t in (('cs', w.pair.ct), ('sc', w.pair.st))}
        return obs, bounds
    finally:
        w.close()


def _strip(obs):
    o = dict(obs)
    o.pop('stream_len')
    return o


def seg_worker(job):
    base, descs = job[:2]
    suite = job[2] if len(job) > 2 else 0
    acc = core.Acc()
    for desc in descs:
        try:
            obs, _ = seg_run(desc, suite=suite)
        except Livelock as exc:
            acc.add(core.digest(('livelock', desc)))
            acc.violation('segmentation:livelock', str(exc), {'kind': 'seg', 'policy': desc})
            continue
        acc.add(core.digest((suite, desc)), transitions=obs['stream_len']['chunks'])
        if _strip(obs) != base:
            diff = {k: (v, base[k]) for k, v in _strip(obs).items() if v != base[k]}
            acc.violation('segmentation:%s:%s' % (desc[0], '/'.join(str(x) for x in SEG_SUITES[suite])),
                          'policy %r changed the observation: %s' % (desc, repr(diff)[:500]),
                          {'kind': 'seg', 'policy': desc, 'suite': suite})
    return acc


def seg_policies(tier, bounds):
    descs = [('uniform', k) for k in range(1, 68)]
    for d in ('cs', 'sc'):
        total = bounds[d][-1]
        step = 1
        for p in range(1, total, step):
            descs.append(('split', d, [p]))
        # pairs of split points around the packet headers of consecutive packets
        edges = bounds[d]
        near = (1, 2, 3, 4, 5, 6, 16, 17) if tier == 'quick' else (1, 2, 3, 4, 5, 6, 8, 15, 16, 17, 20, 33)
        for i in range(len(edges) - 1):
            start = edges[i - 1] if i else 0
            for a in near:
                for b in near:
                    p1, p2 = start + a, edges[i] + b
                    if p1 < edges[i] and p2 < (edges[i + 1] if i + 1 < len(edges) else total):
                        descs.append(('split', d, [p1, p2]))
                    # both inside one packet
                    if a < b and start + b < edges[i]:
                        descs.append(('split', d, [start + a, start + b]))
        if tier == 'thorough':
            for i in range(len(edges) - 3):
                # chunk spanning >= 3 packets: cut in packet i and in packet i+3
                descs.append(('split', d, [edges[i] - 2, edges[i + 3] - 2]))
    return descs


# ------------------------------------------------------------------ (c) interop
SSH = shutil.which('ssh')


def ssh_query(flag):
    try:
        out = subprocess.run([SSH, '-Q', flag], capture_output=True, text=True, timeout=300).stdout
        return out.split()
    except Exception:       # pylint: disable=broad-except
        return []


async def _interop_one(kex, cipher, mac, compress, tmp):
    data = payload(70000, 9)

    class Srv(P.RecSession):
        def eof_received(self):
            P.RecSession.eof_received(self)
            self.chan.write(data)
            self.chan.exit(7)
            return True
    env = {'session_factory': lambda: Srv('srv'), 'auth_required': False}
    acceptor = await asyncssh.listen('127.0.0.1', 0, server_factory=lambda: P.RecServer(env),
                                     server_host_keys=[P.key('host')], encoding=None,
                                     kex_algs=[kex], encryption_algs=[cipher],
                                     mac_algs=[mac] if mac else (),
                                     compression_algs=['zlib@openssh.com', 'none'])
    port = acceptor.get_port()
    cmd = [SSH, '-F', '/dev/null', '-p', str(port), '-o', 'StrictHostKeyChecking=no',
           '-o', 'UserKnownHostsFile=/dev/null', '-o', 'LogLevel=ERROR', '-o', 'BatchMode=yes',
           '-o', 'KexAlgorithms=' + kex, '-o', 'Ciphers=' + cipher,
           '-o', 'HostKeyAlgorithms=ssh-ed25519', '-o', 'IdentityFile=/dev/null',
           '-o', 'Compression=' + ('yes' if compress else 'no'), '-l', 'user']
    if mac:
        cmd += ['-o', 'MACs=' + mac]
    cmd += ['127.0.0.1', 'cmd']
    proc = await asyncio.create_subprocess_exec(*cmd, stdin=asyncio.subprocess.PIPE,
                                                stdout=asyncio.subprocess.PIPE,
                                                stderr=asyncio.subprocess.PIPE)
    stdin_data = payload(5000, 11)
    try:
        out, err = await asyncio.wait_for(proc.communicate(stdin_data), 30)
    except asyncio.TimeoutError:
        proc.kill()
        out, err = b'', b'timeout'
    rc = proc.returncode
    acceptor.close()
    await acceptor.wait_closed()
    await asyncio.sleep(0.02)
    srv_got = env['server_sessions'][0].got() if env.get('server_sessions') else None
    return rc, out == data, srv_got == stdin_data, err.decode('latin1')[:300]


def interop_worker(item):
    kex, cipher, mac, compress = item
    acc = core.Acc()
    determ.unbind()
    cfg = 'ssh/%s/%s/%s/%s' % (kex, cipher, mac, 'C' if compress else '-')
    try:
        rc, out_ok, in_ok, err = asyncio.run(_interop_one(kex, cipher, mac, compress, None))
    except OSError as exc:
        acc.notes.append('interop skipped (%s): %s' % (cfg, exc))
        return acc
    acc.add(core.digest(cfg), transitions=1, sample={'interop': cfg, 'exit': rc})
    if rc != 7 or not out_ok or not in_ok:
        acc.violation('interop:%s' % cfg, 'ssh exit=%r stdout_ok=%s stdin_ok=%s stderr=%s'
                      % (rc, out_ok, in_ok, err), {'kind': 'interop', 'item': list(item)})
    return acc


def interop_items(tier):
    if not SSH:
        return []
    kexs = [k for k in ssh_query('kex') if k.encode() in asyncssh.kex.get_kex_algs()
            and not k.startswith('sntrup')]
    ciphers = [c for c in ssh_query('cipher') if c.encode() in asyncssh.encryption.get_encryption_algs()]
    macs = [m for m in ssh_query('mac') if m.encode() in asyncssh.mac.get_mac_algs()]
    items = []
    if tier == 'quick':
        for i, k in enumerate(kexs):
            items.append((k, ciphers[i % len(ciphers)], macs[i % len(macs)], i % 2 == 0))
        for i, c in enumerate(ciphers):
            items.append((kexs[0], c, macs[(3 * i + 1) % len(macs)], i % 2 == 1))
    else:
        for k in kexs:
            items.append((k, 'aes128-ctr', 'hmac-sha2-256', False))
        for c in ciphers:
            aead = 'gcm' in c or 'chacha' in c
            for m in ([macs[0]] if aead else macs):
                for comp in (False, True):
                    items.append((kexs[0], c, m, comp))
    return items


# ------------------------------------------------------------------ main
def main(tier, seed):
    t0 = core.now()
    acc = core.Acc()
    items = conf_items(tier)
    acc.merge(core.pmap(conf_server, core.rotate(items, seed), chunksize=4))
    acc.merge(core.pmap(conf_client, core.rotate(items, seed), chunksize=4))
    acc.merge(core.pmap(guess_worker, guess_jobs()))
    acc.merge(core.pmap(seqwrap_worker, seqwrap_jobs(tier)))
    n_conf = acc.evaluations
    # segmentation: baseline twice (determinism), then every policy
    base1, bounds = seg_run(('whole',), seed)
    base2, _ = seg_run(('whole',), seed)
    if base1 != base2:
        print('HARNESS-NONDETERMINISM: segmentation baseline differs between two runs')
        return 2
    if not base1['task_done'] or base1['loop_exc']:
        print('HARNESS-ERROR: baseline session did not complete: %r' % (base1,))
        return 2
    descs = seg_policies(tier, bounds)
    chunks = [descs[i::64] for i in range(64)]
    acc.merge(core.pmap(seg_worker, [(_strip(base1), c) for c in core.rotate(chunks, seed)]))
    # the other packet layouts (length field in the clear / encrypted with its own key / in the first cipher
    # block; tag or MAC; compression): every uniform chunk size and every single split point (thorough: pairs too)
    for si in range(1, len(SEG_SUITES)):
        b_s, bounds_s = seg_run(('whole',), seed, si)
        if not b_s['task_done'] or b_s['loop_exc']:
            print('HARNESS-ERROR: segmentation baseline for %r did not complete: %r' % (SEG_SUITES[si], b_s))
            return 2
        d_s = seg_policies(tier, bounds_s)
        if tier == 'quick':
            d_s = [d for d in d_s if d[0] == 'uniform' or len(d[2]) == 1]
        ch_s = [d_s[i::32] for i in range(32)]
        acc.merge(core.pmap(seg_worker, [(_strip(b_s), c, si) for c in core.rotate(ch_s, seed)]))
    n_seg = acc.evaluations - n_conf
    it = interop_items(tier)
    acc.merge(core.pmap(interop_worker, core.rotate(it, seed), procs=8))
    acc.samples.append({'segmentation_policy_examples': descs[:2] + descs[70:72] + descs[-2:],
                        'stream_bytes': {d: b[-1] for d, b in bounds.items()},
                        'packets': {d: len(b) for d, b in bounds.items()}})
    rule = ('(a) one session per (kex|cipher x MAC x compression) in each role against the '
            'independent refpeer codec, channel-data payload lengths 0..4*blocksize+8, 255..257, '
            '32767/32768 in both directions; refpeer verifies MAC/tag under its own derived keys and '
            'sequence numbers, padding >= 4, block alignment, exact payload sequence, then a key re-exchange '
            'in mid-session and both directions again; first_kex_packet_follows with a wrong and a right guess; (b) every '
            'single split point of both byte streams of a full real<->real session, uniform chunk '
            'sizes 1..67, pairs of split points around packet headers, for 7 packet layouts (CTR+MAC, EtM, GCM, '
            'chacha20-poly1305, CBC, with compression; pairs for the first layout only in quick); observation must equal the '
            'unsegmented run; (c) /usr/bin/ssh against an asyncssh server.  Distinct = distinct '
            'configuration / segmentation policy')
    return core.finish(PROP, tier, seed, 'model_checking', acc, t0, rule,
                       {'conformance_configs': len(items) * 2, 'segmentations': n_seg,
                        'interop_runs': len(it),
                        'uncovered': 'kex not implemented by refpeer (curve448, mlkem*, rsa*, '
                                     'group15-18, nistp-1.3.132.0.10, gss) and ciphers blowfish/cast/'
                                     'seed/arcfour: covered only real<->real in C01/C03; UMAC (umac-64/128[-etm]) is decoded '
                                     'by an RFC 4418 implementation written for the reference peer and checked against the RFC vectors'},
                       assumptions=['cryptography/OpenSSL primitives are shared between asyncssh '
                                    'and refpeer; their composition is independent',
                                    'OpenSSH 9.2 client as reference behaviour'])


def replay(rep):
    r = rep['replay']
    kind = r['kind']
    if kind == 'conf_server':
        acc = conf_server(tuple(r['item']))
    elif kind == 'conf_client':
        acc = conf_client(tuple(r['item']))
    elif kind == 'guess':
        i = r['item']
        acc = guess_worker([(i[0], i[1], i[2], i[3])])
    elif kind == 'seqwrap':
        acc = seqwrap_worker(tuple(r['job']))
    elif kind == 'interop':
        acc = interop_worker(tuple(r['item']))
    else:
        base, _ = seg_run(('whole',))
        pol = r['policy']
        pol = (pol[0], pol[1]) if pol[0] == 'uniform' else (pol[0], pol[1], pol[2])
        base, _ = seg_run(('whole',), suite=r.get('suite', 0))
        acc = seg_worker((_strip(base), [pol], r.get('suite', 0)))
    print(json.dumps(acc.violations, indent=1, default=repr))
    if acc.violations:
        print('VIOLATION property=%s replay=(given)' % PROP)
        return 1
    return 0
