"""C03  Key exchange binds the whole negotiation; no silent downgrade.

Fault enumeration by an on-path editor of the *cleartext* handshake (version lines,
KEXINIT fields and name-lists, key exchange messages incl. group parameters, host key
and signature) for every non-GSS key exchange method, real client <-> real server;
plus exhaustive enumeration of preference-list pairs for the first-client-match rule.
"""

import itertools
import json
import os
import struct

import asyncssh
from asyncssh.kex import get_kex_algs

import core
import pair as P
import refpeer as R
from vloop import EOF, Livelock

PROP = 'C03'


def u32(n):
    return struct.pack('>I', n)


def frame(payload, blocksize=8):
    padlen = -(5 + len(payload)) % blocksize
    if padlen < 4:
        padlen += blocksize
    return u32(1 + len(payload) + padlen) + bytes([padlen]) + payload + bytes(padlen)


def unframe(chunk):
    n = struct.unpack('>I', chunk[:4])[0]
    padlen = chunk[4]
    return chunk[5:4 + n - padlen]


def parse_kexinit(payload):
    pos = 17
    lists = []
    for _ in range(10):
        n = struct.unpack('>I', payload[pos:pos + 4])[0]
        lists.append(payload[pos + 4:pos + 4 + n].split(b',') if n else [])
        pos += 4 + n
    return payload[:17], lists, payload[pos:]


def build_kexinit(head, lists, tail):
    out = head
    for l in lists:
        s = b','.join(l)
        out += u32(len(s)) + s
    return out + tail


def kexinit_edits(payload):
    head, lists, tail = parse_kexinit(payload)
    edits = []
    edits.append(('cookie', payload[:1] + bytes([payload[1] ^ 1]) + payload[2:]))
    for k in range(10):
        l = lists[k]

        def with_list(new, k=k):
            ls = list(lists)
            ls[k] = new
            return build_kexinit(head, ls, tail)
        if len(l) >= 1:
            edits.append(('list%d-drop-first' % k, with_list(l[1:])))
            edits.append(('list%d-dup-first' % k, with_list(l[:1] + l)))
        if len(l) >= 3:
            edits.append(('list%d-drop-middle' % k, with_list(l[:1] + l[2:])))
        if len(l) >= 2:
            edits.append(('list%d-swap' % k, with_list([l[1], l[0]] + l[2:])))
            edits.append(('list%d-only-last' % k, with_list(l[-1:])))
            edits.append(('list%d-drop-last' % k, with_list(l[:-1])))
        edits.append(('list%d-append' % k, with_list(l + [b'x@example.com'])))
        edits.append(('list%d-prepend' % k, with_list([b'x@example.com'] + l)))
    edits.append(('first-kex-follows', build_kexinit(head, lists, bytes([tail[0] ^ 1]) + tail[1:])))
    edits.append(('reserved', build_kexinit(head, lists, tail[:-1] + bytes([tail[-1] ^ 1]))))
    # bytes behind the last field (an on-path party can also get them by lowering the cleartext padding length) and
    # a message cut short: what is hashed must be what was sent
    edits.append(('append-zero', payload + b'\0'))
    edits.append(('append-4', payload + b'\0\0\0\1'))
    edits.append(('append-list', payload + struct.pack('>I', 4) + b'none'))
    edits.append(('truncate-last', payload[:-1]))
    edits.append(('truncate-reserved', payload[:-4]))
    return edits


def byte_edits(payload, tier):
    n = len(payload)
    if tier == 'thorough':
        offs = range(1, n)
    else:
        offs = sorted({1, 2, 4, 5, 6, 8, 9, n // 4, n // 3, n // 2, n // 2 + 1, 2 * n // 3, 3 * n // 4,
                       n - 70, n - 66, n - 65, n - 33, n - 5, n - 4, n - 2, n - 1} & set(range(1, n)))
    edits = []
    for o in offs:
        edits.append(('byte%d^01' % o, payload[:o] + bytes([payload[o] ^ 1]) + payload[o + 1:]))
        if tier == 'thorough' or o in (5, n - 1):
            edits.append(('byte%d^80' % o, payload[:o] + bytes([payload[o] ^ 0x80]) + payload[o + 1:]))
    edits.append(('truncate-last', payload[:-1]))
    edits.append(('append-zero', payload + b'\0'))
    return edits


def mpint_edits(payload):
    """treat the first string/mpint field of a kex message as a number: 0, 1, all-ones"""
    if len(payload) < 6:
        return []
    n = struct.unpack('>I', payload[1:5])[0]
    if 5 + n > len(payload):
        return []
    rest = payload[5 + n:]
    out = []
    for name, val in (('zero', b''), ('one', b'\x01'), ('ff', b'\x00' + b'\xff' * (n - 1 if n > 1 else 1)),
                      ('short', payload[5:5 + max(n - 1, 0)])):
        out.append(('field0-' + name, payload[:1] + u32(len(val)) + val + rest))
    return out


VERSION_EDITS = [
    ('soft-byte', lambda v: v[:9] + bytes([v[9] ^ 1]) + v[10:]),
    ('comment', lambda v: v + b' comment'),
    ('trailing-space', lambda v: v + b' '),
    ('trailing-tab', lambda v: v + b'\t'),
    ('trailing-cr', lambda v: v + b'\r'),
    ('leading-banner', None),       # handled specially: an extra banner line is legal, not an edit
    ('proto-199', lambda v: b'SSH-1.99-' + v[8:]),
    ('case', lambda v: v[:8] + v[8:].swapcase()),
    ('drop-last', lambda v: v[:-1]),
]


class HandshakeEditor:
    """Applies one edit to the `occ`-th cleartext message of type `mtype` in direction d
    (mtype 'version' edits the identification line)."""

    def __init__(self, d, mtype, occ, edit):
        self.d, self.mtype, self.occ, self.edit = d, mtype, occ, edit
        self.seen = {}
        self.keyed = {'cs': False, 'sc': False}
        self.applied = False
        self.observed = {'cs': [], 'sc': []}        # cleartext (type, payload)
        self.versions = {}

    def transform(self, d, chunk):
        if self.keyed[d]:
            return bytes(chunk)
        if chunk.label == 'raw' or chunk.label is None:
            line = bytes(chunk)
            self.versions[d] = line
            if d == self.d and self.mtype == 'version' and self.edit is not None:
                self.applied = True
                body = line.rstrip(b'\r\n')
                return self.edit(body) + b'\r\n'
            return line
        payload = unframe(bytes(chunk))
        t = payload[0]
        self.observed[d].append((t, payload))
        if t == 21:
            self.keyed[d] = True
        if d == self.d and t == self.mtype and self.edit is not None:
            k = self.seen.get(t, 0)
            self.seen[t] = k + 1
            if k == self.occ:
                new = self.edit(payload)
                if new is not None and new != payload:
                    self.applied = True
                    return frame(new)
        return bytes(chunk)


def run(kex, editor, sopts=None, copts=None, seed=0, cwait=None):
    loop = P.fresh(seed)
    P.install_wire_labels()
    try:
        so = dict(kex_algs=[kex] if kex else (), server_host_keys=[P.key('host')])
        co = dict(kex_algs=[kex] if kex else ())
        so.update(sopts or {})
        co.update(copts or {})
        pair = P.Pair(loop, sopts=so, copts=co, cwait=cwait)
        steps = 0
        while True:
            loop.quiesce()
            progressed = False
            for name, t in (('cs', pair.st), ('sc', pair.ct)):
                if t.lost or t.closing or not t.peer.outq:
                    continue
                c = t.peer.outq.popleft()
                progressed = True
                if c is EOF:
                    loop.call_soon(loop._deliver_eof, t)
                else:
                    loop.inject(t, editor.transform(name, c))
                loop.quiesce()
            if not progressed:
                if loop.pending_jobs():
                    loop.fire_job(0)
                    continue
                break
            steps += 1
            if steps > 3000:
                raise Livelock('handshake too long')
        c, s = pair.c, pair.s
        w = pair.copt.waiter
        obs = {
            'client_ok': bool(w.done() and not w.cancelled() and w.exception() is None),
            'client_exc': type(w.exception()).__name__ if w.done() and not w.cancelled() and w.exception() else None,
            'server_auth': bool(s._auth_complete),
            'server_saw_auth': any(e[0] == 'begin_auth' for e in (pair.server_owner.log if pair.server_owner else [])),
            'server_exc': type(pair.server_owner.lost_exc).__name__ if pair.server_owner and pair.server_owner.lost else None,
            'sid_equal': bool(c._session_id) and c._session_id == s._session_id,
            'sids': (bool(c._session_id), bool(s._session_id)),
            'applied': editor.applied,
            'algs': tuple(c.get_extra_info(k) for k in ('kex_alg', 'send_cipher', 'send_mac', 'send_compression',
                                                        'recv_cipher', 'recv_mac', 'recv_compression')),
            'salgs': tuple(s.get_extra_info(k) for k in ('kex_alg', 'recv_cipher', 'recv_mac', 'recv_compression',
                                                         'send_cipher', 'send_mac', 'send_compression')),
            'loop_exc': [repr(x.get('exception') or x.get('message'))[:200] for x in loop.unretrieved()],
            'host_key_reported': c.get_server_host_key() is not None,
        }
        return obs, editor
    finally:
        P.done(loop)


def judge_edit(obs):
    v = []
    if obs['loop_exc']:
        v.append(('loop-exception', obs['loop_exc'][0]))
    if not obs['applied']:
        return v
    if obs['client_ok'] or obs['server_auth']:
        v.append(('completed-despite-edit', 'client authenticated=%s server authenticated=%s session ids '
                  'equal=%s' % (obs['client_ok'], obs['server_auth'], obs['sid_equal'])))
    elif obs['server_saw_auth']:
        v.append(('auth-after-edit', 'the server accepted a USERAUTH request after an edited exchange'))
    return v


def kex_list(tier):
    ks = [a.decode() for a in get_kex_algs() if not a.startswith(b'gss-')]
    return ks


SLOW = ('group16', 'group17', 'group18', 'group15')


def edit_worker(job):
    kex, tier = job
    acc = core.Acc()
    try:
        base, ed0 = run(kex, HandshakeEditor('cs', None, 0, None))
    except Exception as exc:            # pylint: disable=broad-except
        acc.notes.append('kex %s unusable: %r' % (kex, exc))
        return acc
    if not (base['client_ok'] and base['server_auth'] and base['sid_equal']):
        acc.violation('kexbind:baseline:%s' % kex, 'unedited handshake: %r' % (base,), {'kind': 'base', 'kex': kex})
        return acc
    acc.add(core.digest(('base', kex, base['algs'])), transitions=1)
    slow = any(s in kex for s in SLOW) or kex.startswith('rsa')
    lite = tier == 'quick' and slow
    for d in ('cs', 'sc'):
        plan = []
        ver = ed0.versions[d].rstrip(b'\r\n')
        for name, fn in VERSION_EDITS:
            if fn is None:
                continue
            if name == 'proto-199' and d == 'cs':
                continue        # a server may accept a 1.99 client banner: then V_C differs => still must fail
            plan.append(('version', 0, 'version:' + name, fn))
        for t, payload in ed0.observed[d]:
            if t == 20:
                for name, new in kexinit_edits(payload):
                    plan.append((20, 0, 'kexinit:' + name, (lambda p, new=new: new)))
            elif 30 <= t <= 49:
                occ = sum(1 for tt, _ in ed0.observed[d][:ed0.observed[d].index((t, payload))] if tt == t)
                for name, new in byte_edits(payload, 'quick' if lite else tier) + mpint_edits(payload):
                    plan.append((t, occ, 'msg%d:%s' % (t, name), (lambda p, new=new: new)))
                # the message number is not part of the exchange hash: the same body under another number of the
                # method's range (a new-style group exchange request relabelled as an old-style one, ...)
                for nn in (30, 31, 32, 33, 34):
                    if nn != t:
                        plan.append((t, occ, 'msg%d:type=%d' % (t, nn), (lambda p, nn=nn: bytes([nn]) + p[1:])))
        if lite:
            plan = plan[::6]
        for mtype, occ, label, fn in plan:
            try:
                obs, _ = run(kex, HandshakeEditor(d, mtype, occ, fn))
                viol = judge_edit(obs)
                out = (obs['client_exc'], obs['server_exc'])
            except Livelock as exc:
                viol, out = [('livelock', str(exc))], 'livelock'
            acc.add(core.digest((kex, d, label, out)), transitions=1,
                    sample={'kex': kex, 'direction': d, 'edit': label, 'client_error': out[0], 'server_error': out[1]}
                    if label.endswith('list2-swap') else None)
            for k, det in viol:
                acc.violation('kexbind:%s:%s:%s:%s' % (k, kex, d, label.split(':')[0] + ':' + label.split(':')[1][:24]),
                              '%s (edit %s)' % (det, label), {'kind': 'edit', 'kex': kex, 'd': d, 'label': label})
        # the other entry points that run a handshake: get_server_host_key() waits for the key exchange only,
        # get_server_auth_methods() for the start of authentication.  An edited exchange must not be reported
        # as completed to them either (the caller would take the key it names as the server's)
        for cwait in ('kex', 'auth_methods'):
            for mtype, occ, label, fn in (plan[::3] if tier == 'quick' else plan):
                try:
                    obs, _ = run(kex, HandshakeEditor(d, mtype, occ, fn), cwait=cwait)
                except Livelock as exc:
                    acc.violation('kexbind:livelock:%s:%s' % (kex, cwait), str(exc), {'kind': 'edit', 'kex': kex, 'd': d, 'label': label, 'cwait': cwait})
                    continue
                acc.add(core.digest((kex, d, label, cwait, obs['client_exc'])), transitions=1)
                if obs['applied'] and obs['client_ok']:
                    acc.violation('kexbind:reported-complete-despite-edit:%s:%s:%s:%s' % (cwait, kex, d, label.split(':')[0]),
                                  'wait=%s: the caller is told the handshake succeeded (host key reported: %s) after edit %s'
                                  % (cwait, obs['host_key_reported'], label), {'kind': 'edit', 'kex': kex, 'd': d, 'label': label, 'cwait': cwait})
    return acc


# ------------------------------------------------------------------ negotiation rule
CATS = {
    'kex': ('kex_algs', ['curve25519-sha256', 'ecdh-sha2-nistp256', 'diffie-hellman-group14-sha256'], 0),
    'cipher': ('encryption_algs', ['aes128-ctr', 'aes256-ctr', 'aes128-gcm@openssh.com'], 1),
    'mac': ('mac_algs', ['hmac-sha2-256', 'hmac-sha1', 'hmac-sha2-512-etm@openssh.com'], 2),
    'compression': ('compression_algs', ['none', 'zlib@openssh.com', 'zlib'], 3),
}


def sublists(alpha):
    out = []
    for n in range(1, len(alpha) + 1):
        out += [list(p) for p in itertools.permutations(alpha, n)]
    return out


def _s(x):
    return x.decode() if isinstance(x, bytes) else x


def nego_worker(job):
    cat, clist = job
    opt, alpha, idx = CATS[cat]
    acc = core.Acc()
    for slist in sublists(alpha):
        so, co = {opt: slist}, {opt: clist}
        kex = None
        if cat != 'kex':
            so['kex_algs'] = co['kex_algs'] = ['curve25519-sha256']
        if cat == 'mac':
            so['encryption_algs'] = co['encryption_algs'] = ['aes128-ctr']
        obs, ed = run(kex, HandshakeEditor('cs', None, 0, None), sopts=so, copts=co)
        expected = next((a for a in clist if a in slist), None)
        got = _s(obs['algs'][idx])
        sgot = _s(obs['salgs'][idx])
        if cat == 'kex':
            # no extra_info key names the kex method: identify it from the client's first kex message
            got = None
            for t, p in ed.observed['cs']:
                if t == 30 and len(p) > 5:
                    n = struct.unpack('>I', p[1:5])[0]
                    got = {32: 'curve25519-sha256', 65: 'ecdh-sha2-nistp256'}.get(
                        n, 'diffie-hellman-group14-sha256' if 250 <= n <= 258 else 'unknown(%d)' % n)
                    break
            sgot = got
        viol = []
        if expected is None:
            if obs['client_ok'] or obs['server_auth']:
                viol.append(('completed-without-common-alg', repr(obs['algs'])))
            elif obs['client_exc'] != 'KeyExchangeFailed':
                viol.append(('wrong-error', 'no common %s algorithm: client raised %s' % (cat, obs['client_exc'])))
        else:
            if not obs['client_ok']:
                viol.append(('failed-with-common-alg', 'client=%s server=%s' % (obs['client_exc'], obs['server_exc'])))
            elif got != expected or sgot != expected:
                viol.append(('not-first-client-match', 'client list %r server list %r: negotiated %r/%r, '
                             'first client entry the server supports is %r' % (clist, slist, got, sgot, expected)))
            if cat == 'cipher' and obs['client_ok']:
                rgot = _s(obs['algs'][4])
                if rgot != expected:
                    viol.append(('not-first-client-match', 'server->client cipher %r, expected %r' % (rgot, expected)))
        acc.add(core.digest((cat, tuple(clist), tuple(slist), got)), transitions=1,
                sample={'category': cat, 'client': clist, 'server': slist, 'negotiated': got}
                if len(clist) == 3 and len(slist) == 2 else None)
        for k, det in viol:
            acc.violation('nego:%s:%s' % (k, cat), det, {'kind': 'nego', 'cat': cat, 'clist': clist, 'slist': slist})
    return acc


# ------------------------------------------------------------------ negotiation with different lists per direction
ACATS = {
    'cipher': (['aes128-ctr', 'aes256-ctr', 'aes128-gcm@openssh.com'], 'ciphers', 'ciphers_sc', 'encryption_algs', ('enc_cs', 'enc_sc'),
               ('recv_cipher', 'send_cipher')),
    'mac': (['hmac-sha2-256', 'hmac-sha1', 'hmac-sha2-512-etm@openssh.com'], 'macs', 'macs_sc', 'mac_algs', ('mac_cs', 'mac_sc'),
            ('recv_mac', 'send_mac')),
    'compression': (['none', 'zlib@openssh.com', 'zlib'], 'comps', 'comps_sc', 'compression_algs', ('cmp_cs', 'cmp_sc'),
                    ('recv_compression', 'send_compression')),
}


def asym_worker(job):
    """an RFC 4253 peer may offer different lists for the two directions (asyncssh itself never does): each
    direction's algorithm is the first on the client's list *for that direction* the server supports"""
    import refpeer as R
    import rpharness as H
    cat, role, l_cs = job
    alpha, kw_cs, kw_sc, opt, nkeys, ikeys = ACATS[cat]
    acc = core.Acc()
    for l_sc in sublists(alpha):
        if l_sc == l_cs:
            continue
        rp_kw = {kw_cs: list(l_cs), kw_sc: list(l_sc)}
        real = {opt: list(alpha)}
        if cat == 'mac':
            rp_kw.update(ciphers=['aes128-ctr'], ciphers_sc=['aes128-ctr'])
            real['encryption_algs'] = ['aes128-ctr']
        elif cat != 'cipher':
            rp_kw.update(ciphers=['aes128-ctr'], ciphers_sc=['aes128-ctr'], macs=['hmac-sha2-256'], macs_sc=['hmac-sha2-256'])
        else:
            rp_kw.update(macs=['hmac-sha2-256'], macs_sc=['hmac-sha2-256'])
        viol = []
        try:
            if role == 'server':        # real server, refpeer client offers the asymmetric lists
                w = H.SrvWorld(sopts=real, rp_kw=rp_kw)
                want = (l_cs[0], l_sc[0])
            else:                       # real client (alphabet order), refpeer server supports the asymmetric lists
                w = H.CliWorld(copts=real, rp_kw=rp_kw)
                want = (next(a for a in alpha if a in l_cs), next(a for a in alpha if a in l_sc))
            try:
                if role == 'server':
                    w.kex()
                    w.rp.send(w.rp.service_request())
                    w.flush()
                    ok = R.MSG_SERVICE_ACCEPT in w.rp.types()
                    conn = w.conn
                    # server: recv = client->server
                    got = tuple(_s(conn.get_extra_info(k)) for k in ikeys)
                else:
                    w.login()
                    ok = True
                    conn = w.conn
                    # client: send = client->server
                    got = tuple(_s(conn.get_extra_info(k)) for k in (ikeys[1], ikeys[0]))
                ref = tuple(w.rp.negotiated.get(k) for k in nkeys)
                if cat == 'mac':
                    got = tuple(g for g in got)
                if not ok:
                    viol.append(('handshake-failed', 'the encrypted service request was not answered: %r' % (w.rp.types()[-3:],)))
                if ref != want:
                    viol.append(('harness', 'refpeer negotiated %r, rule says %r' % (ref, want)))
                if got != want:
                    viol.append(('not-first-client-match-per-direction', '%s: client->server list %r, server->client list %r (real %s knows %r): '
                                 'asyncssh uses %r, the rule gives %r' % (cat, l_cs, l_sc, role, alpha, got, want)))
                if w.proto.error:
                    viol.append(('peer-rejects', str(w.proto.error)))
            finally:
                w.close()
        except (R.RefError, Livelock) as exc:
            viol.append(('peer-rejects', str(exc)))
        except (asyncssh.Error, OSError) as exc:
            viol.append(('handshake-failed', 'real %s: %r' % (role, exc)))
        acc.add(core.digest(('asym', cat, role, tuple(l_cs), tuple(l_sc))), transitions=1,
                sample={'category': cat, 'real_role': role, 'c2s_list': l_cs, 's2c_list': l_sc} if len(l_cs) == 2 and len(l_sc) == 3 else None)
        for k, det in viol:
            acc.violation('nego:%s:%s:%s' % (k, cat, role), det, {'kind': 'asym', 'cat': cat, 'role': role, 'l_cs': l_cs})
    return acc


def hostkey_nego_worker(job):
    """server host key algorithm = first on the client's server_host_key_algs the server can do"""
    acc = core.Acc()
    corder, sorder = job
    keys = {'ssh-ed25519': P.key('host'), 'ecdsa-sha2-nistp256': P.key('host-ec', 'ecdsa-sha2-nistp256'),
            'rsa': P.key('host-rsa', 'ssh-rsa', key_size=2048)}
    skeys = [keys['rsa' if a.startswith('rsa') else a] for a in sorder]
    uniq = []
    for k in skeys:
        if k not in uniq:
            uniq.append(k)
    sigalgs = {}

    class Ed(HandshakeEditor):
        def transform(self, d, chunk):
            out = HandshakeEditor.transform(self, d, chunk)
            return out
    ed = Ed('cs', None, 0, None)
    obs, ed = run('curve25519-sha256', ed, sopts=dict(server_host_keys=uniq),
                  copts=dict(server_host_key_algs=corder))
    # signature algorithm actually used: first string inside the third string of KEX_ECDH_REPLY
    used = None
    for t, p in ed.observed['sc']:
        if t == 31:
            pos = 1
            for _ in range(2):
                n = struct.unpack('>I', p[pos:pos + 4])[0]
                pos += 4 + n
            n = struct.unpack('>I', p[pos + 4:pos + 8])[0]
            used = p[pos + 8:pos + 8 + n].decode()
    server_can = set()
    for k in uniq:
        server_can |= {a.decode() for a in k.sig_algorithms}
    expected = next((a for a in corder if a in server_can), None)
    viol = []
    if expected is None:
        if obs['client_ok']:
            viol.append(('completed-without-common-alg', repr(corder)))
    elif not obs['client_ok']:
        viol.append(('failed-with-common-alg', '%r / %r' % (obs['client_exc'], obs['server_exc'])))
    elif used != expected:
        viol.append(('not-first-client-match', 'client host key algs %r, server keys %r: signature algorithm used %r, '
                     'expected %r' % (corder, sorder, used, expected)))
    acc.add(core.digest(('hostkey', tuple(corder), tuple(sorder), used)), transitions=1,
            sample={'category': 'hostkey', 'client': corder, 'server_keys': sorder, 'used': used} if len(corder) == 3 else None)
    for k, det in viol:
        acc.violation('nego:%s:hostkey' % k, det, {'kind': 'hostkey', 'corder': corder, 'sorder': sorder})
    return acc


def hostcert_nego_worker(job):
    """servers whose host key comes with an OpenSSH host certificate: the certificate algorithm is the first on the
    client's list the server can do, and the exchange hash is signed with the signature algorithm that
    certificate algorithm names (rsa-sha2-512-cert-v01 -> rsa-sha2-512, never the SHA-1 ssh-rsa)"""
    acc = corder_acc = core.Acc()
    corder, keytype = job
    ca = P.key('hostca')
    if keytype == 'rsa':
        hk = P.key('host-rsa', 'ssh-rsa', key_size=2048)
    elif keytype == 'ecdsa':
        hk = P.key('host-ec', 'ecdsa-sha2-nistp256')
    else:
        hk = P.key('host')
    cert = ca.generate_host_certificate(hk, 'h', principals=['127.0.0.1', 'localhost'])
    kh = ('@cert-authority * ' + ca.export_public_key('openssh').decode() + '\n* ' + hk.export_public_key('openssh').decode() + '\n').encode()
    ed = HandshakeEditor('cs', None, 0, None)
    obs, ed = run('curve25519-sha256', ed, sopts=dict(server_host_keys=[(hk, cert)]),
                  copts=dict(server_host_key_algs=corder, known_hosts=kh))
    cert_algs = {'rsa': ['rsa-sha2-256-cert-v01@openssh.com', 'rsa-sha2-512-cert-v01@openssh.com', 'ssh-rsa-cert-v01@openssh.com'],
                 'ecdsa': ['ecdsa-sha2-nistp256-cert-v01@openssh.com'], 'ed25519': ['ssh-ed25519-cert-v01@openssh.com']}[keytype]
    plain_algs = {'rsa': ['rsa-sha2-256', 'rsa-sha2-512', 'ssh-rsa'], 'ecdsa': ['ecdsa-sha2-nistp256'], 'ed25519': ['ssh-ed25519']}[keytype]
    can = set(cert_algs) | set(plain_algs)
    expected = next((a for a in corder if a in can), None)
    used = sig = None
    for t, p in ed.observed['sc']:
        if t == 31:
            blob_len = struct.unpack('>I', p[1:5])[0]
            used = p[9:9 + struct.unpack('>I', p[5:9])[0]].decode()
            rest = p[5 + blob_len:]
            f_len = struct.unpack('>I', rest[:4])[0]
            sigblob = rest[4 + f_len + 4:]
            sig = sigblob[4:4 + struct.unpack('>I', sigblob[:4])[0]].decode()
    viol = []
    want_sig = None
    if expected is not None:
        want_sig = expected.replace('-cert-v01@openssh.com', '')
        want_blob = expected if expected in cert_algs else {'rsa': 'ssh-rsa'}.get(keytype, expected)
        if expected.startswith('rsa-sha2') and expected in cert_algs:
            want_blob = expected          # the certificate blob is re-labelled with the negotiated name
    if expected is None:
        if obs['client_ok']:
            viol.append(('completed-without-common-alg', 'client order %r, key type %s' % (corder, keytype)))
    elif not obs['client_ok']:
        viol.append(('failed-with-common-alg', 'client order %r key type %s: client=%s server=%s' % (corder, keytype, obs['client_exc'], obs['server_exc'])))
    else:
        if sig != want_sig:
            viol.append(('signature-algorithm-not-the-negotiated-one', 'client order %r, %s host key with certificate: negotiated %r, the exchange '
                         'hash is signed with %r (host key blob type %r)' % (corder, keytype, expected, sig, used)))
    acc.add(core.digest(('hostcert', tuple(corder), keytype, used, sig)), transitions=1,
            sample={'category': 'hostkey+cert', 'client': corder, 'key': keytype, 'blob_type': used, 'signature': sig} if keytype == 'rsa' and len(corder) == 3 else None)
    for k, det in viol:
        acc.violation('nego:%s:hostcert' % k, det, {'kind': 'hostcert', 'corder': corder, 'keytype': keytype})
    return acc


# ------------------------------------------------------------------ several connections served from one set of host keys
class _RsaAwarePeer(R.RefPeer):
    """records which signature algorithm the server used and verifies RSA host signatures with PyCA"""
    sig_alg_used = None

    def _verify_hostsig(self, ks, sig, H):
        from cryptography.hazmat.primitives.asymmetric import padding, rsa
        from cryptography.hazmat.primitives import hashes
        r = R.Reader(ks)
        alg = r.string()
        s_ = R.Reader(sig)
        self.sig_alg_used = s_.string().decode()
        if alg != b'ssh-rsa':
            return R.RefPeer._verify_hostsig(self, ks, sig, H)
        e, n = r.mpint(), r.mpint()
        h = {'ssh-rsa': hashes.SHA1, 'rsa-sha2-256': hashes.SHA256, 'rsa-sha2-512': hashes.SHA512}.get(self.sig_alg_used)
        if h is None:
            raise R.RefError('unknown RSA signature algorithm %r' % self.sig_alg_used)
        try:
            rsa.RSAPublicNumbers(e, n).public_key().verify(s_.string(), H, padding.PKCS1v15(), h())
        except Exception:        # pylint: disable=broad-except
            raise R.RefError('RSA host signature does not verify') from None


def shared_hostkey_run(lists, chooser):
    """Two clients with different host key algorithm lists connect to ONE server configuration (one options
    object, as one listener uses for every connection it accepts); packet deliveries of the two handshakes
    interleave.  Each connection's exchange is signed with the algorithm negotiated on THAT connection."""
    loop = P.fresh(0)
    P.install_wire_labels()
    viol, steps = [], 0
    try:
        sopt = asyncssh.SSHServerConnectionOptions(server_factory=lambda: P.RecServer({}), server_host_keys=[P.key('host-rsa', 'ssh-rsa', key_size=2048)],
                                                   login_timeout=0, keepalive_interval=0)
        conns = []
        for i, algs in enumerate(lists):
            srv = asyncssh.SSHServerConnection(loop, sopt)
            rp = _RsaAwarePeer('client', hostkey_algs=tuple(algs), rand=os.urandom)
            proto = R.RefProtocol(rp)
            rt, st = loop.make_pair(proto, srv, addr_a=('127.0.0.1', 40001 + i), labels=('ref%d' % i, 'server%d' % i))
            conns.append((srv, rp, proto, rt, st))
        for srv, rp, proto, rt, st in conns:
            srv.connection_made(st)
            proto.connection_made(rt)
        while True:
            loop.quiesce()
            opts = [t for c in conns for t in (c[4], c[3]) if t in loop.deliverable()]
            if not opts:
                break
            k = chooser.choose(len(opts), label='deliver') if len(opts) > 1 else 0
            loop.deliver(opts[k])
            steps += 1
            if steps > 400:
                raise Livelock('handshakes too long')
        for i, (srv, rp, proto, rt, st) in enumerate(conns):
            want = lists[i][0]
            if proto.error:
                viol.append(('refpeer-reject', 'connection %d: %s' % (i, proto.error)))
            elif rp.kex_done < 1:
                viol.append(('kex-incomplete', 'connection %d' % i))
            elif rp.sig_alg_used != want:
                viol.append(('other-connections-algorithm', 'connection %d offered %r, its exchange was signed with %r (the other connection offered %r)'
                             % (i, lists[i], rp.sig_alg_used, lists[1 - i])))
        if loop.unretrieved():
            viol.append(('loop-exception', repr(loop.exc_log[0].get('exception'))[:200]))
    except Livelock as exc:
        viol.append(('livelock', str(exc)))
    finally:
        P.done(loop)
    return {'viol': viol, 'steps': steps}


def shared_hostkey_worker(job):
    lists, bound = job
    acc = core.Acc()

    def check(obs, ch):
        acc.add(core.digest(('shared-hostkey', lists, tuple(ch.choices))), transitions=obs['steps'],
                sample={'two_connections_one_server': [list(x) for x in lists]} if not any(ch.choices) else None)
        for k, d in obs['viol']:
            acc.violation('nego:%s:shared-hostkey' % k, d, {'kind': 'shared-hostkey', 'lists': [list(x) for x in lists], 'choices': ch.choices})
    core.explore_dfs(lambda ch: shared_hostkey_run(lists, ch), bound, check)
    return acc


def shared_hostkey_jobs(tier):
    algs = ['rsa-sha2-512', 'rsa-sha2-256', 'ssh-rsa']
    pairs = [((a,), (b,)) for a in algs for b in algs if a != b] + [(('rsa-sha2-256', 'ssh-rsa'), ('ssh-rsa', 'rsa-sha2-512'))]
    return [(p, 2 if tier == 'quick' else 3) for p in pairs]


def main(tier, seed):
    t0 = core.now()
    ks = kex_list(tier)
    f = (lambda p: p[:3] + bytes([p[3] ^ 1]) + p[4:])
    a, _ = run('curve25519-sha256', HandshakeEditor('cs', 30, 0, f), seed=seed)
    b, _ = run('curve25519-sha256', HandshakeEditor('cs', 30, 0, f), seed=seed)
    if a != b:
        print('HARNESS-NONDETERMINISM')
        return 2
    acc = core.pmap(edit_worker, core.rotate([(k, tier) for k in ks], seed))
    n_edit = acc.evaluations
    nj = [(cat, cl) for cat in CATS for cl in sublists(CATS[cat][1])]
    acc.merge(core.pmap(nego_worker, core.rotate(nj, seed)))
    hk_alpha = ['ssh-ed25519', 'ecdsa-sha2-nistp256', 'rsa-sha2-256', 'rsa-sha2-512']
    hj = [(list(c), list(s)) for c in itertools.permutations(hk_alpha, 3) for s in itertools.permutations(hk_alpha, 2)]
    hj += [(list(c), list(s)) for c in itertools.permutations(hk_alpha, 2) for s in itertools.permutations(hk_alpha, 3)]
    acc.merge(core.pmap(hostkey_nego_worker, core.rotate(hj, seed), chunksize=8))
    calpha = ['rsa-sha2-512-cert-v01@openssh.com', 'rsa-sha2-256-cert-v01@openssh.com', 'ssh-rsa-cert-v01@openssh.com', 'rsa-sha2-256',
              'ssh-ed25519-cert-v01@openssh.com', 'ecdsa-sha2-nistp256-cert-v01@openssh.com']
    cj = [(list(c), kt) for n in (1, 2, 3) for c in itertools.permutations(calpha, n) for kt in ('rsa', 'ecdsa', 'ed25519')]
    acc.merge(core.pmap(hostcert_nego_worker, core.rotate(cj, seed), chunksize=8))
    aj = [(cat, role, l) for cat in ACATS for role in ('server', 'client') for l in sublists(ACATS[cat][0])]
    acc.merge(core.pmap(asym_worker, core.rotate(aj, seed)))
    acc.merge(core.pmap(shared_hostkey_worker, shared_hostkey_jobs(tier)))
    rule = ('for each of %d non-GSS kex methods and each direction: edits of the version line (software '
            'byte, comment, trailing space/tab/CR, case, protocol number), of KEXINIT (cookie, each of the 10 '
            'name-lists: drop first/middle/last, duplicate, swap, keep only last, append, prepend; '
            'first_kex_follows; reserved) and of every key exchange message (byte flips at field boundaries '
            '(thorough: every byte), truncation, trailing byte, first field set to 0/1/all-ones/short); the '
            'handshake must not complete on either side.  Negotiation: every ordered pair of non-empty '
            'permutation sub-lists of a 3-algorithm alphabet for kex, cipher, MAC, compression and host key '
            'algorithm through a real handshake (host keys with and without a host certificate: the signature algorithm is the negotiated one); cipher, MAC and compression also with different lists for the two '
            'directions, offered by the independent peer to a real server and to a real client; two clients with different RSA host key algorithm lists on '
            'one server configuration, every interleaving of the two handshakes within the deviation bound: each exchange is signed with its own '
            'connection\'s algorithm; the edits also under the waits of get_server_host_key / get_server_auth_methods' % len(ks))
    return core.finish(PROP, tier, seed, 'fault_enumeration', acc, t0, rule,
                       {'kex_methods': ks, 'edit_execs': n_edit,
                        'quick_reduction': 'slow DH groups (15-18) and RSA kex get every 6th edit in quick'},
                       assumptions=['padding bytes of cleartext packets are not edited: they are not part of any '
                                    'field and RFC 4253 does not bind them'])


def replay(rep):
    if rep['replay'].get('kind') == 'shared-hostkey':
        r = rep['replay']
        obs = shared_hostkey_run(tuple(tuple(x) for x in r['lists']), core.Chooser(r['choices']))
        print(json.dumps(obs, indent=1, default=repr))
        if obs['viol']:
            print('VIOLATION property=%s replay=(given)' % PROP)
            return 1
        return 0
    r = rep['replay']
    if r['kind'] == 'nego':
        acc = core.Acc()
        full = nego_worker((r['cat'], r['clist']))
        acc.violations = [v for v in full.violations if v['replay']['slist'] == r['slist']]
    elif r['kind'] == 'hostkey':
        acc = hostkey_nego_worker((r['corder'], r['sorder']))
    elif r['kind'] == 'hostcert':
        acc = hostcert_nego_worker((r['corder'], r['keytype']))
    elif r['kind'] == 'asym':
        acc = asym_worker((r['cat'], r['role'], r['l_cs']))
    else:
        full = edit_worker((r['kex'], 'thorough'))
        acc = core.Acc()
        acc.violations = [v for v in full.violations if v['replay'].get('label') == r.get('label')
                          and v['replay'].get('d') == r.get('d')] or full.violations[:0]
    print(json.dumps(acc.violations, indent=1, default=repr)[:3000])
    if acc.violations:
        print('VIOLATION property=%s replay=(given)' % PROP)
        return 1
    return 0
