"""C16  Signatures and certificates verify only when nothing was altered.

Exhaustive single-edit enumeration:
 * signatures: key type x signature algorithm x message; every single-byte edit (xor 0x01 /
   0x80 at every offset, delete, insert) of the signature blob and of the message, algorithm
   name swaps, another key -> verify must not return True;
 * certificates: every single-byte edit of user/host certificates from each CA key type ->
   import or validate must fail; acceptance grid type x window x now x principals x options
   (incl. hand-built certificates with unknown critical options / extensions) against a
   predicate written from PROTOCOL.certkeys; ssh-keygen -s / -L cross-checks;
 * SSHSIG: message x namespace x allowed-signers options x clock; single-byte edits of raw and
   armoured signatures; ssh-keygen -Y sign / verify cross-checks.
"""

import base64
import itertools
import json
import os
import shutil
import struct
import subprocess
import time

import asyncssh
from asyncssh.public_key import CERT_TYPE_HOST, CERT_TYPE_USER, decode_ssh_certificate
from cryptography.hazmat.primitives import serialization
from cryptography.hazmat.primitives.asymmetric import ed25519

import core
import determ
import pair as P

PROP = 'C16'
SSH_KEYGEN = shutil.which('ssh-keygen')
SCRATCH = '/dev/shm/asyncssh-verif-c16-%d' % os.getpid()       # unique per check run (workers are forked later)
NOW = 1_700_000_000


class Clock:
    def __init__(self, t=0.0):
        self.t = t

    def time(self):
        return self.t


def set_now(t):
    determ.install()
    determ.reset(0, Clock(float(t)), epoch=0)


KEYTYPES = [('ssh-rsa', {'key_size': 2048}), ('ssh-dss', {}), ('ecdsa-sha2-nistp256', {}), ('ecdsa-sha2-nistp384', {}),
            ('ecdsa-sha2-nistp521', {}), ('ssh-ed25519', {}), ('ssh-ed448', {})]


def edits(blob, tier, stride=1):
    n = len(blob)
    for o in range(0, n, stride):
        yield 'x01@%d' % o, blob[:o] + bytes([blob[o] ^ 1]) + blob[o + 1:]
        yield 'x80@%d' % o, blob[:o] + bytes([blob[o] ^ 0x80]) + blob[o + 1:]
        if tier == 'thorough':
            # every single-bit edit, and the byte exchanged with its neighbour
            for bit in (1, 2, 3, 4, 5, 6):
                yield 'x%02x@%d' % (1 << bit, o), blob[:o] + bytes([blob[o] ^ (1 << bit)]) + blob[o + 1:]
            if o + 1 < n and blob[o] != blob[o + 1]:
                yield 'swap@%d' % o, blob[:o] + blob[o + 1:o + 2] + blob[o:o + 1] + blob[o + 2:]
    if tier == 'thorough':
        for k in range(1, n):
            yield 'prefix@%d' % k, blob[:k]
    for o in range(0, n, max(stride, 1 if tier == 'thorough' else 3)):
        yield 'del@%d' % o, blob[:o] + blob[o + 1:]
        yield 'ins@%d' % o, blob[:o] + b'\0' + blob[o:]
    yield 'append', blob + b'\0'
    yield 'empty', b''


def nested_edits(blob, depth=0):
    """Edits that keep every length field consistent: where `blob` parses as a run of SSH strings, each string in
    turn gets a byte appended, prepended or its last byte removed INSIDE it (its length field and those of the
    strings around it adjusted), recursively for strings that themselves parse as runs of strings -- a verifier
    that stops reading where it has enough must notice what follows."""
    parts, pos = [], 0
    while pos + 4 <= len(blob):
        n = struct.unpack('>I', blob[pos:pos + 4])[0]
        if pos + 4 + n > len(blob):
            return
        parts.append(blob[pos + 4:pos + 4 + n])
        pos += 4 + n
    if pos != len(blob) or not parts:
        return
    enc = lambda ps: b''.join(struct.pack('>I', len(p_)) + p_ for p_ in ps)
    for i, part in enumerate(parts):
        for name, new in (('append00', part + b'\0'), ('append-ff', part + b'\xff'), ('prepend00', b'\0' + part), ('drop-last', part[:-1])):
            if new != part:
                yield 'nested%d.%d:%s' % (depth, i, name), enc(parts[:i] + [new] + parts[i + 1:])
        if depth < 3:
            for name, inner in nested_edits(part, depth + 1):
                yield name + '<in%d.%d' % (depth, i), enc(parts[:i] + [inner] + parts[i + 1:])
        # a further whole string inside
        yield 'nested%d.%d:extra-string' % (depth, i), enc(parts[:i] + [part + struct.pack('>I', 0)] + parts[i + 1:])


# ------------------------------------------------------------------ signatures
def sig_worker(job):
    alg, kw, tier = job
    acc = core.Acc()
    # keys of every other type have been constructed in this process before (state shared between key objects
    # of one family must not make a relabelled signature acceptable)
    for _a, _kw in KEYTYPES:
        try:
            asyncssh.import_public_key(P.key('c16-' + _a, _a, **_kw).export_public_key())
        except Exception:           # pylint: disable=broad-except
            pass
    try:
        key = P.key('c16-' + alg, alg, **kw)
        other = P.key('c16b-' + alg, alg, **kw)
    except Exception as exc:        # pylint: disable=broad-except
        acc.notes.append('%s unavailable: %r' % (alg, exc))
        return acc
    pub = asyncssh.import_public_key(key.export_public_key())
    opub = asyncssh.import_public_key(other.export_public_key())
    for sig_alg in key.sig_algorithms:
        for mname, msg in (('empty', b''), ('one', b'm'), ('1k', bytes(range(256)) * 4)):
            try:
                sig = key.sign(msg, sig_alg)
            except Exception as exc:            # pylint: disable=broad-except
                acc.notes.append('%s cannot sign with %s: %r' % (alg, sig_alg, exc))
                continue
            lab = '%s/%s/%s' % (alg, sig_alg.decode(), mname)

            def bad(kind, detail):
                acc.violation('sig:%s:%s' % (kind, alg), '%s (%s)' % (detail, lab), {'kind': 'sig', 'alg': alg})
            if not pub.verify(msg, sig):
                bad('valid-signature-rejected', 'own signature does not verify')
            n = 0
            stride = 1 if (tier == 'thorough' or len(sig) < 200) else 3
            for elab, s2 in edits(sig, tier, stride):
                n += 1
                try:
                    if pub.verify(msg, s2):
                        bad('altered-signature-accepted', 'signature edit %s still verifies' % elab)
                except Exception as exc:        # pylint: disable=broad-except
                    bad('verify-raised', 'edit %s raised %r' % (elab, exc))
            for elab, s2 in nested_edits(sig):
                if s2 == sig:
                    continue
                n += 1
                try:
                    if pub.verify(msg, s2):
                        # an mpint with a redundant leading zero byte is the same number written non-canonically
                        if 'prepend00' in elab and 'ecdsa' in alg or 'prepend00' in elab and alg == 'ssh-dss':
                            acc.count('non-canonical-mpint-accepted')
                            continue
                        bad('altered-signature-accepted', 'signature edit %s (lengths consistent) still verifies' % elab)
                except Exception as exc:        # pylint: disable=broad-except
                    bad('verify-raised', 'edit %s raised %r' % (elab, exc))
            for elab, m2 in edits(msg, tier, 1 if len(msg) < 50 else 37):
                if m2 == msg:
                    continue
                n += 1
                if pub.verify(m2, sig):
                    bad('altered-message-accepted', 'message edit %s still verifies' % elab)
            # algorithm name inside the blob replaced by every other name of any family
            r_alg_len = struct.unpack('>I', sig[:4])[0]
            rest = sig[4 + r_alg_len:]
            for name in [b'ssh-rsa', b'rsa-sha2-256', b'rsa-sha2-512', b'ssh-ed25519', b'ssh-ed448', b'ssh-dss',
                         b'ecdsa-sha2-nistp256', b'ecdsa-sha2-nistp384', b'ecdsa-sha2-nistp521', b'', b'x']:
                if name == sig[4:4 + r_alg_len]:
                    continue
                if name in key.sig_algorithms:
                    # two names for the identical algorithm (e.g. rsa-sha2-256 and ssh-rsa-sha256@ssh.com:
                    # same hash and padding, byte-identical signature) are not a different algorithm
                    try:
                        alt = key.sign(msg, name)
                        if alt[4 + len(name):] == rest:
                            acc.count('alias-names-skipped')
                            continue
                    except Exception:       # pylint: disable=broad-except
                        pass
                n += 1
                s2 = struct.pack('>I', len(name)) + name + rest
                try:
                    if pub.verify(msg, s2):
                        bad('algorithm-name-not-bound', 'signature relabelled %r verifies' % name)
                except Exception as exc:        # pylint: disable=broad-except
                    bad('verify-raised', 'relabel %r raised %r' % (name, exc))
            if opub.verify(msg, sig):
                bad('other-key-accepted', 'signature verifies under a different key of the same type')
            acc.add(core.digest((lab, n)), transitions=n, sample={'signature': lab, 'edits_tried': n} if mname == 'one' else None)
    return acc


# ------------------------------------------------------------------ certificates
def s(b):
    if isinstance(b, str):
        b = b.encode()
    return struct.pack('>I', len(b)) + b


def raw_ed25519(key):
    pk = serialization.load_ssh_private_key(key.export_private_key('openssh'), None)
    return pk


def build_cert(ca, subject, ctype, principals, after, before, critical=(), extensions=(), key_id='id', serial=1):
    """hand-built ssh-ed25519-cert-v01 (PROTOCOL.certkeys), signed with PyCA"""
    subj_pub = subject.public_data[4 + 11:]          # string "ssh-ed25519" + string pk -> take string pk
    body = s('ssh-ed25519-cert-v01@openssh.com') + s(b'\x07' * 32) + subj_pub + struct.pack('>Q', serial) + \
        struct.pack('>I', ctype) + s(key_id) + s(b''.join(s(p) for p in principals)) + \
        struct.pack('>Q', after) + struct.pack('>Q', before) + \
        s(b''.join(s(n) + s(v) for n, v in critical)) + s(b''.join(s(n) + s(v) for n, v in extensions)) + \
        s(b'') + s(ca.public_data)
    sig = raw_ed25519(ca).sign(body)
    return body + s(s('ssh-ed25519') + s(sig))


def cert_predicate(ctype, use, after, before, now, principals, wanted, critical, trusted_ca=True):
    if ctype != use:
        return False
    if not after <= now < before:
        return False
    if wanted is not None and principals and wanted not in principals:
        return False
    known = {1: {b'force-command', b'source-address', b'verify-required'}, 2: set()}[ctype]
    for name, _v in critical:
        if name not in known:
            return False
    return True


def cert_grid_worker(job):
    chunk = job
    acc = core.Acc()
    ca = P.key('c16-ca')
    subj = P.key('c16-subj')
    for ctype, use, after, before, now, principals, wanted, opt in chunk:
        critical, extensions = opt
        set_now(now)
        try:
            blob = build_cert(ca, subj, ctype, principals, after, before, critical, extensions)
            want = cert_predicate(ctype, use, after, before, now, principals, wanted, critical)
            try:
                cert = decode_ssh_certificate(blob)
                cert.validate(use, wanted)
                got = True
                err = None
            except (asyncssh.KeyImportError, ValueError) as exc:
                got, err = False, repr(exc)
            acc.add(core.digest((ctype, use, after, before, now, principals, wanted, opt, got)), transitions=1,
                    sample={'cert_type': ctype, 'use': use, 'window': [after, before], 'now': now,
                            'principals': list(principals), 'wanted': wanted, 'accepted': got}
                    if critical and got else None)
            acc.count('accepted' if got else 'rejected')
            if got != want:
                acc.violation('cert:%s:%s' % ('accepted-but-invalid' if got else 'valid-but-rejected',
                                              'host' if ctype == 2 else 'user'),
                              'type=%d used as %d window=[%d,%d) now=%d principals=%r wanted=%r critical=%r extensions=%r: '
                              'asyncssh %s (%s), predicate %s' % (ctype, use, after, before, now, principals, wanted,
                                                                   critical, extensions, got, err, want),
                              {'kind': 'certgrid', 'case': [ctype, use, after, before, now, list(principals), wanted,
                                                            [[a.decode(), b.hex()] for a, b in critical],
                                                            [[a.decode(), b.hex()] for a, b in extensions]]})
        finally:
            determ.unbind()
    return acc


def cert_grid(tier):
    far = 2 ** 64 - 1
    t = NOW
    cases = []
    opts = [((), ()), (((b'force-command', s('x')),), ()), (((b'source-address', s('10.0.0.0/8')),), ()),
            (((b'unknown-critical@example.com', s('v')),), ()), (((b'unknown-critical@example.com', b''),), ()),
            ((), ((b'permit-pty', b''),)), ((), ((b'foo@example.com', b''),)), ((), ((b'foo@example.com', s('bar')),)),
            ((), ((b'foo@example.com', s('permit-pty')), (b'permit-pty', b''))),
            (((b'force-command', s('x')), (b'zzz@example.com', s('1'))), ())]
    for ctype in (1, 2):
        for use in (1, 2):
            for after, before in ((0, far), (0, t), (t, far), (t, t + 1), (t - 5, t), (t + 1, far), (0, 0), (far, far)):
                for now in (t - 1, t, t + 1):
                    for principals in ((), ('p',), ('p', 'q')):
                        for wanted in ('p', 'r', None):
                            for opt in opts:
                                if tier == 'quick' and opt not in opts[:5] and not (after == 0 and before == far and now == t):
                                    continue
                                cases.append((ctype, use, after, before, now, principals, wanted, opt))
    return cases


# ------------------------------------------------------------------ certificates presented on a live connection
CONN_NOW = 1_700_000_000 + 1000         # determ epoch + initial virtual clock


def conn_cases():
    far = 2 ** 64 - 1
    t = CONN_NOW
    opts = [((), ()), (((b'force-command', s('x')),), ()), (((b'unknown-critical@example.com', s('v')),), ()),
            ((), ((b'foo@example.com', s('bar')),))]
    out = []
    for use in (1, 2):
        name = 'user' if use == 1 else 'h.example'
        for ctype in (1, 2):
            for after, before in ((0, far), (0, t), (t, far), (t + 1, far), (t - 5, t), (t, t + 1)):
                for principals in ((), (name,), ('other',), ('other', name)):
                    for opt in opts:
                        for trust in ('file', 'callback', 'none'):
                            out.append((use, ctype, after, before, principals, opt, trust))
    return out


def conn_present(use, ctype, after, before, principals, opt, trust):
    """A peer proves possession of the subject key and presents a hand-built certificate; the endpoint
    under test trusts the CA through its trust file, through the application callback, or not at all."""
    import refpeer as R
    import rpharness as H
    ca = P.key('c16-ca')
    subj = P.key('c16-subj')
    critical, extensions = opt
    blob = build_cert(ca, subj, ctype, principals, after, before, critical, extensions)
    ca_line = ca.export_public_key('openssh').decode()
    if use == 2:
        class Cl(P.RecClient):
            def validate_host_ca_key(self, host, addr, port, key):
                return trust == 'callback'
        kh = ('@cert-authority * ' + ca_line) if trust == 'file' else ''
        w = H.CliWorld(copts=dict(known_hosts=kh.encode(), host='h.example', port=22, client_factory=Cl))
        try:
            rp = w.rp
            rp.fake_hostkey_blob = blob
            rp.hostkey = raw_ed25519(subj)
            rp.hostkey_algs = ['ssh-ed25519-cert-v01@openssh.com']
            w.start()
            w.flush()
            wt = w.copt.waiter
            ok = bool(wt.done() and not wt.cancelled() and wt.exception() is None)
            sent_auth = R.MSG_USERAUTH_REQUEST in rp.types()
            exc = w.loop.unretrieved()
            return ok or sent_auth, (repr(wt.exception())[:120] if wt.done() and not wt.cancelled() else 'pending'), exc
        finally:
            w.close()
    else:
        class Srv(P.RecServer):
            def validate_ca_key(self, username, key):
                return trust == 'callback'
        env = {}
        holder = {}

        def mk():
            holder['o'] = Srv(env)
            return holder['o']
        ak = asyncssh.import_authorized_keys(('cert-authority ' + ca_line + '\n') if trust == 'file' else '')
        w = H.SrvWorld(env=env, sopts=dict(server_factory=mk, authorized_client_keys=ak))
        try:
            rp = w.rp
            w.kex()
            rp.send(rp.service_request())
            w.flush()
            body = R.boolean(True) + R.string('ssh-ed25519-cert-v01@openssh.com') + R.string(blob)
            signed = R.string(rp.session_id) + R.byte(R.MSG_USERAUTH_REQUEST) + R.string('user') + \
                R.string('ssh-connection') + R.string('publickey') + body
            sig = raw_ed25519(subj).sign(signed)
            rp.send(rp.userauth_request('user', 'publickey', body + R.string(R.string('ssh-ed25519') + R.string(sig))))
            w.flush()
            ok = R.MSG_USERAUTH_SUCCESS in rp.types()
            return ok, 'types=%r' % (rp.types()[-3:],), w.loop.unretrieved()
        finally:
            w.close()


def conn_worker(job):
    acc = core.Acc()
    for case in job:
        use, ctype, after, before, principals, opt, trust = case
        want = trust != 'none' and cert_predicate(ctype, use, after, before, CONN_NOW, principals,
                                                  'user' if use == 1 else 'h.example', opt[0])
        try:
            got, how, exc = conn_present(*case)
        except Exception as e:              # pylint: disable=broad-except
            got, how, exc = None, repr(e), []
        acc.add(core.digest(('conn', case, got)), transitions=1,
                sample={'presented_as': 'user' if use == 1 else 'host', 'cert_type': ctype, 'window': [after, before],
                        'principals': list(principals), 'ca_trusted_via': trust, 'accepted': got}
                if trust == 'callback' and got and principals else None)
        acc.count('conn-accepted' if got else 'conn-rejected')
        label = '%s:%s' % ('user' if use == 1 else 'host', trust)
        rep = {'kind': 'conn', 'case': [use, ctype, after, before, list(principals),
                                        [[[a.decode(), b.hex()] for a, b in opt[0]], [[a.decode(), b.hex()] for a, b in opt[1]]], trust]}
        if got is None:
            acc.violation('cert:connection-harness-error:%s' % label, how, rep)
        elif got and not want:
            acc.violation('cert:accepted-but-invalid:connection:%s' % label,
                          'type=%d presented as %s, window=[%d,%d) now=%d principals=%r critical=%r CA trusted via %s: accepted (%s)'
                          % (ctype, 'user' if use == 1 else 'host', after, before, CONN_NOW, principals, opt[0], trust, how), rep)
        elif want and not got:
            acc.violation('cert:valid-but-rejected:connection:%s' % label,
                          'type=%d window=[%d,%d) principals=%r critical=%r CA trusted via %s: rejected (%s)'
                          % (ctype, after, before, principals, opt[0], trust, how), rep)
        if exc:
            acc.violation('cert:loop-exception:connection', repr(exc[0].get('exception'))[:200], rep)
    return acc


def rekey_cases():
    out = []
    for lifetime in (50, 10 ** 9):
        for initiator in ('client', 'server'):
            for trust in ('file', 'callback'):
                for waits in (1, 2):
                    out.append((lifetime, initiator, trust, waits))
    return out


def rekey_run(lifetime, initiator, trust, waits):
    """a host certificate that is valid at connect time and (lifetime=50) expires before the first
    re-exchange, which happens 60 virtual seconds later: the certificate is presented again and must be
    judged against the clock again -- the connection ends with a host key error instead of re-keying"""
    ca = P.key('c16-ca')
    subj = P.key('c16-subj')
    loop = P.fresh(0)
    try:
        cert = ca.generate_host_certificate(subj, 'h', principals=['h.example'], valid_after=CONN_NOW - 10,
                                            valid_before=CONN_NOW + lifetime)

        class Cl(P.RecClient):
            def validate_host_ca_key(self, host, addr, port, key):
                return trust == 'callback'
        holder = {}

        def mk():
            holder['o'] = Cl()
            return holder['o']
        kh = ('@cert-authority * ' + ca.export_public_key('openssh').decode()) if trust == 'file' else ''
        so = dict(server_host_keys=[(subj, cert)])
        co = dict(known_hosts=kh.encode(), host='h.example', client_factory=mk)
        (co if initiator == 'client' else so)['rekey_seconds'] = 60
        pair = P.Pair(loop, sopts=so, copts=co)
        pair.handshake()
        first = pair.c._session_id
        kex0 = 0
        for _ in range(waits):
            # the time limit is looked at when a packet is sent: let 61 s pass, then make both sides talk
            loop.advance(to=loop.time() + 61)
            t = loop.create_task(pair.c.open_session('x', encoding=None))
            loop.flush_all()
            if t.done() and not t.cancelled():
                t.exception()           # the harness's own probe: its outcome is judged through the connection
        owner = holder.get('o')
        lost = type(owner.lost_exc).__name__ if owner is not None and owner.lost else None
        up = pair.c._transport is not None
        rekeyed = any(c.label == 21 for c in pair.ct.writes[1:] if False) or sum(1 for c in pair.ct.writes if c.label == 21)
        return {'up': up, 'lost': lost, 'newkeys_sent_by_client': rekeyed, 'exc': loop.unretrieved()}
    finally:
        P.done(loop)


def rekey_worker(job):
    acc = core.Acc()
    for case in job:
        lifetime, initiator, trust, waits = case
        try:
            obs = rekey_run(*case)
        except Exception as exc:            # pylint: disable=broad-except
            acc.violation('cert:connection-harness-error:rekey', repr(exc), {'kind': 'rekey', 'case': list(case)})
            continue
        acc.add(core.digest(('rekey', case, obs['up'], obs['lost'])), transitions=2,
                sample={'certificate_lifetime_s': lifetime, 're-exchange_by': initiator, 'after_s': 60 * waits, 'connection_up': obs['up'],
                        'client_error': obs['lost']} if lifetime == 50 and waits == 1 else None)
        if lifetime == 50:
            if obs['up'] or obs['lost'] not in ('HostKeyNotVerifiable', 'KeyExchangeFailed'):
                acc.violation('cert:expired-certificate-accepted-at-re-exchange:%s:%s' % (initiator, trust),
                              'host certificate expired %d s before the re-exchange started by the %s; connection up=%s, client saw %s, NEWKEYS sent by client: %d'
                              % (60 * waits - 50, initiator, obs['up'], obs['lost'], obs['newkeys_sent_by_client']), {'kind': 'rekey', 'case': list(case)})
        else:
            if not obs['up'] or obs['newkeys_sent_by_client'] < 2:
                acc.violation('cert:valid-certificate-rejected-at-re-exchange:%s:%s' % (initiator, trust),
                              'connection up=%s, client saw %s, NEWKEYS sent by client: %d' % (obs['up'], obs['lost'], obs['newkeys_sent_by_client']),
                              {'kind': 'rekey', 'case': list(case)})
        if obs['exc']:
            acc.violation('cert:loop-exception:rekey', repr(obs['exc'][0].get('exception'))[:200], {'kind': 'rekey', 'case': list(case)})
    return acc


def cert_edit_worker(job):
    ca_alg, kw, ctype, tier = job
    acc = core.Acc()
    try:
        ca = P.key('c16-ca-' + ca_alg, ca_alg, **kw)
    except Exception as exc:        # pylint: disable=broad-except
        acc.notes.append('CA type %s unavailable: %r' % (ca_alg, exc))
        return acc
    subj = P.key('c16-subj')
    set_now(NOW)
    try:
        if ctype == 'user':
            cert = ca.generate_user_certificate(subj, 'kid', principals=['p', 'q'], force_command='cmd',
                                                permit_pty=False, valid_after=NOW - 100, valid_before=NOW + 100)
            use, who = CERT_TYPE_USER, 'p'
        else:
            cert = ca.generate_host_certificate(subj, 'hid', principals=['h'], valid_after=NOW - 100, valid_before=NOW + 100)
            use, who = CERT_TYPE_HOST, 'h'
        blob = cert.public_data
        try:
            c0 = decode_ssh_certificate(blob)
            c0.validate(use, who)
        except Exception as exc:        # pylint: disable=broad-except
            acc.violation('cert:valid-but-rejected:%s' % ctype, 'freshly generated certificate rejected: %r' % (exc,),
                          {'kind': 'certedit'})
            return acc
        n = 0
        stride = 1 if (tier == 'thorough' or len(blob) < 600) else 2
        for elab, b2 in edits(blob, tier, stride):
            n += 1
            try:
                c = decode_ssh_certificate(b2)
                c.validate(use, who)
                same = (c.key.public_data == c0.key.public_data and c.principals == c0.principals and
                        c.options == c0.options and c.signing_key.public_data == c0.signing_key.public_data)
                acc.violation('cert:altered-certificate-accepted:%s' % ctype,
                              'CA %s: edit %s of the certificate blob imports and validates (content unchanged=%s)'
                              % (ca_alg, elab, same), {'kind': 'certedit', 'ca': ca_alg, 'ctype': ctype, 'edit': elab})
            except (asyncssh.KeyImportError, ValueError):
                pass
            except Exception as exc:        # pylint: disable=broad-except
                acc.violation('cert:import-raised:%s' % ctype, 'edit %s raised %r' % (elab, exc),
                              {'kind': 'certedit', 'ca': ca_alg, 'ctype': ctype, 'edit': elab})
        acc.add(core.digest((ca_alg, ctype, n)), transitions=n, sample={'ca': ca_alg, 'cert': ctype, 'edits_tried': n})
    finally:
        determ.unbind()
    return acc


def keygen_cross():
    """certificates made by ssh-keygen -s are read identically; asyncssh certificates are printed by ssh-keygen -L"""
    acc = core.Acc()
    if not SSH_KEYGEN:
        acc.notes.append('ssh-keygen not available')
        return acc
    tmp = os.path.join(SCRATCH, 'kg-%d' % os.getpid())
    shutil.rmtree(tmp, ignore_errors=True)
    os.makedirs(tmp)
    ca = P.key('c16-ca')
    subj = P.key('c16-subj')
    with open(os.path.join(tmp, 'ca'), 'wb') as f:
        f.write(ca.export_private_key('openssh'))
    os.chmod(os.path.join(tmp, 'ca'), 0o600)
    with open(os.path.join(tmp, 'subj.pub'), 'wb') as f:
        f.write(subj.export_public_key('openssh'))
    variants = [([], {}), (['-h'], {}), (['-n', 'alice,bob'], {'principals': ['alice', 'bob']}),
                (['-O', 'force-command=/bin/true', '-n', 'a'], {'force-command': '/bin/true'}),
                (['-O', 'source-address=10.0.0.0/8,192.168.1.1/32', '-n', 'a'], {}),
                (['-O', 'no-pty', '-O', 'no-port-forwarding', '-n', 'a'], {}),
                (['-O', 'extension:foo@example.com=bar', '-n', 'a'], {}),
                (['-O', 'extension:foo@example.com', '-n', 'a'], {}),
                (['-O', 'critical:bar@example.com=baz', '-n', 'a'], 'reject'),
                (['-V', '20200101:20300101', '-n', 'a'], {}), (['-V', '20200101:20210101', '-n', 'a'], 'expired'),
                (['-z', '77', '-n', 'a'], {})]
    for i, (args, expect) in enumerate(variants):
        out = os.path.join(tmp, 'subj-cert.pub')
        if os.path.exists(out):
            os.unlink(out)
        r = subprocess.run([SSH_KEYGEN, '-q', '-s', os.path.join(tmp, 'ca'), '-I', 'kid%d' % i] + args +
                           [os.path.join(tmp, 'subj.pub')], capture_output=True)
        acc.add(core.digest(('keygen-s', tuple(args))), transitions=1, sample={'ssh-keygen -s': args} if i == 6 else None)
        if r.returncode != 0:
            acc.notes.append('ssh-keygen -s %r failed: %s' % (args, r.stderr[:100]))
            continue
        data = open(out, 'rb').read()
        set_now(time.mktime((2025, 6, 1, 0, 0, 0, 0, 0, -1)))
        try:
            try:
                cert = asyncssh.import_certificate(data)
                host = '-h' in args
                cert.validate(CERT_TYPE_HOST if host else CERT_TYPE_USER, 'a' if '-n' in args and 'alice' not in str(args) else
                              ('alice' if 'alice' in str(args) else None))
                ok = True
                err = None
            except (asyncssh.KeyImportError, ValueError) as exc:
                ok, err = False, repr(exc)
            if expect in ('reject', 'expired'):
                if ok:
                    acc.violation('cert:accepted-but-invalid:ssh-keygen', 'ssh-keygen -s %r accepted (%s)' % (args, expect),
                                  {'kind': 'keygen'})
            else:
                if not ok:
                    acc.violation('cert:valid-but-rejected:ssh-keygen', 'ssh-keygen -s %r rejected: %s' % (args, err), {'kind': 'keygen'})
                else:
                    if cert.key.public_data != subj.public_data or cert.signing_key.public_data != ca.public_data:
                        acc.violation('cert:read-differently:ssh-keygen', repr(args), {'kind': 'keygen'})
                    for k, v in expect.items():
                        got = cert.principals if k == 'principals' else cert.options.get(k)
                        if got != v:
                            acc.violation('cert:read-differently:ssh-keygen', '%s: %r vs %r' % (k, got, v), {'kind': 'keygen'})
        finally:
            determ.unbind()
    # asyncssh-generated certificates printed by ssh-keygen -L
    for kind in ('user', 'host'):
        if kind == 'user':
            c = ca.generate_user_certificate(subj, 'my id', principals=['u1', 'u2'], force_command='run',
                                             source_address=['10.1.0.0/16'], permit_x11_forwarding=False, serial=42)
        else:
            c = ca.generate_host_certificate(subj, 'host id', principals=['h.example'], serial=43)
        pth = os.path.join(tmp, 'a-%s-cert.pub' % kind)
        with open(pth, 'wb') as f:
            f.write(c.export_certificate('openssh'))
        r = subprocess.run([SSH_KEYGEN, '-L', '-f', pth], capture_output=True, text=True)
        acc.add(core.digest(('keygen-L', kind)), transitions=1)
        if r.returncode != 0:
            acc.violation('cert:ssh-keygen-cannot-read:%s' % kind, r.stderr[:200], {'kind': 'keygen'})
            continue
        out = r.stdout
        checks = ['Type: ssh-ed25519-cert-v01@openssh.com %s certificate' % kind, 'Serial: %d' % (42 if kind == 'user' else 43),
                  'Key ID: "%s"' % ('my id' if kind == 'user' else 'host id'), ca.get_fingerprint(), subj.get_fingerprint()]
        checks += ['u1', 'u2', 'force-command run', 'source-address 10.1.0.0/16', 'permit-pty'] if kind == 'user' else ['h.example']
        for ctext in checks:
            if ctext not in out:
                acc.violation('cert:ssh-keygen-prints-differently:%s' % kind, 'missing %r in: %s' % (ctext, out[:400]), {'kind': 'keygen'})
        if kind == 'user' and 'permit-X11-forwarding' in out:
            acc.violation('cert:ssh-keygen-prints-differently:user', 'permit-X11-forwarding present although disabled', {'kind': 'keygen'})
    shutil.rmtree(tmp, ignore_errors=True)
    return acc


# ------------------------------------------------------------------ SSHSIG
def ymd(t):
    return time.strftime('%Y%m%d%H%M%SZ', time.gmtime(t))


def sshsig_worker(job):
    tier = job
    acc = core.Acc()
    key = P.key('c16-sigkey')
    other = P.key('c16-sigkey2')
    ca = P.key('c16-ca')
    pub = key.export_public_key('openssh').decode().strip()
    opub = other.export_public_key('openssh').decode().strip()
    capub = ca.export_public_key('openssh').decode().strip()
    msg = b'the message'
    sig = asyncssh.create_sshsig(key, msg, namespace='file')
    cert = ca.generate_user_certificate(key, 'cid', principals=['alice'], valid_after=NOW - 50, valid_before=NOW + 50)
    csig = asyncssh.create_sshsig(asyncssh.load_keypairs([(key, cert)]), msg, namespace='file')
    t = NOW
    lines = {
        'plain': ('alice ' + pub, lambda now, ns, who, m: who == 'alice'),
        'other-key': ('alice ' + opub, lambda now, ns, who, m: False),
        'pattern': ('*@example.com,alice ' + pub, lambda now, ns, who, m: who in ('alice', 'bob@example.com')),
        'negated': ('!alice,* ' + pub, lambda now, ns, who, m: who != 'alice'),
        'ns-match': ('alice namespaces="file" ' + pub, lambda now, ns, who, m: who == 'alice' and ns == 'file'),
        'ns-other': ('alice namespaces="git" ' + pub, lambda now, ns, who, m: who == 'alice' and ns == 'git'),
        'ns-pattern': ('alice namespaces="f*,git" ' + pub, lambda now, ns, who, m: who == 'alice' and (ns.startswith('f') or ns == 'git')),
        'after': ('alice valid-after="%s" ' % ymd(t) + pub, lambda now, ns, who, m: who == 'alice' and now >= t),
        'before': ('alice valid-before="%s" ' % ymd(t) + pub, lambda now, ns, who, m: who == 'alice' and now < t),
        'window-open': ('alice valid-after="%s",valid-before="%s" ' % (ymd(t - 10), ymd(t + 10)) + pub,
                        lambda now, ns, who, m: who == 'alice' and t - 10 <= now < t + 10),
        'window-closed': ('alice valid-after="%s",valid-before="%s" ' % (ymd(t - 20), ymd(t - 10)) + pub,
                          lambda now, ns, who, m: who == 'alice' and t - 20 <= now < t - 10),
        'window-rev': ('alice valid-before="%s",valid-after="%s" ' % (ymd(t - 10), ymd(t - 20)) + pub,
                       lambda now, ns, who, m: who == 'alice' and t - 20 <= now < t - 10),
        'window+ns': ('alice namespaces="file",valid-after="%s",valid-before="%s" ' % (ymd(t - 20), ymd(t - 10)) + pub,
                      lambda now, ns, who, m: who == 'alice' and ns == 'file' and t - 20 <= now < t - 10),
    }
    for lname, (line, pred) in lines.items():
        for now in (t - 30, t - 15, t - 1, t, t + 5, t + 20):
            for who in ('alice', 'bob@example.com', 'mallory'):
                for m, ns_sig in ((msg, sig),):
                    set_now(now)
                    try:
                        got = asyncssh.validate_sshsig(m, ns_sig, who, line.encode())
                    except Exception as exc:        # pylint: disable=broad-except
                        got = 'raised %r' % (exc,)
                    finally:
                        determ.unbind()
                    want = pred(now, 'file', who, m)
                    acc.add(core.digest(('sshsig', lname, now - t, who, got)), transitions=1,
                            sample={'allowed_signers': line[:80], 'now-t': now - t, 'principal': who, 'valid': got}
                            if lname == 'window-closed' and who == 'alice' and now == t else None)
                    if got != want:
                        acc.violation('sshsig:%s:%s' % ('accepted-but-invalid' if got is True else 'valid-but-rejected'
                                                        if got is False else 'raised', lname),
                                      'line %r now=t%+d principal=%s: asyncssh %r, expected %r' % (line[:100], now - t, who, got, want),
                                      {'kind': 'sshsig'})
    # other message / namespace / signer binding
    set_now(t)
    try:
        base_line = ('alice ' + pub).encode()
        if asyncssh.validate_sshsig(b'another message', sig, 'alice', base_line):
            acc.violation('sshsig:accepted-but-invalid:other-message', 'signature valid for a different message', {'kind': 'sshsig'})
        sig_git = asyncssh.create_sshsig(key, msg, namespace='git')
        if asyncssh.validate_sshsig(msg, sig_git, 'alice', ('alice namespaces="file" ' + pub).encode()):
            acc.violation('sshsig:accepted-but-invalid:other-namespace', 'signature for namespace git accepted for file', {'kind': 'sshsig'})
        # certificate signer through a cert-authority line
        for lname, line, want in (('ca', 'alice cert-authority ' + capub, True), ('ca-other-principal', 'bob cert-authority ' + capub, False),
                                  ('ca-line-without-flag', 'alice ' + capub, False), ('ca-wrong', 'alice cert-authority ' + opub, False)):
            got = asyncssh.validate_sshsig(msg, csig, 'alice', line.encode())
            acc.add(core.digest(('sshsig-cert', lname, got)), transitions=1)
            if got != want:
                acc.violation('sshsig:%s:%s' % ('accepted-but-invalid' if got else 'valid-but-rejected', lname),
                              'certificate signature with line %r: %r' % (line[:60], got), {'kind': 'sshsig'})
        for now, want in ((t - 60, False), (t + 60, False), (t, True)):
            set_now(now)
            got = asyncssh.validate_sshsig(msg, csig, 'alice', ('alice cert-authority ' + capub).encode())
            if got != want:
                acc.violation('sshsig:cert-window', 'now=t%+d: %r' % (now - t, got), {'kind': 'sshsig'})
        set_now(t)
        # single-byte edits of the armoured and the raw signature
        raw = base64.b64decode(b''.join(sig.split(b'\n')[1:-2]) if sig.endswith(b'\n') else b''.join(sig.split(b'\n')[1:-1]))
        n = 0
        for form, blob in (('raw', raw), ('armoured', sig)):
            for elab, b2 in edits(blob, tier, 1):
                n += 1
                try:
                    got = asyncssh.validate_sshsig(msg, b2, 'alice', base_line)
                except Exception as exc:        # pylint: disable=broad-except
                    acc.violation('sshsig:raised:edit', '%s edit %s raised %r' % (form, elab, exc), {'kind': 'sshsig'})
                    continue
                if got:
                    # an armour edit may decode to the identical signature (whitespace / padding): that is fine
                    try:
                        lines_ = b2.split(b'\n')
                        same = form == 'armoured' and base64.b64decode(b''.join(x for x in lines_ if not x.startswith(b'-----'))) == raw
                    except Exception:       # pylint: disable=broad-except
                        same = False
                    if not same:
                        acc.violation('sshsig:altered-signature-accepted:%s' % form, 'edit %s still validates' % elab, {'kind': 'sshsig'})
        acc.add(core.digest(('sshsig-edits', n)), transitions=n, sample={'sshsig_edits_tried': n})
    finally:
        determ.unbind()
    # ssh-keygen -Y cross-check
    if SSH_KEYGEN:
        tmp = os.path.join(SCRATCH, 'sig-%d' % os.getpid())
        shutil.rmtree(tmp, ignore_errors=True)
        os.makedirs(tmp)
        with open(os.path.join(tmp, 'k'), 'wb') as f:
            f.write(key.export_private_key('openssh'))
        os.chmod(os.path.join(tmp, 'k'), 0o600)
        with open(os.path.join(tmp, 'msg'), 'wb') as f:
            f.write(msg)
        with open(os.path.join(tmp, 'allowed'), 'w') as f:
            f.write('alice namespaces="file" ' + pub + '\n')
        r = subprocess.run([SSH_KEYGEN, '-q', '-Y', 'sign', '-f', os.path.join(tmp, 'k'), '-n', 'file', os.path.join(tmp, 'msg')],
                           capture_output=True)
        acc.add(core.digest('keygen-Y-sign'), transitions=1)
        if r.returncode == 0:
            ksig = open(os.path.join(tmp, 'msg.sig'), 'rb').read()
            if not asyncssh.validate_sshsig(msg, ksig, 'alice', ('alice namespaces="file" ' + pub).encode()):
                acc.violation('sshsig:valid-but-rejected:ssh-keygen-sign', 'signature made by ssh-keygen -Y sign rejected', {'kind': 'sshsig'})
            if asyncssh.validate_sshsig(msg, ksig, 'alice', ('alice namespaces="git" ' + pub).encode()):
                acc.violation('sshsig:accepted-but-invalid:ssh-keygen-sign', 'wrong namespace accepted', {'kind': 'sshsig'})
        with open(os.path.join(tmp, 'a.sig'), 'wb') as f:
            f.write(sig)
        r = subprocess.run([SSH_KEYGEN, '-Y', 'verify', '-f', os.path.join(tmp, 'allowed'), '-I', 'alice', '-n', 'file',
                            '-s', os.path.join(tmp, 'a.sig')], input=msg, capture_output=True)
        acc.add(core.digest('keygen-Y-verify'), transitions=1)
        if r.returncode != 0:
            acc.violation('sshsig:ssh-keygen-rejects-asyncssh-signature', (r.stdout + r.stderr).decode('latin1')[:200], {'kind': 'sshsig'})
        shutil.rmtree(tmp, ignore_errors=True)
    return acc


def hostcert_auth_worker(job):
    """Host certificates presented for host-based authentication (checks/c05.py's harness, the histories whose
    credentials are certificates): a certificate is accepted only for a host its principals name -- the host the
    request is judged as (claimed name when the server trusts it, else the name the address resolves to)."""
    import c05
    acc = core.Acc()
    for trust, hist in job:
        viol = c05.hb_run(trust, hist)
        acc.add(core.digest(('hostcert-auth', trust, hist)), transitions=len(hist))
        for k, d in viol:
            acc.violation('cert:hostbased:%s:trust=%s' % (k, trust), d,
                          {'kind': 'hostcert-auth', 'trust': trust, 'hist': [list(r[:3]) + [list(r[3]) if isinstance(r[3], tuple) else r[3], r[4]] for r in hist]})
    return acc


def hostcert_auth_jobs(tier):
    import c05
    cases = [(t, h) for chunk in c05.hb_jobs(tier) for t, h in chunk if any(isinstance(r[3], tuple) for r in h)]
    return [cases[i::16] for i in range(16)]


def main(tier, seed):
    t0 = core.now()
    os.makedirs(SCRATCH, exist_ok=True)
    acc = core.pmap(sig_worker, core.rotate([(a, k, tier) for a, k in KEYTYPES], seed))
    n_sig = acc.evaluations
    grid = cert_grid(tier)
    acc.merge(core.pmap(cert_grid_worker, [grid[i::32] for i in range(32)]))
    ej = [(a, k, c, tier) for a, k in KEYTYPES for c in ('user', 'host')]
    acc.merge(core.pmap(cert_edit_worker, core.rotate(ej, seed)))
    acc.merge(keygen_cross())
    cc = conn_cases()
    acc.merge(core.pmap(conn_worker, [cc[i::32] for i in range(32)]))
    P.install_wire_labels()
    acc.merge(core.pmap(rekey_worker, [rekey_cases()[i::8] for i in range(8)]))
    acc.merge(core.pmap(sshsig_worker, [tier]))
    acc.merge(core.pmap(hostcert_auth_worker, hostcert_auth_jobs(tier)))
    shutil.rmtree(SCRATCH, ignore_errors=True)
    rule = ('signatures: 7 key types x all their signature algorithms x 3 messages x every single-byte edit of the '
            'signature (xor 01/80 at every offset, deletions, insertions), message edits, 11 algorithm relabels, '
            'another key; certificates: every single-byte edit of user and host certificates from 7 CA key types; '
            'acceptance grid (%d hand-built certificates: type x use x validity window x now x principals x wanted '
            'x critical/extension sets); the same kind of certificate presented on a live connection as host or user '
            'credential with the CA trusted by file, by application callback or not at all; a host certificate that '
            'expires between connect and the first re-exchange (started by either side); ssh-keygen -s / -L; SSHSIG: 13 allowed-signers forms x 6 clock values x 3 '
            'principals, binding to message/namespace/CA, every single-byte edit of raw and armoured signatures, '
            'ssh-keygen -Y sign/verify; host certificates in host-based authentication: sequences of 1-2 requests (claimed host x credential), '
            'server trusting the claimed name or resolving the address' % len(grid))
    return core.finish(PROP, tier, seed, 'exploration', acc, t0, rule,
                       {'signature_cases': n_sig, 'cert_grid': len(grid)},
                       assumptions=['the certificate predicate follows PROTOCOL.certkeys: type, window '
                                    '[after, before), principals (empty = any), unknown critical options refuse; '
                                    'unknown extensions are ignored'])


def replay(rep):
    os.makedirs(SCRATCH, exist_ok=True)
    r = rep['replay']
    k = r['kind']
    if k == 'sig':
        acc = sig_worker((r['alg'], dict(KEYTYPES)[r['alg']], 'thorough'))
    elif k == 'certgrid':
        c = r['case']
        case = (c[0], c[1], c[2], c[3], c[4], tuple(c[5]), c[6],
                (tuple((a.encode(), bytes.fromhex(b)) for a, b in c[7]), tuple((a.encode(), bytes.fromhex(b)) for a, b in c[8])))
        acc = cert_grid_worker([case])
    elif k == 'certedit':
        acc = cert_edit_worker((r.get('ca', 'ssh-ed25519'), dict(KEYTYPES)[r.get('ca', 'ssh-ed25519')], r.get('ctype', 'user'), 'thorough'))
    elif k == 'conn':
        c = r['case']
        opt = (tuple((a.encode(), bytes.fromhex(b)) for a, b in c[5][0]), tuple((a.encode(), bytes.fromhex(b)) for a, b in c[5][1]))
        acc = conn_worker([(c[0], c[1], c[2], c[3], tuple(c[4]), opt, c[6])])
    elif k == 'rekey':
        P.install_wire_labels()
        acc = rekey_worker([tuple(r['case'])])
    elif k == 'hostcert-auth':
        hist = tuple((h[0], h[1], h[2], tuple([h[3][0], h[3][1], tuple(h[3][2])]) if isinstance(h[3], list) else h[3], h[4]) for h in r['hist'])
        acc = hostcert_auth_worker([(r['trust'], hist)])
    elif k == 'keygen':
        acc = keygen_cross()
    else:
        acc = sshsig_worker('thorough')
    print(json.dumps(acc.violations[:5], indent=1, default=repr))
    if acc.violations:
        print('VIOLATION property=%s replay=(given)' % PROP)
        return 1
    return 0
