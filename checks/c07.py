"""C07  Channel data arrives complete, in order, once, with EOF last.

Explicit-state BFS over operation/event histories of a real client <-> real
server pair on the virtual loop.  See DESIGN.md section 2 (C07).
"""

import itertools
import json

import asyncssh

import core
import pair as P
from vloop import EOF, Livelock

PROP = 'C07'
STDERR = asyncssh.EXTENDED_DATA_STDERR

TEXT_ALPHABET = 'aé€\U0001d11e'      # 1,2,3,4 bytes in utf-8


def gen(stream_id, pos, n, text):
    """Deterministic content of positions pos..pos+n-1 of a stream"""
    if text:
        return ''.join(TEXT_ALPHABET[(p + stream_id) % 4] for p in range(pos, pos + n))
    return bytes(((p * 7 + stream_id * 53 + (p >> 8)) % 251) for p in range(pos, pos + n))


class World:
    def __init__(self, cfg, seed=0):
        self.cfg = cfg
        win, pkt, enc, nchan = cfg['win'], cfg['pkt'], cfg['enc'], cfg['nchan']
        self.text = bool(enc)
        self.loop = P.fresh(seed)
        P.install_wire_labels()
        self.env = {'session_factory': lambda: P.RecSession('srv')}
        rk = dict(rekey_bytes=cfg['rekey']) if cfg.get('rekey') else {}
        self.pair = P.Pair(self.loop, sopts=dict(window=win, max_pktsize=pkt,
                                                 encoding=enc or None, **rk),
                           copts=dict(encryption_algs=[cfg.get('cipher', 'aes128-gcm@openssh.com')], **rk),
                           env=self.env)
        self.cs, self.ss = [], []
        self.cch, self.sch = [], []
        self.written = {}
        self.eofw = set()
        self.ntrans = 0

    def opened(self):
        cfg = self.cfg
        win, pkt, enc, nchan = cfg['win'], cfg['pkt'], cfg['enc'], cfg['nchan']
        self.pair.handshake()
        for i in range(nchan):
            chan, sess = self.pair.run(self.pair.c.create_session(
                lambda: P.RecSession('cli'), encoding=enc or None, window=win,
                max_pktsize=pkt))
            self.cch.append(chan)
            self.cs.append(sess)
        self.ss = self.env['server_sessions']
        self.sch = [s.chan for s in self.ss]
        assert len(self.sch) == nchan

    def close(self):
        P.done(self.loop)

    # -- events -----------------------------------------------------------
    def stream_id(self, side, ch, dt):
        return (0 if side == 'c' else 1) * 8 + ch * 2 + (1 if dt else 0)

    def apply(self, ev):
        k = ev[0]
        self.ntrans += 1
        if k == 'w':
            _, side, ch, dt, n = ev
            chan = (self.cch if side == 'c' else self.sch)[ch]
            key = (side, ch, dt)
            pos = self.written.get(key, 0)
            data = gen(self.stream_id(side, ch, dt), pos, n, self.text)
            if dt:
                chan.write(data, STDERR)
            else:
                chan.write(data)
            self.written[key] = pos + n
        elif k == 'wl':
            _, side, ch, n = ev
            chan = (self.cch if side == 'c' else self.sch)[ch]
            key = (side, ch, 0)
            pos = self.written.get(key, 0)
            data = gen(self.stream_id(side, ch, 0), pos, n, self.text)
            chan.writelines([data[:1], data[1:n // 2], data[n // 2:]])
            self.written[key] = pos + n
        elif k == 'eof':
            _, side, ch = ev
            (self.cch if side == 'c' else self.sch)[ch].write_eof()
            self.eofw.add((side, ch))
        elif k == 'pause':
            _, side, ch = ev
            (self.cch if side == 'c' else self.sch)[ch].pause_reading()
        elif k == 'resume':
            _, side, ch = ev
            (self.cch if side == 'c' else self.sch)[ch].resume_reading()
        elif k == 'd':
            t = self.pair.st if ev[1] == 'cs' else self.pair.ct
            P.deliver_packet(self.loop, t)
        elif k == 'dbyte':
            t = self.pair.st if ev[1] == 'cs' else self.pair.ct
            self.loop.deliver(t, nbytes=ev[2])
        else:
            raise ValueError(ev)
        self.loop.quiesce()

    def enabled(self):
        cfg = self.cfg
        evs = []
        for side, chans in (('c', self.cch), ('s', self.sch)):
            for ch, chan in enumerate(chans):
                if chan._send_state == 'open':
                    dts = (0,) if side == 'c' else (0, 1)
                    for dt in dts:
                        if self.written.get((side, ch, dt), 0) < cfg['maxbytes']:
                            nw = self.nwrites.get((side, ch, dt), 0)
                            if nw < cfg['maxwrites']:
                                for n in cfg['sizes']:
                                    evs.append(('w', side, ch, dt, n))
                    if cfg.get('writelines') and self.nwrites.get((side, ch, 0), 0) < cfg['maxwrites']:
                        evs.append(('wl', side, ch, cfg['sizes'][-1]))
                    evs.append(('eof', side, ch))
                if cfg.get('pause', True):
                    if chan._recv_paused:
                        evs.append(('resume', side, ch))
                    elif chan._recv_state == 'open':
                        evs.append(('pause', side, ch))
        if self._has_data(self.pair.st):
            evs.append(('d', 'cs'))
            if cfg.get('bytewise'):
                evs.append(('dbyte', 'cs', cfg['bytewise']))
        if self._has_data(self.pair.ct):
            evs.append(('d', 'sc'))
            if cfg.get('bytewise'):
                evs.append(('dbyte', 'sc', cfg['bytewise']))
        return evs

    def _has_data(self, t):
        return bool(t.peer.outq) and not t.lost and not t.closing

    # -- observation ------------------------------------------------------
    def canon(self):
        out = []
        for side, chans, sess in (('c', self.cch, self.cs), ('s', self.sch, self.ss)):
            for ch, chan in enumerate(chans):
                s = sess[ch]
                out.append((chan._send_state, chan._recv_state, chan._send_window,
                            chan._recv_window, chan._send_buf_len,
                            tuple((len(d), t) for d, t in chan._send_buf),
                            tuple((len(d), t) for d, t in chan._recv_buf),
                            bool(chan._recv_paused),
                            tuple(sorted((k or 0, len(s.got(k))) for k in s.data)),
                            s.eof, s.lost))
        wire = []
        for t in (self.pair.st, self.pair.ct):
            wire.append((tuple((c.label, len(c)) if c is not EOF else 'EOF'
                               for c in t.peer.outq if c is EOF or c.label != 2),
                         len(self.pair.s._inpbuf) if t is self.pair.st else len(self.pair.c._inpbuf)))
        wr = tuple(sorted(self.written.items())), tuple(sorted(self.eofw)), \
            tuple(sorted(self.nwrites.items()))
        return (tuple(out), tuple(wire), wr)

    def check_prefix(self, final=False):
        """Safety oracle; with final=True also completeness and EOF iff"""
        v = []
        for rside, sess, wside in (('s', self.ss, 'c'), ('c', self.cs, 's')):
            for ch, s in enumerate(sess):
                for dt in (0, 1):
                    if wside == 'c' and dt:
                        if s.data.get(STDERR):
                            v.append(('wrong-datatype', 'server got stderr data'))
                        continue
                    exp = gen(self.stream_id(wside, ch, dt), 0,
                              self.written.get((wside, ch, dt), 0), self.text)
                    got = s.got(STDERR if dt else None)
                    if self.text and not isinstance(got, str) and got == b'':
                        got = ''
                    if final:
                        if got != exp:
                            v.append(('final-mismatch',
                                      '%s ch%d dt%d: delivered %d units, written %d, equal-prefix=%s'
                                      % (rside, ch, dt, len(got), len(exp),
                                         exp[:len(got)] == got)))
                    elif exp[:len(got)] != got:
                        v.append(('not-a-prefix', '%s ch%d dt%d: delivered %r... is not a prefix of what was written'
                                  % (rside, ch, dt, got[:40])))
                for k in s.data:
                    if k not in (None, STDERR):
                        v.append(('wrong-datatype', repr(k)))
                eofw = (wside, ch) in self.eofw
                if s.eof > 1:
                    v.append(('eof-twice', '%s ch%d' % (rside, ch)))
                if s.eof and not eofw:
                    v.append(('eof-not-sent', '%s ch%d' % (rside, ch)))
                if getattr(s, 'after_eof', 0):
                    v.append(('data-after-eof', '%s ch%d' % (rside, ch)))
                if final and eofw and not s.eof:
                    v.append(('eof-lost', '%s ch%d' % (rside, ch)))
                if s.eof and not final:
                    # EOF must come after the last byte of every datatype
                    for dt in ((0,) if wside == 'c' else (0, 1)):
                        exp_n = self.written.get((wside, ch, dt), 0)
                        if len(s.got(STDERR if dt else None)) != exp_n:
                            v.append(('eof-before-data', '%s ch%d dt%d' % (rside, ch, dt)))
                if s.lost:
                    v.append(('channel-closed', '%s ch%d closed unexpectedly: %r'
                              % (rside, ch, s.lost_exc)))
        if self.pair.c._transport is None or self.pair.s._transport is None:
            v.append(('connection-closed', 'client=%r server=%r' % (
                getattr(self.pair.client_owner, 'lost_exc', None),
                getattr(self.pair.server_owner, 'lost_exc', None))))
        if (self.loop.unretrieved() if final else self.loop.exc_log):
            v.append(('loop-exception', repr(self.loop.exc_log[0].get('exception'))))
        return v

    def drain(self):
        # first deliver everything deliverable while paused receivers stay paused
        # (exercises the receive buffer), then resume and finish
        self.loop.flush_all()
        for chans in (self.cch, self.sch):
            for chan in chans:
                if chan._recv_paused:
                    chan.resume_reading()
        self.loop.flush_all()
        return self.check_prefix(final=True)


def run_hist(cfg, hist, seed=0):
    w = World(cfg, seed)
    w.nwrites = {}
    try:
        w.opened()
        for ev in hist:
            ev = tuple(ev)
            w.apply(ev)
            if ev[0] in ('w', 'wl'):
                key = (ev[1], ev[2], ev[3] if ev[0] == 'w' else 0)
                w.nwrites[key] = w.nwrites.get(key, 0) + 1
        return w
    except BaseException:
        w.close()
        raise


def expand(cfg, hist):
    w = run_hist(cfg, hist)
    try:
        evs = w.enabled()
    finally:
        w.close()
    out = []
    for ev in evs:
        w = None
        try:
            w = run_hist(cfg, hist + [ev])
            viols = w.check_prefix()
            canon = w.canon()
            nt = w.ntrans
            viols += w.drain()
        except (Exception, Livelock) as exc:    # a legal API call / delivery raised
            import traceback
            tb = traceback.extract_tb(exc.__traceback__)
            where = '%s:%s' % (tb[-1].name, type(exc).__name__) if tb else type(exc).__name__
            viols = [('api-exception', '%s: %s' % (where, exc))]
            canon, nt = None, len(hist) + 1
        finally:
            if w is not None:
                w.close()
        vs = [('%s:%s' % (cfg['name'], kind), detail) for kind, detail in viols]
        out.append((list(ev), None if viols else canon, vs, nt))
    return out


def configs(tier):
    cfgs = []

    def add(name, win, pkt, enc='', nchan=1, sizes=None, maxwrites=2, **kw):
        sizes = sizes or sorted({1, pkt, pkt + 1, win + 1})
        c = dict(name=name, win=win, pkt=pkt, enc=enc, nchan=nchan, sizes=sizes,
                 maxwrites=maxwrites, maxbytes=kw.pop('maxbytes', 4 * win + 8))
        c.update(kw)
        cfgs.append(c)
    add('w1p1', 1, 1, sizes=[1, 2])
    add('w2p1', 2, 1, sizes=[1, 3])
    add('w4p2', 4, 2, sizes=[1, 3, 5])
    add('w8p8', 8, 8, sizes=[1, 8, 9])
    add('w16p4', 16, 4, sizes=[3, 17])
    add('w4p3-utf8', 4, 3, enc='utf-8', sizes=[1, 2, 3])
    add('w5p3-utf16', 5, 3, enc='utf-16', sizes=[1, 3])
    add('w4p2-2chan', 4, 2, nchan=2, sizes=[3], maxwrites=1, pause=False)
    add('w4p2-2chan-pause', 4, 2, nchan=2, sizes=[5], maxwrites=1)
    add('w6p3-bytewise', 6, 3, sizes=[4], maxwrites=1, bytewise=1, pause=False)
    add('w8p4-writelines', 8, 4, sizes=[9], maxwrites=1, writelines=True, pause=False)
    # key re-exchanges in mid-stream: both sides re-key every 300 bytes, a write queues more than that behind a
    # running exchange (what was queued is sent after NEWKEYS and may start the next exchange at once)
    add('w4096p128-rekey', 4096, 128, sizes=[100, 1500], maxwrites=2, maxbytes=4000, rekey=300, pause=False)
    if tier == 'thorough':
        for c in cfgs:
            # the small configurations go deeper (the state cap still applies)
            if c['name'] in ('w1p1', 'w2p1', 'w6p3-bytewise', 'w8p4-writelines'):
                c['bfs_depth'] = 7
            elif c['name'] in ('w16p4', 'w5p3-utf16', 'w4p2-2chan'):
                c['bfs_depth'] = 6
        add('big', 2 ** 21, 32768, sizes=[1, 32768, 32769, 70000], maxwrites=2,
            maxbytes=300000)
        add('w64p32', 64, 32, sizes=[31, 33, 65, 131])
        add('w3p2-3chan', 3, 2, nchan=3, sizes=[4], maxwrites=1, pause=False)
        add('w4p1-utf8', 4, 1, enc='utf-8', sizes=[1, 2, 5])
    return cfgs


def main(tier, seed):
    t0 = core.now()
    depth = 4 if tier == 'quick' else 5
    max_states = 20000 if tier == 'quick' else 30000
    cfgs = core.rotate(configs(tier), seed)
    acc = core.Acc()
    # determinism self-check: one history executed twice must give one canon
    probe = [['w', 'c', 0, 0, cfgs[0]['sizes'][-1]], ['d', 'cs'], ['eof', 'c', 0]]
    c1 = _canon_of(cfgs[0], probe, seed)
    c2 = _canon_of(cfgs[0], probe, seed)
    if c1 != c2:
        print('HARNESS-NONDETERMINISM: replay of one history gave two states')
        return 2
    core.bfs(expand, cfgs, depth, acc, max_states=max_states)
    import c19
    acc.merge(core.pmap(reader_worker, c19.inband_jobs(tier), chunksize=2))
    acc.merge(core.pmap(mixed_decoder_worker, mixed_decoder_jobs()))
    acc.merge(core.pmap(behind_worker, behind_jobs()))
    rule = ('BFS over histories of channel operations (write sizes around packet/window '
            'limits, writelines, write_eof, pause/resume) and packet deliveries on a real '
            'client<->server pair; a state is distinct by its canonical form (channel '
            'send/recv state, windows, buffer shapes, per-stream written/delivered counts, '
            'queued wire packets); from every new state the run is drained and compared '
            'with the FIFO stream model; plus the stream-reader harness: a handler reading stdin with 10 call menus '
            'while chunks are interleaved with signals, breaks and size changes, every interleaving of deliveries and '
            'reader calls within the deviation bound: the data read, concatenated, equals the data sent, events in place; a reader '
            '0..29 deliveries behind a finished sender (7 output sizes around the window) then read() to EOF on both streams')
    return core.finish(PROP, tier, seed, 'model_checking', acc, t0, rule,
                       {'depth': depth, 'deeper': {c['name']: c['bfs_depth'] for c in cfgs if 'bfs_depth' in c}, 'max_states_per_cfg': max_states,
                        'configs': [c['name'] for c in cfgs]},
                       assumptions=['VLoop models asyncio FIFO call_soon semantics',
                                    'one transport.write == one SSH packet'])


# ------------------------------------------------------------------ stream readers with in-band events
def reader_worker(job):
    """The receiving application reads through the stream API (checks/c19.py harness (e): chunks interleaved with
    signals, breaks and size changes, every interleaving of deliveries and reader calls within the bound).  C07's
    statement about it: the data handed out, concatenated, is what was sent -- nothing lost, repeated or moved
    across an event."""
    import c19
    cfg, bound = job
    acc = core.Acc()
    name = 'reader|%s|pkt=%d|%s' % (cfg['name'], cfg['pkt'], cfg['cname'])

    def check(obs, ch):
        acc.add(core.digest((name, tuple(ch.choices))), transitions=obs['steps'])
        if obs['flat'] is None or not obs['done']:
            acc.violation('reader:hangs:%s' % cfg['cname'].split('(')[0], '%r ; script=%s calls=%s' % (obs['viol'][:1], cfg['name'], cfg['cname']),
                          {'kind': 'reader', 'name': cfg['name'], 'cname': cfg['cname'], 'pkt': cfg['pkt'], 'choices': ch.choices})
        elif obs['flat'] != obs['sent']:
            acc.violation('reader:stream-differs:%s' % cfg['cname'].split('(')[0],
                          'the handler read %r, the client sent %r ; script=%s calls=%s pkt=%d' % (obs['flat'], obs['sent'], cfg['name'], cfg['cname'], cfg['pkt']),
                          {'kind': 'reader', 'name': cfg['name'], 'cname': cfg['cname'], 'pkt': cfg['pkt'], 'choices': ch.choices})
    core.explore_dfs(lambda ch: c19.inband_run(cfg, ch), bound, check)
    return acc


# ------------------------------------------------------------------ characters split across packets, data types interleaved
def mixed_decoder_case(order, enc):
    """A sender in bytes mode (any other implementation, or a program piping raw output) splits multi-byte characters
    across writes and alternates between stdout and stderr; the receiver reads text.  Each data type is its own
    stream: what arrives on one must decode independently of what arrives between its pieces on the other."""
    text0, text1 = 'aéb€c', 'X\U0001d11eYü'
    b0, b1 = text0.encode(enc), text1.encode(enc)
    cut0 = [b0[:2], b0[2:5], b0[5:]] if enc == 'utf-8' else [b0[:3], b0[3:7], b0[7:]]
    cut1 = [b1[:3], b1[3:6], b1[6:]] if enc == 'utf-8' else [b1[:5], b1[5:9], b1[9:]]
    loop = P.fresh(0)
    viol = []
    try:
        def on_start(sess):
            i0 = i1 = 0
            for which in order:
                if which == 0:
                    sess.chan.write(cut0[i0])
                    i0 += 1
                else:
                    sess.chan.write(cut1[i1], STDERR)
                    i1 += 1
            sess.chan.write_eof()
        env = {'session_factory': lambda: P.RecSession('srv', on_start=on_start)}
        pair = P.Pair(loop, sopts=dict(encoding=None), env=env)
        pair.handshake()
        csess = []

        def mk():
            s = P.RecSession('cli')
            csess.append(s)
            return s
        pair.run(pair.c.create_session(mk, 'cmd', encoding=enc))
        loop.flush_all()
        s = csess[0]
        if pair.c._transport is None:
            viol.append(('connection-closed', repr(getattr(pair.client_owner, 'lost_exc', None))[:200]))
        got0, got1 = s.got(None), s.got(STDERR)
        if got0 != text0 or got1 != text1:
            viol.append(('final-mismatch', 'stdout %r (sent %r), stderr %r (sent %r)' % (got0, text0, got1, text1)))
        if not s.eof:
            viol.append(('eof-lost', 'no EOF'))
        if loop.unretrieved():
            viol.append(('loop-exception', repr(loop.exc_log[0].get('exception'))[:200]))
    except Livelock as exc:
        viol.append(('livelock', str(exc)))
    finally:
        P.done(loop)
    return viol


def mixed_decoder_worker(job):
    acc = core.Acc()
    for order, enc in job:
        viol = mixed_decoder_case(order, enc)
        acc.add(core.digest(('mixed-decoder', order, enc)), transitions=len(order))
        for k, d in viol:
            acc.violation('mixed-decoder:%s:%s' % (k, enc), '%s ; write order (0 = stdout, 1 = stderr) %r' % (d, order), {'kind': 'mixed-decoder', 'order': list(order), 'enc': enc})
    return acc


def behind_worker(job):
    """a reader that has fallen a whole window (and more) behind: the sender wrote n bytes on two streams and
    exited, nothing was read for k deliveries (stream buffer full, channel paused, the rest parked in the channel),
    then read() to end of file on both streams: each returns everything that was written, once, in order
    (harness shared with C09: c09.late_wait_case)"""
    import c09
    acc = core.Acc()
    for n, k in job:
        obs = c09.late_wait_case(n, k, 'read-all')
        acc.add(core.digest(('behind', n, k)), transitions=obs['steps'] + 1)
        for kind, detail in obs['viol']:
            acc.violation('order:%s:reader-behind' % kind, '%s ; n=%d k=%d' % (detail, n, k), {'kind': 'behind', 'n': n, 'k': k})
    return acc


def behind_jobs():
    cases = [(n, k) for n in (10, 63, 64, 65, 129, 200, 400) for k in range(0, 30)]
    return [cases[i::8] for i in range(8)]


def mixed_decoder_jobs():
    orders = sorted(set(itertools.permutations([0, 0, 0, 1, 1, 1])))
    cases = [(o, enc) for o in orders for enc in ('utf-8', 'utf-16-le')]
    return [cases[i::8] for i in range(8)]


def _canon_of(cfg, hist, seed):
    w = run_hist(cfg, hist, seed)
    try:
        return core.digest((w.canon(), [bytes(x) for x in w.pair.ct.writes]))
    finally:
        w.close()


def replay(rep):
    if rep['replay'].get('kind') == 'mixed-decoder':
        v = mixed_decoder_case(tuple(rep['replay']['order']), rep['replay']['enc'])
        print(json.dumps(v, indent=1))
        if v:
            print('VIOLATION property=%s replay=(given)' % PROP)
            return 1
        return 0
    if rep['replay'].get('kind') == 'behind':
        v = behind_worker([(rep['replay']['n'], rep['replay']['k'])]).violations
        print(json.dumps(v, indent=1, default=repr))
        if v:
            print('VIOLATION property=%s replay=(given)' % PROP)
            return 1
        return 0
    if rep['replay'].get('kind') == 'reader':
        import c19
        r = rep['replay']
        for c, _b in c19.inband_jobs('thorough'):
            if (c['name'], c['cname'], c['pkt']) == (r['name'], r['cname'], r['pkt']):
                obs = c19.inband_run(c, core.Chooser(r['choices']))
                print(json.dumps({'read': repr(obs['flat']), 'sent': repr(obs['sent'])}, indent=1))
                if obs['flat'] != obs['sent'] or not obs['done']:
                    print('VIOLATION property=%s replay=(given)' % PROP)
                    return 1
        return 0
    cfg, hist = rep['replay']['cfg'], rep['replay']['hist']
    w = run_hist(cfg, hist)
    try:
        v = w.check_prefix()
        v += w.drain()
    finally:
        w.close()
    print(json.dumps({'cfg': cfg, 'hist': hist, 'violations': v}, indent=1))
    if v:
        print('VIOLATION property=%s replay=(given)' % PROP)
        return 1
    return 0
