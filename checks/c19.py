"""C19  Stream and process APIs deliver what was sent, split as asked.

(a) real client <-> real server: streams x chunkings (max packet size) x read-call sequences
    x packet-delivery interleavings (deviation-bounded DFS); oracle = splitter model over the
    whole stream;
(b) refpeer as server sends stdout/stderr data, EOF, exit-status|exit-signal and CLOSE in every
    order RFC 4254 permits; whenever run() reports a status its output must be complete;
(c) redirections to/from files, other processes' streams, DEVNULL;
(d) drain() returns only when more can be written and fails when the channel is gone.
"""

import asyncio
import itertools
import json
import os
import re
import shutil

import asyncssh

import core
import pair as P
import refpeer as R
import rpharness as H
from vloop import Livelock

PROP = 'C19'
SCRATCH = '/dev/shm/asyncssh-verif-c19-%d' % os.getpid()       # unique per check run (workers are forked later)


# ------------------------------------------------------------------ splitter model
class Model:
    def __init__(self, data, limit=None):
        self.d = data
        self.p = 0
        self.limit = limit      # stream buffer limit (= receive window): a separator search gives up there

    def overrun(self, op, rec):
        """Is the recorded result of a readline/readuntil(newline) call the documented buffer-overrun
        answer?  The search gives up once the stream buffer (limit = receive window) is full without a
        separator in it: the buffered data -- at least `limit` units, a separator-free proper prefix of
        the rest -- comes back (readline: as the value; readuntil: as IncompleteReadError.partial)."""
        if not self.limit or op[0] not in ('readline', 'readuntil'):
            return False
        form = rec[1] == 'ok' if op[0] == 'readline' else (rec[1] == 'incomplete' and rec[3] is None)
        v, rest = rec[2], self.rest()
        if not form or not isinstance(v, (bytes, str)):
            return False
        nl = b'\n' if isinstance(rest, bytes) else '\n'
        if len(v) >= self.limit and len(v) < len(rest) and rest.startswith(v) and nl not in v:
            self.p += len(v)
            return True
        return False

    def rest(self):
        return self.d[self.p:]

    def call(self, op):
        """returns ('ok', value) | ('incomplete', partial, expected)"""
        kind = op[0]
        empty = self.d[:0]
        if kind == 'read':
            n = op[1]
            if n == 0:
                return ('ok', empty)
            if n < 0:
                v, self.p = self.rest(), len(self.d)
                return ('ok', v)
            return ('some', n)          # any non-empty prefix of rest of length <= n ('' only at EOF)
        if kind == 'readexactly':
            n = op[1]
            if len(self.rest()) >= n:
                v = self.d[self.p:self.p + n]
                self.p += n
                return ('ok', v)
            v, self.p = self.rest(), len(self.d)
            return ('incomplete', v, n)
        if kind == 'readline':
            r = self.rest()
            nl = b'\n' if isinstance(r, bytes) else '\n'
            i = r.find(nl)
            if i < 0:
                self.p = len(self.d)
                return ('ok', r)
            self.p += i + 1
            return ('ok', r[:i + 1])
        if kind == 'readuntil':
            seps = op[1]
            r = self.rest()
            if isinstance(seps, (bytes, str)):
                seps = [seps]
            best = None
            for start in range(len(r)):
                for sp in seps:
                    if r.startswith(sp, start):
                        best = (start, len(sp))
                        break
                if best:
                    break
            if best is None:
                self.p = len(self.d)
                return ('incomplete', r, None)
            end = best[0] + best[1]
            self.p += end
            return ('ok', r[:end])
        raise ValueError(op)


def run_stream(cfg, chooser, seed=0):
    S, pkt, calls, win, text = cfg['S'], cfg['pkt'], cfg['calls'], cfg.get('win', 2 ** 21), cfg.get('text', False)
    loop = P.fresh(seed)
    P.install_wire_labels()
    results = []
    try:
        async def handler(process):
            process.stdout.write(S)
            process.stdout.write_eof()
            process.exit(0)
        enc = 'utf-8' if text else None
        pair = P.Pair(loop, sopts=dict(process_factory=handler, encoding=enc))
        pair.handshake()

        async def client():
            w, r, e = await pair.c.open_session('cmd', encoding=enc, window=win, max_pktsize=pkt)
            i = 0
            eofs = 0
            while eofs < 2 and i < 400:
                op = calls[i % len(calls)]
                i += 1
                try:
                    if op[0] == 'read':
                        v = await r.read(op[1])
                    elif op[0] == 'readexactly':
                        v = await r.readexactly(op[1])
                    elif op[0] == 'readline':
                        v = await r.readline()
                    elif op[0] == 'readuntil':
                        v = await r.readuntil(op[1])
                    elif op[0] == 'readuntil-re':
                        v = await r.readuntil(re.compile(op[1]), op[2])
                    results.append((op, 'ok', v))
                    if not v and op != ('read', 0):
                        eofs += 1
                    if op == ('read', 0) and r.at_eof():
                        eofs += 1
                except asyncio.IncompleteReadError as exc:
                    results.append((op, 'incomplete', exc.partial, exc.expected))
                    eofs += 1 if (r.at_eof() or not exc.partial) else 0
        task = loop.create_task(client())
        steps = 0
        while True:
            loop.quiesce()
            opts = [t for t in (pair.ct, pair.st) if t in loop.deliverable()]
            if not opts:
                break
            k = chooser.choose(len(opts), label='deliver') if len(opts) > 1 else 0
            P.deliver_packet(loop, opts[k])
            steps += 1
            if steps > 20000:
                raise Livelock('too many deliveries')
        viol = []
        if not task.done():
            viol.append(('reader-hangs', 'read sequence never finished: %d results so far' % len(results)))
        elif task.exception() is not None:
            viol.append(('reader-exception', repr(task.exception())))
        # compare with the splitter model
        m = Model(S, limit=cfg.get('win'))
        for rec in results:
            op = rec[0]
            if op[0] == 'readuntil-re':
                mop = ('readuntil', op[3])
            else:
                mop = op
            if m.overrun(mop, rec):
                continue
            exp = m.call(mop)
            if exp[0] == 'some':
                v = rec[2] if rec[1] == 'ok' else None
                rest = m.rest()
                if v is None or len(v) > exp[1] or not rest.startswith(v) or (not v and rest):
                    viol.append(('read-n', 'read(%d) returned %r with %r remaining' % (exp[1], v, rest[:30])))
                    break
                m.p += len(v)
            elif exp[0] == 'ok':
                if rec[1] != 'ok' or rec[2] != exp[1]:
                    viol.append(('wrong-split', '%r returned %r, the stream splits as %r (chunk size %d)' % (op[:2], rec[1:3], exp[1], pkt)))
                    break
            else:
                if rec[1] != 'incomplete' or rec[2] != exp[1] or (exp[2] is not None and rec[3] != exp[2]):
                    viol.append(('wrong-partial', '%r gave %r, expected IncompleteReadError(partial=%r, expected=%r)' % (op[:2], rec[1:], exp[1], exp[2])))
                    break
        if not viol and task.done() and m.p != len(S):
            viol.append(('data-lost', 'reads ended with %d of %d units consumed' % (m.p, len(S))))
        if loop.unretrieved():
            viol.append(('loop-exception', repr(loop.exc_log[0].get('exception'))[:200]))
        return {'viol': viol, 'steps': steps, 'nres': len(results)}
    except Livelock as exc:
        return {'viol': [('livelock', str(exc))], 'steps': 0, 'nres': len(results)}
    finally:
        P.done(loop)


def stream_worker(job):
    cfg, bound = job
    acc = core.Acc()
    name = '%s|pkt=%d|%s' % (cfg['name'], cfg['pkt'], cfg['cname'])

    def check(obs, ch):
        acc.add(core.digest((name, tuple(ch.choices))), transitions=obs['steps'],
                sample={'stream': cfg['name'], 'max_pktsize': cfg['pkt'], 'calls': cfg['cname'], 'results': obs['nres']}
                if len(ch.labels()) == 1 else None)
        for k, d in obs['viol']:
            acc.violation('stream:%s:%s' % (k, cfg['cname'].split('(')[0]), '%s ; stream=%s calls=%s' % (d, cfg['name'], cfg['cname']),
                          {'kind': 'stream', 'cfg': {kk: (vv if not isinstance(vv, bytes) else vv.decode('latin1')) for kk, vv in cfg.items()},
                           'choices': ch.choices})
    core.explore_dfs(lambda ch: run_stream(cfg, ch), bound, check)
    return acc


def stream_jobs(tier):
    streams = {
        'lines': b'ab\ncd\n', 'no-trailing-nl': b'ab\ncd', 'adjacent-seps': b'a\n\nb\n', 'empty': b'',
        'multi-sep': b'abc--END--xyz\nq--END', 'sep-prefix-overlap': b'aa--E--EN--END--b', 'long': bytes(range(97, 123)) * 3,
    }
    callsets = {
        'read(1)': [('read', 1)], 'read(3)': [('read', 3)], 'read(-1)': [('read', -1)], 'read(0),read(2)': [('read', 0), ('read', 2)],
        'readexactly(2)': [('readexactly', 2)], 'readexactly(5)': [('readexactly', 5)], 'readexactly(100)': [('readexactly', 100)],
        'readline': [('readline',)], 'readuntil(nl)': [('readuntil', b'\n')], 'readuntil(--END--)': [('readuntil', b'--END--')],
        'readuntil(END|nl)': [('readuntil', (b'--END--', b'\n'))], 'readuntil(nl|END)': [('readuntil', (b'\n', b'--END--'))],
        'readuntil(E|END)': [('readuntil', (b'--E', b'--END--'))],
        'readuntil-re': [('readuntil-re', b'--END--|\n', 7, (b'--END--', b'\n'))],
        'mixed': [('readexactly', 1), ('readline',), ('read', 2)],
    }
    jobs = []
    bound = 2 if tier == 'quick' else 3
    for sname, S in streams.items():
        for cname, calls in callsets.items():
            for pkt in (1, 2, 3, 5, 32768):
                if tier == 'quick' and pkt == 5 and sname not in ('multi-sep', 'sep-prefix-overlap'):
                    continue
                jobs.append((dict(name=sname, S=S, pkt=pkt, cname=cname, calls=calls), bound if pkt > 1 else min(bound, 1)))
    # n larger than the window: small window, 3*window bytes
    big = bytes((i * 7) % 251 for i in range(3 * 64))
    for cname, calls in (('read(65)', [('read', 65)]), ('read(64)', [('read', 64)]), ('read(63)', [('read', 63)]),
                         ('readexactly(65)', [('readexactly', 65)]), ('readexactly(192)', [('readexactly', 192)]),
                         ('readexactly(193)', [('readexactly', 193)]), ('read(-1)', [('read', -1)])):
        for pkt in (7, 32):
            jobs.append((dict(name='3xwindow', S=big, pkt=pkt, win=64, cname=cname, calls=calls), bound))
    # lines longer than the stream buffer (= window): returned in buffer-sized pieces, reading carries on afterwards
    for sname, S in (('overlong-line', bytes(97 + i % 26 for i in range(150)) + b'\ntail\n'),
                     ('overlong-exact', bytes(97 + i % 26 for i in range(63)) + b'\n' + bytes(65 + i % 26 for i in range(64)) + b'\nz'),
                     ('overlong-no-nl', bytes(97 + i % 26 for i in range(130)))):
        for cname, calls in (('readline', [('readline',)]), ('readuntil(nl)', [('readuntil', b'\n')]),
                             ('readline,read(10)', [('readline',), ('read', 10)]),
                             ('readuntil(nl),readexactly(3)', [('readuntil', b'\n'), ('readexactly', 3)])):
            for pkt in (7, 32):
                jobs.append((dict(name=sname, S=S, pkt=pkt, win=64, cname=cname, calls=calls), bound))
    # a read served from a full buffer, followed by a separator search (state carried between two calls)
    for sname, S in (('full-then-line', b'A' * 64 + b'BBBB\ntail\n'), ('full-then-line-2', b'A' * 70 + b'\n' + b'C' * 64 + b'DD\nz\n'),
                     ('full-no-nl', b'A' * 64 + b'B' * 30)):
        for cname, calls in (('readexactly(60),readline', [('readexactly', 60), ('readline',)]),
                             ('read(10),readline', [('read', 10), ('readline',)]),
                             ('readexactly(64),readuntil(nl)', [('readexactly', 64), ('readuntil', b'\n')]),
                             ('readexactly(40),readline,read(5)', [('readexactly', 40), ('readline',), ('read', 5)]),
                             ('readexactly(1),readuntil(nl)', [('readexactly', 1), ('readuntil', b'\n')])):
            for pkt in (7, 32, 64):
                jobs.append((dict(name=sname, S=S, pkt=pkt, win=64, cname=cname, calls=calls), bound))
    # text mode with multi-byte characters
    T = 'aé\n€b\U0001d11e\nz'
    for cname, calls in (('readline', [('readline',)]), ('read(1)', [('read', 1)]), ('readexactly(2)', [('readexactly', 2)]),
                         ('readuntil(€)', [('readuntil', '€')])):
        for pkt in (1, 2, 3):
            jobs.append((dict(name='text', S=T, pkt=pkt, cname=cname, calls=calls, text=True), bound))
    return jobs


# ------------------------------------------------------------------ (b) exit status vs output completeness
def exit_worker(job):
    orders = job
    acc = core.Acc()
    for order in orders:
        w = H.CliWorld()
        rp = w.rp
        viol = []
        try:
            w.login()
            res = {}

            async def app():
                r = await w.conn.run('cmd', check=False, encoding=None)
                res['r'] = r
            t = w.loop.create_task(app())
            w.flush()
            sender = w.chan_opens[0][1]
            exp_out, exp_err = b'', b''
            for ev in order:
                if ev == 'D1':
                    rp.send_app(rp.channel_data(sender, b'out-one.'))
                    exp_out += b'out-one.'
                elif ev == 'D2':
                    rp.send_app(rp.channel_data(sender, b'out-two.' * 30))
                    exp_out += b'out-two.' * 30
                elif ev == 'E1':
                    rp.send_app(R.byte(95) + R.u32(sender) + R.u32(1) + R.string(b'err-one.'))
                    exp_err += b'err-one.'
                elif ev == 'EOF':
                    rp.send_app(R.byte(96) + R.u32(sender))
                elif ev == 'XS':
                    rp.send_app(R.byte(98) + R.u32(sender) + R.string('exit-status') + R.boolean(False) + R.u32(3))
                elif ev == 'XG':
                    rp.send_app(R.byte(98) + R.u32(sender) + R.string('exit-signal') + R.boolean(False) + R.string('TERM') +
                                R.boolean(False) + R.string('killed') + R.string('en'))
                w.flush()
            rp.send_app(R.byte(97) + R.u32(sender))
            w.flush()
            if not t.done():
                viol.append(('run-hangs', 'run() did not return after CLOSE'))
            elif t.exception() is not None:
                viol.append(('run-raised', repr(t.exception())))
            else:
                r = res['r']
                reported = r.exit_status is not None or r.exit_signal is not None
                want_status = 3 if 'XS' in order else None
                if 'XS' in order and r.exit_status != 3:
                    viol.append(('status-lost', 'exit status sent but run() reports %r' % (r.exit_status,)))
                if 'XG' in order and (r.exit_signal is None or r.exit_signal[0] != 'TERM'):
                    viol.append(('signal-lost', 'exit signal sent but run() reports %r' % (r.exit_signal,)))
                if reported or True:
                    if r.stdout != exp_out or r.stderr != exp_err:
                        viol.append(('output-incomplete', 'status=%r signal=%r reported with stdout %d/%d bytes, stderr %d/%d bytes'
                                     % (r.exit_status, r.exit_signal, len(r.stdout), len(exp_out), len(r.stderr), len(exp_err))))
            if w.loop.unretrieved():
                viol.append(('loop-exception', repr(w.loop.exc_log[0].get('exception'))[:200]))
        except (Livelock, R.RefError) as exc:
            viol.append(('livelock', str(exc)))
        finally:
            w.close()
        acc.add(core.digest(order), transitions=len(order) + 1, sample={'server_event_order': list(order)} if len(order) == 5 and order[0] == 'XS' else None)
        for k, d in viol:
            acc.violation('process:%s' % k, '%s ; order=%s' % (d, ' '.join(order)), {'kind': 'exit', 'order': list(order)})
    return acc


def exit_orders():
    out = []
    for x in ('XS', 'XG', None):
        evs = ['D1', 'E1', 'D2', 'EOF'] + ([x] if x else [])
        for n in range(0, len(evs) + 1):
            for sub in itertools.permutations(evs, n):
                if 'EOF' in sub and any(e in sub[sub.index('EOF'):] for e in ('D1', 'D2', 'E1')):
                    continue            # data after EOF is not permitted
                if 'D1' in sub and 'D2' in sub and sub.index('D2') < sub.index('D1'):
                    continue
                out.append(sub)
    return sorted(set(out))


# ------------------------------------------------------------------ (c) redirections
def determ_now(loop):
    return loop.time()


def redirect_worker(_job):
    acc = core.Acc()
    root = os.path.join(SCRATCH, 'r%d' % os.getpid())
    shutil.rmtree(root, ignore_errors=True)
    os.makedirs(root)
    data = bytes((i * 5) % 256 for i in range(70000))
    with open(os.path.join(root, 'in'), 'wb') as f:
        f.write(data)

    async def handler(process):
        # 'upper' service: echoes stdin to stdout, byte count to stderr, exit 0 at EOF
        n = 0
        try:
            while True:
                d = await process.stdin.read(8192)
                if not d:
                    break
                n += len(d)
                process.stdout.write(d)
        except asyncssh.BreakReceived:
            pass
        process.stderr.write(b'%d' % n)
        process.exit(0)
    scenarios = ['input-bytes', 'stdin-path', 'stdin-file', 'stdout-path', 'stdout-file', 'devnull', 'proc-to-proc',
                 'stderr-to-stdout', 'send-eof-false', 'stdout-asyncfile', 'stderr-asyncfile', 'both-asyncfile-wait',
                 'stdout-streamwriter', 'asyncfile-check', 'stdin-streamreader-text', 'stdin-streamreader-text-small-buf', 'stdin-asyncfile-text']

    class AsyncFile:
        """aiofiles-style target: write() and close() are coroutines that really suspend (virtual timer)"""

        def __init__(self, delay):
            self.buf, self.closed, self.delay = [], False, delay

        async def write(self, d):
            await asyncio.sleep(self.delay)
            self.buf.append(bytes(d))
            return len(d)

        async def close(self):
            await asyncio.sleep(self.delay)
            self.closed = True

        def got(self):
            return b''.join(self.buf)
    for sc in scenarios:
        loop = P.fresh(0)
        viol = []
        try:
            pair = P.Pair(loop, sopts=dict(process_factory=handler, encoding=None))
            pair.handshake()
            out = {}

            async def body():
                c = pair.c
                if sc == 'input-bytes':
                    r = await c.run('x', input=data, encoding=None)
                    out['ok'] = r.stdout == data and r.stderr == b'%d' % len(data)
                elif sc == 'stdin-path':
                    r = await c.run('x', stdin=os.path.join(root, 'in'), encoding=None)
                    out['ok'] = r.stdout == data and r.stderr == b'%d' % len(data)
                elif sc == 'stdin-file':
                    with open(os.path.join(root, 'in'), 'rb') as f:
                        r = await c.run('x', stdin=f, encoding=None)
                    out['ok'] = r.stdout == data
                elif sc == 'stdout-path':
                    r = await c.run('x', input=data, stdout=os.path.join(root, 'out1'), encoding=None)
                    out['ok'] = open(os.path.join(root, 'out1'), 'rb').read() == data and r.exit_status == 0
                elif sc == 'stdout-file':
                    with open(os.path.join(root, 'out2'), 'wb') as f:
                        r = await c.run('x', input=data, stdout=f, encoding=None)
                    out['ok'] = open(os.path.join(root, 'out2'), 'rb').read() == data
                elif sc == 'devnull':
                    r = await c.run('x', stdin=asyncssh.DEVNULL, stdout=asyncssh.DEVNULL, encoding=None)
                    out['ok'] = r.stderr == b'0' and r.exit_status == 0
                elif sc == 'proc-to-proc':
                    p1 = await c.create_process('x', encoding=None)
                    p2 = await c.create_process('x', stdin=p1.stdout, encoding=None)
                    p1.stdin.write(data)
                    p1.stdin.write_eof()
                    r2 = await p2.wait()
                    out['ok'] = r2.stdout == data and r2.stderr == b'%d' % len(data)
                elif sc == 'stderr-to-stdout':
                    r = await c.run('x', input=b'abc', stderr=asyncssh.STDOUT, encoding=None)
                    out['ok'] = sorted(r.stdout) == sorted(b'abc3') and not r.stderr
                elif sc in ('stdout-asyncfile', 'stderr-asyncfile', 'both-asyncfile-wait', 'asyncfile-check'):
                    # targets written asynchronously: whatever reports the exit status must come after the last write
                    fo, fe = AsyncFile(0.03), AsyncFile(0.05)
                    small = data[:20000]
                    if sc == 'stdout-asyncfile':
                        r = await c.run('x', input=small, stdout=fo, encoding=None)
                        out['ok'] = fo.got() == small and r.exit_status == 0 and r.stderr == b'%d' % len(small)
                    elif sc == 'stderr-asyncfile':
                        r = await c.run('x', input=small, stderr=fe, encoding=None)
                        out['ok'] = fe.got() == b'%d' % len(small) and r.stdout == small and r.exit_status == 0
                    elif sc == 'both-asyncfile-wait':
                        p = await c.create_process('x', stdout=fo, stderr=fe, encoding=None)
                        p.stdin.write(small)
                        p.stdin.write_eof()
                        r = await p.wait()
                        out['ok'] = fo.got() == small and fe.got() == b'%d' % len(small) and r.exit_status == 0
                    else:
                        fo2 = AsyncFile(0.03)
                        p = await c.create_process('x', stdout=fo2, encoding=None)
                        o, e = await p.communicate(small)
                        out['ok'] = fo2.got() == small and p.exit_status == 0
                elif sc.startswith('stdin-streamreader-text') or sc == 'stdin-asyncfile-text':
                    # text-mode process fed from a byte source that hands over a multi-byte character in pieces
                    text = 'price: \u20ac5 \U0001d11e caf\u00e9\n' * 3
                    raw = text.encode('utf-8')
                    cuts = [raw[:8], raw[8:9], raw[9:11], raw[11:14], raw[14:15], raw[15:]]
                    if sc == 'stdin-asyncfile-text':
                        class Src:
                            def __init__(self):
                                self.parts = list(cuts)

                            async def read(self, n=-1):
                                await asyncio.sleep(0.01)
                                return self.parts.pop(0) if self.parts else b''

                            async def close(self):
                                pass
                        p = await c.create_process('x', stdin=Src())
                    else:
                        rd = asyncio.StreamReader()
                        kw_ = dict(bufsize=2) if sc.endswith('small-buf') else {}
                        p = await c.create_process('x', stdin=rd, **kw_)
                        for part in cuts:
                            rd.feed_data(part)
                            await asyncio.sleep(0.01)
                        rd.feed_eof()
                    r = await p.wait()
                    out['ok'] = r.stdout == text and r.stderr == str(len(raw)) and r.exit_status == 0
                elif sc == 'stdout-streamwriter':
                    got = []

                    class Sink(asyncio.Protocol):
                        def data_received(self, d):
                            got.append(bytes(d))
                    await loop.create_server(Sink, 'sink.example', 9)
                    rd, wr = await asyncio.open_connection('sink.example', 9)
                    r = await c.run('x', input=data, stdout=wr, encoding=None)
                    for _ in range(50):
                        if sum(map(len, got)) >= len(data):
                            break
                        await asyncio.sleep(0.01)
                    out['ok'] = b''.join(got) == data and r.exit_status == 0
                elif sc == 'send-eof-false':
                    p = await c.create_process('x', stdin=os.path.join(root, 'in'), send_eof=False, encoding=None)
                    got = await p.stdout.readexactly(len(data))
                    p.stdin.write(b'tail')
                    p.stdin.write_eof()
                    r = await p.wait()
                    out['ok'] = got == data and r.stderr == b'%d' % (len(data) + 4)
            t = loop.create_task(body())
            loop.flush_all(horizon=400000)
            for _ in range(3000):
                # targets that suspend on the (virtual) clock: let it run while the application is still waiting
                if t.done() or loop.next_timer() is None or loop.next_timer() > determ_now(loop) + 600:
                    break
                loop.advance()
                loop.flush_all(horizon=400000)
            if not t.done():
                viol.append(('redirect-hangs', sc))
            elif t.exception() is not None:
                viol.append(('redirect-raised', '%s: %r' % (sc, t.exception())))
            elif not out.get('ok'):
                viol.append(('redirect-data', '%s: target contents differ from the data sent' % sc))
            if loop.unretrieved():
                viol.append(('loop-exception', repr(loop.exc_log[0].get('exception'))[:200]))
        except Livelock as exc:
            viol.append(('livelock', '%s: %s' % (sc, exc)))
        finally:
            P.done(loop)
        acc.add(core.digest(('redirect', sc)), transitions=1, sample={'redirection': sc} if sc == 'proc-to-proc' else None)
        for k, d in viol:
            acc.violation('process:%s:%s' % (k, sc), d, {'kind': 'redirect'})
    shutil.rmtree(root, ignore_errors=True)
    return acc


# ------------------------------------------------------------------ (c') redirection issued at any moment of a running session
def late_redirect_run(cfg, chooser):
    """A process is created with PIPEs; after k packet deliveries the application (optionally reads n bytes
    and then) redirects stdout or stderr to a target.  Whatever was not read before must arrive in the target,
    complete and in order, whenever the redirection happens -- before any data, with the stream buffer full
    and the channel paused, after EOF, after exit."""
    size, which, kind, k, preread = cfg['size'], cfg['which'], cfg['kind'], cfg['k'], cfg['preread']
    root = os.path.join(SCRATCH, 'lr%d' % os.getpid())
    os.makedirs(root, exist_ok=True)
    out_data = bytes((i * 7 + 1) % 251 for i in range(size))
    err_data = bytes((i * 5 + 3) % 241 for i in range(size if which == 'stderr' else 30))
    if which == 'stderr':
        out_data = out_data[:30]
    loop = P.fresh(0)
    P.install_wire_labels()
    viol = []
    try:
        async def handler(process):
            if process.command == 'sink':
                got = await process.stdin.read()
                process.stdout.write(got)
                process.exit(0)
                return
            process.stdout.write(out_data)
            process.stderr.write(err_data)
            process.exit(7)
        pair = P.Pair(loop, sopts=dict(process_factory=handler, encoding=None))
        pair.handshake()
        st = {}

        async def client():
            proc = await pair.c.create_process('src', encoding=None, window=64, max_pktsize=32)
            st['proc'] = proc
            if kind == 'process':
                st['sink'] = await pair.c.create_process('sink', encoding=None)
        t = loop.create_task(client())
        loop.flush_all(horizon=2000) if False else None
        # open the sessions with default scheduling, but hold the source's data back: the server handler only
        # starts once the exec request is delivered, so step until both processes exist
        steps = 0
        redirected = False
        rt = None
        pre = {}

        async def do_redirect():
            proc = st['proc']
            rd = proc.stdout if which == 'stdout' else proc.stderr
            if preread:
                pre['data'] = await rd.read(preread)
            if kind == 'path':
                target = os.path.join(root, 'target')
            elif kind == 'file':
                st['fobj'] = open(os.path.join(root, 'target'), 'wb')
                target = st['fobj']
            elif kind == 'devnull':
                target = asyncssh.DEVNULL
            else:
                target = st['sink'].stdin
            if which == 'stdout':
                await proc.redirect_stdout(target)
            else:
                await proc.redirect_stderr(target)
        if os.path.exists(os.path.join(root, 'target')):
            os.unlink(os.path.join(root, 'target'))
        while True:
            loop.quiesce()
            if not redirected and t.done() and steps >= k:
                redirected = True
                rt = loop.create_task(do_redirect())
                loop.quiesce()
            opts = [x for x in (pair.ct, pair.st) if x in loop.deliverable()]
            if not opts:
                if loop.pending_jobs():
                    loop.fire_job(0)
                    continue
                if not redirected and t.done():
                    redirected = True
                    rt = loop.create_task(do_redirect())
                    continue
                break
            kk = chooser.choose(len(opts), label='deliver') if len(opts) > 1 else 0
            P.deliver_packet(loop, opts[kk])
            if t.done():
                steps += 1
            if steps > 5000:
                raise Livelock('too many deliveries')
        res = {}

        async def finish():
            res['r'] = await st['proc'].wait()
            if kind == 'process':
                res['s'] = await st['sink'].wait()
        ft = loop.create_task(finish())
        loop.flush_all(horizon=200000)
        if 'fobj' in st:
            try:
                st['fobj'].close()
            except OSError:
                pass
        want = out_data if which == 'stdout' else err_data
        other_want = err_data if which == 'stdout' else out_data
        if rt is None or not rt.done():
            viol.append(('redirect-hangs', 'redirect call pending'))
        elif rt.exception() is not None:
            viol.append(('redirect-raised', repr(rt.exception())))
        elif not ft.done():
            viol.append(('wait-hangs', 'wait() pending after redirect at step %d' % k))
        elif ft.exception() is not None:
            viol.append(('wait-raised', repr(ft.exception())))
        else:
            r = res['r']
            p = pre.get('data', b'')
            if kind in ('path', 'file'):
                got = open(os.path.join(root, 'target'), 'rb').read()
            elif kind == 'process':
                got = res['s'].stdout
            else:
                got = None
            left = r.stdout if which == 'stdout' else r.stderr
            other = r.stderr if which == 'stdout' else r.stdout
            if not want.startswith(p):
                viol.append(('redirect-data', 'read(%d) before the redirect returned bytes that are not the head of the stream' % preread))
            elif got is not None and p + got != want:
                viol.append(('redirect-data', 'read before + target = %d + %d bytes, stream has %d; first difference at %d; %d bytes stranded in the collected output'
                             % (len(p), len(got), len(want), next((i for i, (a, b) in enumerate(zip(p + got, want)) if a != b), min(len(p + got), len(want))), len(left or b''))))
            elif left:
                viol.append(('redirect-data', '%d bytes of the redirected stream came back through wait()' % len(left)))
            if other != other_want:
                viol.append(('redirect-other-stream', 'the stream that was not redirected delivered %d of %d bytes' % (len(other or b''), len(other_want))))
            if r.exit_status != 7:
                viol.append(('redirect-exit-status', repr(r.exit_status)))
        if loop.unretrieved():
            viol.append(('loop-exception', repr(loop.exc_log[0].get('exception'))[:200]))
        return {'viol': viol, 'steps': steps}
    except Livelock as exc:
        return {'viol': [('livelock', str(exc))], 'steps': 0}
    finally:
        P.done(loop)


def late_redirect_worker(job):
    acc = core.Acc()
    for cfg, bound in job:
        name = 'late-redirect|%(which)s|%(kind)s|size=%(size)d|k=%(k)d|pre=%(preread)d' % cfg

        def check(obs, ch, cfg=cfg, name=name):
            acc.add(core.digest((name, tuple(ch.choices))), transitions=obs['steps'],
                    sample={'late_redirect': cfg} if cfg['k'] == 6 and cfg['kind'] == 'process' and not ch.choices else None)
            for k, d in obs['viol']:
                acc.violation('process:%s:late-%s-%s' % (k, cfg['which'], cfg['kind']), '%s ; %s' % (d, name),
                              {'kind': 'late-redirect', 'cfg': cfg, 'choices': ch.choices})
        core.explore_dfs(lambda ch, cfg=cfg: late_redirect_run(cfg, ch), bound, check)
    shutil.rmtree(os.path.join(SCRATCH, 'lr%d' % os.getpid()), ignore_errors=True)
    return acc


def late_redirect_jobs(tier):
    jobs = []
    for which in ('stdout', 'stderr'):
        for kind in ('path', 'file', 'process', 'devnull'):
            for size in (40, 64, 65, 200):
                for preread in (0, 10):
                    for k in range(0, 26):
                        if tier == 'quick' and (kind in ('file', 'devnull') or which == 'stderr') and not (size == 200 and preread == 0):
                            continue
                        jobs.append((dict(which=which, kind=kind, size=size, k=k, preread=preread), 0 if tier == 'quick' else 1))
    return [jobs[i::32] for i in range(32)]


# ------------------------------------------------------------------ (c'') one process's output stream becomes another's stdin, at any moment
def pipe_run(cfg, chooser):
    """Process A produces stdout and stderr; after k deliveries the application (optionally reads n units of the
    chosen stream and then) makes that stream the stdin of process B -- at creation or by redirect_stdin.
    B must receive exactly the rest of that stream; A's other stream must stay complete."""
    which, k, preread, via = cfg['which'], cfg['k'], cfg['preread'], cfg['via']
    out_data = bytes((i * 7 + 1) % 251 for i in range(90))
    err_data = bytes((i * 5 + 3) % 241 for i in range(80))
    loop = P.fresh(0)
    P.install_wire_labels()
    viol = []
    try:
        async def handler(process):
            if process.command == 'sink':
                got = await process.stdin.read()
                process.stdout.write(got)
                process.exit(0)
                return
            process.stdout.write(out_data[:40])
            process.stderr.write(err_data[:40])
            process.stdout.write(out_data[40:])
            process.stderr.write(err_data[40:])
            process.exit(7)
        pair = P.Pair(loop, sopts=dict(process_factory=handler, encoding=None))
        pair.handshake()
        st, pre, res = {}, {}, {}

        async def client():
            st['a'] = await pair.c.create_process('src', encoding=None, window=64, max_pktsize=32)
            if via == 'redirect':
                st['b'] = await pair.c.create_process('sink', encoding=None)
        t = loop.create_task(client())

        async def connect():
            a = st['a']
            rd = a.stdout if which == 'stdout' else a.stderr
            if preread:
                pre['data'] = await rd.readexactly(preread)
            if via == 'redirect':
                await st['b'].redirect_stdin(rd)
            else:
                st['b'] = await pair.c.create_process('sink', stdin=rd, encoding=None)
        steps = 0
        rt = None
        while True:
            loop.quiesce()
            if rt is None and t.done() and steps >= k:
                rt = loop.create_task(connect())
                loop.quiesce()
            opts = [x for x in (pair.ct, pair.st) if x in loop.deliverable()]
            if not opts:
                if rt is None and t.done():
                    rt = loop.create_task(connect())
                    continue
                break
            kk = chooser.choose(len(opts), label='deliver') if len(opts) > 1 else 0
            P.deliver_packet(loop, opts[kk])
            if t.done():
                steps += 1
            if steps > 5000:
                raise Livelock('too many deliveries')

        async def finish():
            res['a'] = await st['a'].wait()
            res['b'] = await st['b'].wait()
        ft = loop.create_task(finish())
        loop.flush_all(horizon=200000)
        want = out_data if which == 'stdout' else err_data
        other_want = err_data if which == 'stdout' else out_data
        if rt is None or not rt.done():
            viol.append(('pipe-hangs', 'connecting the processes never finished'))
        elif rt.exception() is not None:
            if not (preread and isinstance(rt.exception(), asyncio.IncompleteReadError)):
                viol.append(('pipe-raised', repr(rt.exception())))
        elif not ft.done():
            viol.append(('wait-hangs', 'wait() pending'))
        elif ft.exception() is not None:
            viol.append(('wait-raised', repr(ft.exception())))
        else:
            p = pre.get('data', b'')
            got = res['b'].stdout
            other = res['a'].stderr if which == 'stdout' else res['a'].stdout
            left = res['a'].stdout if which == 'stdout' else res['a'].stderr
            if p + got != want:
                viol.append(('pipe-data', 'process B received %d bytes, the %s of A holds %d after the %d read before; first difference at %d'
                             % (len(got), which, len(want) - len(p), len(p),
                                next((i for i, (x, y) in enumerate(zip(p + got, want)) if x != y), min(len(p + got), len(want))))))
            if other != other_want:
                viol.append(('pipe-other-stream', 'the stream of A that was not piped delivered %d of %d bytes' % (len(other or b''), len(other_want))))
            if left:
                viol.append(('pipe-data', '%d bytes of the piped stream came back through A.wait()' % len(left)))
        if loop.unretrieved():
            viol.append(('loop-exception', repr(loop.exc_log[0].get('exception'))[:200]))
        return {'viol': viol, 'steps': steps}
    except Livelock as exc:
        return {'viol': [('livelock', str(exc))], 'steps': 0}
    finally:
        P.done(loop)


def pipe_worker(job):
    acc = core.Acc()
    for cfg, bound in job:
        name = 'pipe|%(which)s|%(via)s|k=%(k)d|pre=%(preread)d' % cfg

        def check(obs, ch, cfg=cfg, name=name):
            acc.add(core.digest((name, tuple(ch.choices))), transitions=obs['steps'],
                    sample={'pipe': cfg} if cfg['k'] == 5 and cfg['which'] == 'stderr' and not ch.choices else None)
            for k, d in obs['viol']:
                acc.violation('process:%s:%s-%s' % (k, cfg['which'], cfg['via']), '%s ; %s' % (d, name),
                              {'kind': 'pipe', 'cfg': cfg, 'choices': ch.choices})
        core.explore_dfs(lambda ch, cfg=cfg: pipe_run(cfg, ch), bound, check)
    return acc


def pipe_jobs(tier):
    jobs = []
    for which in ('stdout', 'stderr'):
        for via in ('create', 'redirect'):
            for preread in (0, 4):
                for k in range(0, 16):
                    jobs.append((dict(which=which, via=via, k=k, preread=preread), 0 if tier == 'quick' else 1))
    return [jobs[i::16] for i in range(16)]


# ------------------------------------------------------------------ (c3) a pipe whose far end stops reading, then a new target
def bp_run(cfg, chooser):
    """A.stdout is piped into B.stdin, B's remote side does not read: back-pressure pauses A.  After k
    deliveries A's stdout is given a new target (DEVNULL, PIPE, a file).  From then on A must run to
    completion and wait() returns with the exit status."""
    k, retarget, total = cfg['k'], cfg['retarget'], cfg['total']
    root = os.path.join(SCRATCH, 'bp%d' % os.getpid())
    os.makedirs(root, exist_ok=True)
    data = bytes((i * 11 + 5) % 253 for i in range(total))
    loop = P.fresh(0)
    P.install_wire_labels()
    viol = []
    try:
        release = {}

        async def handler(process):
            if process.command == 'stuck':
                release['ev'] = asyncio.Event()
                await release['ev'].wait()
                got = await process.stdin.read()
                process.stdout.write(b'%d' % len(got))
                process.exit(0)
                return
            process.stdout.write(data)
            await process.stdout.drain()
            process.exit(7)
        pair = P.Pair(loop, sopts=dict(process_factory=handler, encoding=None, window=64, max_pktsize=32))
        pair.handshake()
        st, res = {}, {}

        async def client():
            st['b'] = await pair.c.create_process('stuck', encoding=None)
            st['b'].channel.set_write_buffer_limits(high=100, low=20)
            st['a'] = await pair.c.create_process('src', stdout=st['b'].stdin, encoding=None, window=64, max_pktsize=32)
        t = loop.create_task(client())

        async def switch():
            a = st['a']
            if retarget == 'devnull':
                await a.redirect_stdout(asyncssh.DEVNULL)
            elif retarget == 'pipe':
                await a.redirect_stdout(asyncssh.PIPE)
            else:
                await a.redirect_stdout(os.path.join(root, 'rest'))
        if os.path.exists(os.path.join(root, 'rest')):
            os.unlink(os.path.join(root, 'rest'))
        steps = 0
        rt = None
        while True:
            loop.quiesce()
            if rt is None and t.done() and steps >= k:
                rt = loop.create_task(switch())
                loop.quiesce()
            opts = [x for x in (pair.ct, pair.st) if x in loop.deliverable()]
            if not opts:
                if rt is None and t.done():
                    rt = loop.create_task(switch())
                    continue
                break
            kk = chooser.choose(len(opts), label='deliver') if len(opts) > 1 else 0
            P.deliver_packet(loop, opts[kk])
            if t.done():
                steps += 1
            if steps > 8000:
                raise Livelock('too many deliveries')

        async def finish():
            res['a'] = await st['a'].wait()
        ft = loop.create_task(finish())
        loop.flush_all(horizon=400000)
        if rt is None or not rt.done():
            viol.append(('pipe-hangs', 'giving A a new stdout target never finished'))
        elif rt.exception() is not None:
            viol.append(('pipe-raised', repr(rt.exception())))
        elif not ft.done():
            ch = st['a'].channel
            viol.append(('producer-stuck', 'A.stdout got a new target (%s) after %d deliveries while its pipe into B was blocked; A never '
                         'finishes although nothing holds its output back any more (A channel recv window %s)'
                         % (retarget, k, getattr(ch, '_recv_window', '?'))))
        elif ft.exception() is not None:
            viol.append(('wait-raised', repr(ft.exception())))
        else:
            if res['a'].exit_status != 7:
                viol.append(('pipe-exit-status', repr(res['a'].exit_status)))
        if loop.unretrieved():
            viol.append(('loop-exception', repr(loop.exc_log[0].get('exception'))[:200]))
        return {'viol': viol, 'steps': steps}
    except Livelock as exc:
        return {'viol': [('livelock', str(exc))], 'steps': 0}
    finally:
        P.done(loop)


def bp_worker(job):
    acc = core.Acc()
    for cfg, bound in job:
        name = 'backpressure|%(retarget)s|total=%(total)d|k=%(k)d' % cfg

        def check(obs, ch, cfg=cfg, name=name):
            acc.add(core.digest((name, tuple(ch.choices))), transitions=obs['steps'],
                    sample={'blocked_pipe_then': cfg} if cfg['k'] == 30 and cfg['retarget'] == 'devnull' and not ch.choices else None)
            for k, d in obs['viol']:
                acc.violation('process:%s:%s' % (k, cfg['retarget']), '%s ; %s' % (d, name), {'kind': 'bp', 'cfg': cfg, 'choices': ch.choices})
        core.explore_dfs(lambda ch, cfg=cfg: bp_run(cfg, ch), bound, check)
    shutil.rmtree(os.path.join(SCRATCH, 'bp%d' % os.getpid()), ignore_errors=True)
    return acc


def bp_jobs(tier):
    jobs = []
    for retarget in ('devnull', 'pipe', 'path'):
        for total in (150, 600):
            for k in list(range(0, 40, 3)) + [60, 100]:
                jobs.append((dict(retarget=retarget, total=total, k=k), 0 if tier == 'quick' else 1))
    return [jobs[i::16] for i in range(16)]


# ------------------------------------------------------------------ (d) drain
def drain_run(chooser, cut_at=None, limits=(100, 20)):
    loop = P.fresh(0)
    P.install_wire_labels()
    try:
        async def handler(process):
            await process.stdin.read()          # never reads until EOF: relies on window only
        pair = P.Pair(loop, sopts=dict(process_factory=handler, encoding=None, window=64, max_pktsize=32))
        pair.handshake()
        info = {'drains': 0}

        async def client():
            w, r, e = await pair.c.open_session('x', encoding=None)
            info['chan'] = w.channel
            w.channel.set_write_buffer_limits(high=limits[0], low=limits[1])
            try:
                for _ in range(2):
                    w.write(b'z' * 400)
                    await w.drain()
                    info['drains'] += 1
                    info['drained'] = (w.channel._send_buf_len, w.channel._send_state)
            except Exception as exc:        # pylint: disable=broad-except
                info['exc'] = type(exc).__name__
        t = loop.create_task(client())
        steps = 0
        while True:
            loop.quiesce()
            if cut_at is not None and steps == cut_at:
                loop.cut(pair.ct)
                loop.flush_all()
                break
            opts = [x for x in (pair.st, pair.ct) if x in loop.deliverable()]
            if not opts:
                break
            k = chooser.choose(len(opts)) if len(opts) > 1 else 0
            P.deliver_packet(loop, opts[k])
            steps += 1
        viol = []
        high = limits[0]
        if cut_at is not None:
            if not t.done():
                viol.append(('drain-hangs', 'drain() still pending after the connection was lost at step %d' % cut_at))
            elif 'drained' in info and info['drained'][0] > high and 'exc' not in info:
                viol.append(('drain-returned-early', 'drain() returned with %d bytes buffered after connection loss without error' % info['drained'][0]))
        else:
            if 'drained' in info and info['drained'][0] > high:
                viol.append(('drain-returned-early', 'drain() returned with %d bytes still buffered (high water %d)' % (info['drained'][0], high)))
            if not t.done():
                ch = info.get('chan')
                viol.append(('drain-hangs', 'every packet was delivered and the peer keeps reading, but drain() #%d never returned '
                             '(send buffer %s bytes, write-buffer limits high=%r low=%r)' % (info['drains'] + 1, ch._send_buf_len if ch else '?', limits[0], limits[1])))
        info.pop('chan', None)
        return {'viol': viol, 'steps': steps, 'info': info}
    finally:
        P.done(loop)


DRAIN_LIMITS = [(100, 20), (100, 0), (0, 0), (64, 64), (1000, None)]


def drain_worker(_job):
    acc = core.Acc()
    for limits in DRAIN_LIMITS:
        def check(obs, ch, limits=limits):
            acc.add(core.digest(('drain', limits, tuple(ch.choices), repr(obs['info']))), transitions=obs['steps'])
            for k, d in obs['viol']:
                acc.violation('process:%s' % k, d, {'kind': 'drain', 'choices': ch.choices, 'limits': list(limits)})
        core.explore_dfs(lambda ch, limits=limits: drain_run(ch, limits=limits), 2 if limits == (100, 20) else 1, check)
        base = drain_run(core.Chooser([]), limits=limits)
        for cut in range(0, base['steps'] + 1):
            obs = drain_run(core.Chooser([]), cut_at=cut, limits=limits)
            acc.add(core.digest(('drain-cut', limits, cut, repr(obs['info']))), transitions=obs['steps'],
                    sample={'drain_cut_at': cut, 'limits': list(limits), 'outcome': obs['info']} if cut == 3 and limits == (100, 0) else None)
            for k, d in obs['viol']:
                acc.violation('process:%s' % k, d, {'kind': 'drain-cut', 'cut': cut, 'limits': list(limits)})
    return acc


# ------------------------------------------------------------------ (d2) several writers draining the same channel
def drain2_run(chooser, limits=(100, 20), chunk=150, rounds=3):
    """two tasks of one server application write to stdout and stderr of the same channel and drain after each
    write: whenever a drain() returns without raising, writing is possible again (the channel is not
    write-paused at that moment), whichever waiter is woken first"""
    loop = P.fresh(0)
    P.install_wire_labels()
    try:
        returns = []
        got = {}

        async def handler(process):
            ch = process.channel
            ch.set_write_buffer_limits(high=limits[0], low=limits[1])

            async def pump(wr, tag):
                for i in range(rounds):
                    wr.write(bytes([65 + i]) * chunk)
                    await wr.drain()
                    returns.append((tag, i, ch._send_buf_len, bool(process._write_paused)))
            await asyncio.gather(pump(process.stdout, 'out'), pump(process.stderr, 'err'))
            process.exit(0)
        pair = P.Pair(loop, sopts=dict(process_factory=handler, encoding=None))
        pair.handshake()

        async def client():
            p = await pair.c.create_process('x', encoding=None, window=64, max_pktsize=32)
            o, e = await asyncio.gather(p.stdout.read(), p.stderr.read())
            got['o'], got['e'] = o, e
        t = loop.create_task(client())
        steps = 0
        while True:
            loop.quiesce()
            opts = [x for x in (pair.st, pair.ct) if x in loop.deliverable()]
            if not opts:
                break
            k = chooser.choose(len(opts)) if len(opts) > 1 else 0
            P.deliver_packet(loop, opts[k])
            steps += 1
            if steps > 5000:
                raise Livelock('too many deliveries')
        viol = []
        for tag, i, buf, paused in returns:
            if paused or buf > limits[0]:
                viol.append(('drain-returned-while-paused', 'drain() #%d of the %s writer returned with %d bytes buffered '
                             '(high-water %d), writing paused=%s' % (i + 1, tag, buf, limits[0], paused)))
                break
        if not t.done():
            viol.append(('drain-hangs', 'the two writers never finished: %d drain returns' % len(returns)))
        else:
            want = b''.join(bytes([65 + i]) * chunk for i in range(rounds))
            if got.get('o') != want or got.get('e') != want:
                viol.append(('data-mismatch', 'stdout %d/%d stderr %d/%d bytes' % (len(got.get('o') or b''), len(want), len(got.get('e') or b''), len(want))))
        if loop.unretrieved():
            viol.append(('loop-exception', repr(loop.exc_log[0].get('exception'))[:200]))
        return {'viol': viol, 'steps': steps, 'info': len(returns)}
    except Livelock as exc:
        return {'viol': [('livelock', str(exc))], 'steps': 0, 'info': 0}
    finally:
        P.done(loop)


def drain2_worker(job):
    acc = core.Acc()
    for limits, chunk, bound in job:
        def check(obs, ch, limits=limits, chunk=chunk):
            acc.add(core.digest(('drain2', limits, chunk, tuple(ch.choices))), transitions=obs['steps'],
                    sample={'two_writers': {'limits': list(limits), 'chunk': chunk, 'drain_returns': obs['info']}} if not ch.choices and chunk == 150 else None)
            for k, d in obs['viol']:
                acc.violation('process:%s:two-writers' % k, d, {'kind': 'drain2', 'limits': list(limits), 'chunk': chunk, 'choices': ch.choices})
        core.explore_dfs(lambda ch, limits=limits, chunk=chunk: drain2_run(ch, limits, chunk), bound, check)
    return acc


def drain2_jobs(tier):
    b = 1 if tier == 'quick' else 2
    return [[(lim, chunk, b)] for lim in ((100, 20), (100, 0), (64, 64), (200, 50)) for chunk in (60, 150, 250)]


# ------------------------------------------------------------------ (e) in-band events on a server's stdin stream
def _ev_of(exc):
    if isinstance(exc, asyncssh.SignalReceived):
        return ('sig', exc.signal)
    if isinstance(exc, asyncssh.BreakReceived):
        return ('break', exc.msec)
    if isinstance(exc, asyncssh.TerminalSizeChanged):
        return ('winch', exc.width, exc.height)
    return None


def inband_run(cfg, chooser, seed=0):
    """The client writes chunks and sends signals / breaks / terminal size changes in between; the server's handler
    reads its stdin with one call menu.  Scheduling: at every step either the next packet is delivered or the reader
    is allowed one more call (default: deliveries first, so events interrupt multi-chunk buffers; deviations let the
    reader run early and be blocked inside a call when chunk or event arrives).  Oracle: each stretch of data between
    two events is split like a stream ending there (splitter model), every event is raised exactly once, after all
    data sent before it and before any data sent after it."""
    script, pkt, calls, text = cfg['script'], cfg['pkt'], cfg['calls'], cfg.get('text', False)
    win = cfg.get('win')
    loop = P.fresh(seed)
    P.install_wire_labels()
    results = []
    st = {'permits': 0, 'waiting': None, 'done': False, 'sync': None}
    try:
        enc = 'utf-8' if text else None

        async def handler(process):
            r = process.stdin
            i = 0
            while i < 400:
                while not st['permits']:
                    st['waiting'] = loop.create_future()
                    await st['waiting']
                st['waiting'] = None
                st['permits'] -= 1
                op = calls[i % len(calls)]
                i += 1
                try:
                    if op[0] == 'read':
                        v = await r.read(op[1])
                    elif op[0] == 'readexactly':
                        v = await r.readexactly(op[1])
                    elif op[0] == 'readline':
                        v = await r.readline()
                    elif op[0] == 'readuntil':
                        v = await r.readuntil(op[1])
                    results.append((op, 'ok', v))
                    if not v and op != ('read', 0) and r.at_eof():
                        break
                except asyncio.IncompleteReadError as exc:
                    results.append((op, 'incomplete', exc.partial, exc.expected))
                    if r.at_eof() and not exc.partial:
                        break
                except (asyncssh.SignalReceived, asyncssh.BreakReceived, asyncssh.TerminalSizeChanged) as exc:
                    results.append((op, 'event', _ev_of(exc)))
            st['done'] = True
            process.exit(0)
        so = dict(process_factory=handler, encoding=enc, max_pktsize=pkt)
        if win:
            so['window'] = win      # = the handler's stream buffer limit
        pair = P.Pair(loop, sopts=so)
        pair.handshake()

        async def client():
            # a pseudo-terminal only where a size change is sent (bytes mode: no line editor is put in front of stdin)
            proc = await pair.c.create_process('cmd', encoding=enc,
                                               term_type='vt100' if any(a[0] == 'winch' for a in script) else None)
            for a in script:
                if a[0] == 'w':
                    proc.stdin.write(a[1])
                elif a[0] == 'sig':
                    proc.send_signal(a[1])
                elif a[0] == 'break':
                    proc.send_break(a[1])
                elif a[0] == 'winch':
                    proc.change_terminal_size(a[1], a[2])
                elif a[0] == 'sync':
                    # carry on only when the handler has consumed everything sent so far (data is subject to the
                    # window, requests are not: without this a signal could overtake data waiting for window)
                    st['sync'] = loop.create_future()
                    await st['sync']
                    st['sync'] = None
            proc.stdin.write_eof()
            return proc
        task = loop.create_task(client())
        steps = 0
        while True:
            loop.quiesce()
            if pair.ct in loop.deliverable():       # server -> client traffic (confirmations, window adjusts): no choice
                P.deliver_packet(loop, pair.ct)
                steps += 1
                continue
            opts = []
            if pair.st in loop.deliverable():
                opts.append('deliver')
            if st['waiting'] is not None and not st['waiting'].done() and not st['done']:
                opts.append('call')
            if st['done']:
                break
            if not opts:
                if st['sync'] is not None and not st['sync'].done():
                    st['sync'].set_result(None)
                    continue
                break
            if st['sync'] is not None and 'call' in opts and 'deliver' not in opts:
                k = 0               # nothing else can happen: the reader catches up
            else:
                k = chooser.choose(len(opts), label='step') if len(opts) > 1 else 0
            if opts[k] == 'deliver':
                P.deliver_packet(loop, pair.st)
            else:
                st['permits'] += 1
                st['waiting'].set_result(None)
            steps += 1
            if steps > 5000:
                raise Livelock('too many steps')
        loop.flush_all()
        viol = []
        if not st['done']:
            viol.append(('reader-hangs', 'the handler never saw EOF: %d results so far' % len(results)))
        # segments of the script
        segs, evs, cur = [], [], ('' if text else b'')
        for a in script:
            if a[0] == 'sync':
                continue
            if a[0] == 'w':
                cur += a[1]
            else:
                segs.append(cur)
                evs.append(tuple(a))
                cur = cur[:0]
        segs.append(cur)
        si = 0
        m = Model(segs[0], limit=win)
        for rec in results:
            op = rec[0]
            if rec[1] == 'event':
                if m.p != len(m.d):
                    viol.append(('event-before-data', '%r raised with %r of the data sent before it still unread' % (rec[2], m.rest()[:30])))
                    break
                if si >= len(evs) or rec[2] != evs[si]:
                    viol.append(('wrong-event', '%r raised, expected %r' % (rec[2], evs[si] if si < len(evs) else 'EOF')))
                    break
                si += 1
                m = Model(segs[si], limit=win)
                continue
            if m.overrun(op, rec):
                continue
            at_end = m.p == len(m.d)
            if at_end and si < len(evs) and op != ('read', 0):
                viol.append(('event-lost', '%r returned %r where %r was due' % (op, rec[1:3], evs[si])))
                break
            exp = m.call(op)
            if exp[0] == 'some':
                v = rec[2] if rec[1] == 'ok' else None
                rest = m.rest()
                if v is None or len(v) > exp[1] or not rest.startswith(v) or (not v and rest):
                    viol.append(('read-n', 'read(%d) returned %r with %r remaining before the next event' % (exp[1], v, rest[:30])))
                    break
                m.p += len(v)
            elif exp[0] == 'ok':
                if rec[1] != 'ok' or rec[2] != exp[1]:
                    viol.append(('wrong-split', '%r returned %r, the stream up to the next event splits as %r' % (op[:2], rec[1:3], exp[1])))
                    break
            else:
                if rec[1] != 'incomplete' or rec[2] != exp[1] or (exp[2] is not None and rec[3] != exp[2]):
                    viol.append(('wrong-partial', '%r gave %r, expected IncompleteReadError(partial=%r, expected=%r)' % (op[:2], rec[1:], exp[1], exp[2])))
                    break
        if not viol and st['done'] and (si != len(evs) or m.p != len(m.d)):
            viol.append(('data-lost', 'reads ended after %d of %d events, %d of %d units of the last stretch' % (si, len(evs), m.p, len(m.d))))
        if loop.unretrieved():
            viol.append(('loop-exception', repr(loop.exc_log[0].get('exception'))[:200]))
        # what the application saw, flattened (adjacent data merged): the weaker statement C07 makes
        flat = []
        for rec in results:
            item = rec[2]
            if rec[1] != 'event' and not item:
                continue
            if rec[1] != 'event' and flat and not isinstance(flat[-1], tuple):
                flat[-1] += item
            else:
                flat.append(item)
        sent = [x for pair_ in zip(segs, evs + [None]) for x in pair_ if x is not None and x != segs[0][:0]]
        return {'viol': viol, 'steps': steps, 'nres': len(results), 'flat': flat, 'sent': sent, 'done': st['done']}
    except Livelock as exc:
        return {'viol': [('livelock', str(exc))], 'steps': 0, 'nres': len(results), 'flat': None, 'sent': None, 'done': False}
    finally:
        P.done(loop)


def inband_scripts():
    S, B, W = ('sig', 'INT'), ('break', 10), ('winch', 100, 30)
    w = lambda d: ('w', d)
    return {
        'two-chunks-sig': [w(b'abc'), w(b'def'), S, w(b'ghi\n'), w(b'x')],
        'line-chunks-break-winch': [w(b'ab\ncd'), w(b'ef'), w(b'gh'), B, w(b'\nij'), W],
        'adjacent-events': [S, w(b'a\n'), S, B, w(b'b')],
        'event-last': [w(b'abc'), w(b'--d'), S],
        'three-chunks': [w(b'a'), w(b'b'), w(b'c'), W, w(b'd\n'), w(b'e'), w(b'f'), S, w(b'\n')],
    }


def inband_jobs(tier):
    callsets = {
        'readline': [('readline',)], 'readuntil(nl)': [('readuntil', b'\n')], 'readuntil(--|nl)': [('readuntil', (b'--', b'\n'))],
        'read(2)': [('read', 2)], 'read(100)': [('read', 100)], 'read(-1)': [('read', -1)],
        'readexactly(2)': [('readexactly', 2)], 'readexactly(4)': [('readexactly', 4)], 'readexactly(100)': [('readexactly', 100)],
        'mixed': [('readexactly', 1), ('readline',), ('read', 2)],
    }
    bound = 2 if tier == 'quick' else 4
    jobs = []
    for sname, script in inband_scripts().items():
        for cname, calls in callsets.items():
            for pkt in (2, 32768):
                jobs.append((dict(name=sname, script=script, pkt=pkt, cname=cname, calls=calls), bound))
    # a small stream buffer (window 64): partial lines interrupted again and again, the handler catching up in between
    # (what each interrupted read took out of the buffer must also leave the buffer's accounting), then lines
    # around the buffer size arriving in pieces
    S, W, Y = ('sig', 'INT'), ('winch', 90, 20), ('sync',)
    w = lambda d: ('w', d)
    b = lambda n, c=b'p': c * n
    wscripts = {
        'interrupted-x3-then-line': [w(b(20)), S, Y, w(b(20, b'q')), W, Y, w(b(20, b'r')), S, Y, w(b(30, b's')), w(b'tail\n'), Y, w(b(50, b't') + b'\n'), w(b'end\n')],
        'interrupted-x4-two-chunks': [w(b(10)), w(b(10, b'u')), S, Y] * 4 + [w(b(40, b'v')), Y, w(b(10, b'w') + b'\n'), w(b'z\n')],
        'full-then-event': [w(b(60)), Y, w(b(10, b'x')), W, Y, w(b'y\n'), w(b'end\n')],
        # exactly one buffer of partial line with the event right behind it, both there before the handler looks
        'window-exactly-then-event': [w(b(64)), W, Y, w(b'y\n'), w(b'end\n')],
        'window-exactly-two-chunks-then-event': [w(b(32)), w(b(32, b'k')), S, Y, w(b'y\n'), w(b'end\n')],
    }
    for sname, script in wscripts.items():
        for cname in ('readline', 'readuntil(nl)', 'read(100)', 'readexactly(4)', 'mixed'):
            for pkt in (8, 32768):
                jobs.append((dict(name=sname, script=script, pkt=pkt, win=64, cname=cname, calls=callsets[cname]), bound))
    T = [('w', 'aé'), ('w', '€b'), ('sig', 'TERM'), ('w', '\U0001d11e\nz'), ('w', 'y'), ('break', 0), ('w', 'q')]
    for cname, calls in (('readline', [('readline',)]), ('read(1)', [('read', 1)]), ('readexactly(3)', [('readexactly', 3)]),
                         ('readuntil(€)', [('readuntil', '€')])):
        for pkt in (1, 3, 32768):
            jobs.append((dict(name='text', script=T, pkt=pkt, cname=cname, calls=calls, text=True), bound))
    return jobs


def inband_worker(job):
    cfg, bound = job
    acc = core.Acc()
    name = 'inband|%s|pkt=%d|%s' % (cfg['name'], cfg['pkt'], cfg['cname'])

    def check(obs, ch):
        acc.add(core.digest((name, tuple(ch.choices))), transitions=obs['steps'],
                sample={'inband_events': cfg['name'], 'max_pktsize': cfg['pkt'], 'calls': cfg['cname'], 'results': obs['nres']}
                if not any(ch.choices) else None)
        for k, d in obs['viol']:
            acc.violation('inband:%s:%s' % (k, cfg['cname'].split('(')[0]), '%s ; script=%s calls=%s pkt=%d' % (d, cfg['name'], cfg['cname'], cfg['pkt']),
                          {'kind': 'inband', 'name': cfg['name'], 'cname': cfg['cname'], 'pkt': cfg['pkt'], 'choices': ch.choices})
    core.explore_dfs(lambda ch: inband_run(cfg, ch), bound, check)
    return acc


# ------------------------------------------------------------------ drain() on a process whose stdin is fed by a redirect
def redirect_drain_case(source, ending, k):
    """stdin of a process is redirected from a source that is still open (a StreamReader that has not reached EOF,
    the stdout of another process, an async file whose read suspends); the application awaits stdin.drain();
    after k packet deliveries the channel goes away (abort, close, peer closes, connection lost): drain()
    returns or fails, it does not wait for ever"""
    loop = P.fresh(0)
    P.install_wire_labels()
    viol = []
    try:
        async def handler(process):
            if process.command == 'src':
                process.stdout.write(b'x' * 40)
                await process.stdin.read()
            else:
                await process.stdin.read()
        pair = P.Pair(loop, sopts=dict(process_factory=handler, encoding=None, window=64, max_pktsize=32))
        pair.handshake()
        st = {}

        class AFile:
            async def read(self, n=-1):
                st['afile_fut'] = loop.create_future()
                return await st['afile_fut']

            async def close(self):
                pass

        async def client():
            if source == 'stream-reader':
                rd = asyncio.StreamReader()
                rd.feed_data(b'y' * 50)
                src = rd
            elif source == 'process':
                st['p0'] = await pair.c.create_process('src', encoding=None)
                src = st['p0'].stdout
            else:
                src = AFile()
            p = await pair.c.create_process('sink', stdin=src, encoding=None)
            st['p'] = p
            await p.stdin.drain()
        t = loop.create_task(client())
        steps = 0
        while steps < k:
            loop.quiesce()
            opts = [x for x in (pair.st, pair.ct) if x in loop.deliverable()]
            if not opts:
                break
            P.deliver_packet(loop, opts[0])
            steps += 1
        loop.quiesce()
        p = st.get('p')
        if p is not None:
            if ending == 'abort':
                p.channel.abort()
            elif ending == 'close':
                p.close()
            elif ending == 'peer-close':
                for s_ in pair.s._channels.values():
                    s_.abort()
            else:
                loop.cut(pair.ct)
            loop.flush_all()
            if not t.done():
                viol.append(('drain-hangs', 'stdin.drain() still pending after %s (%d deliveries before it); stdin fed from %s' % (ending, steps, source)))
        if loop.unretrieved():
            viol.append(('loop-exception', repr(loop.exc_log[0].get('exception') or loop.exc_log[0].get('message'))[:200]))
        if not t.done():
            t.cancel()
            f = st.get('afile_fut')
            if f is not None and not f.done():
                f.cancel()
            try:
                loop.flush_all()
            except Livelock:
                pass
        return viol, steps
    except Livelock as exc:
        return [('livelock', str(exc))], 0
    finally:
        P.done(loop)


def redirect_drain_worker(job):
    acc = core.Acc()
    for case in job:
        viol, steps = redirect_drain_case(*case)
        acc.add(core.digest(('redirect-drain',) + tuple(case)), transitions=steps + 1,
                sample={'drain_with_redirected_stdin': dict(zip(('source', 'ending', 'deliveries_before'), case))} if case == ('stream-reader', 'abort', 6) else None)
        for k_, d in viol:
            acc.violation('process:%s:redirected-stdin:%s:%s' % (k_, case[0], case[1]), '%s ; case=%r' % (d, case), {'kind': 'redirect-drain', 'case': list(case)})
    return acc


def redirect_drain_jobs():
    cases = [(src, end, k) for src in ('stream-reader', 'process', 'async-file') for end in ('abort', 'close', 'peer-close', 'cut') for k in range(0, 16)]
    return [cases[i::16] for i in range(16)]


def main(tier, seed):
    t0 = core.now()
    os.makedirs(SCRATCH, exist_ok=True)
    js = stream_jobs(tier)
    a = run_stream(js[5][0], core.Chooser([]), seed)
    b = run_stream(js[5][0], core.Chooser([]), seed)
    if a != b:
        print('HARNESS-NONDETERMINISM')
        return 2
    acc = core.pmap(stream_worker, core.rotate(js, seed), chunksize=4)
    n_a = acc.evaluations
    orders = exit_orders()
    acc.merge(core.pmap(exit_worker, [orders[i::16] for i in range(16)]))
    acc.merge(core.pmap(redirect_worker, [0]))
    acc.merge(core.pmap(late_redirect_worker, late_redirect_jobs(tier)))
    acc.merge(core.pmap(pipe_worker, pipe_jobs(tier)))
    acc.merge(core.pmap(bp_worker, bp_jobs(tier)))
    acc.merge(core.pmap(drain_worker, [0]))
    acc.merge(core.pmap(drain2_worker, drain2_jobs(tier)))
    acc.merge(core.pmap(inband_worker, inband_jobs(tier), chunksize=2))
    acc.merge(core.pmap(redirect_drain_worker, redirect_drain_jobs()))
    shutil.rmtree(SCRATCH, ignore_errors=True)
    rule = ('(a) 7 byte streams + a 3-window stream + a multi-byte text stream x 15 read-call menus (read n / -1 / 0, '
            'readexactly, readline, readuntil with one, several and regex separators incl. overlapping prefixes) x '
            'max packet sizes {1,2,3,5,32768} x packet delivery orders within the deviation bound; (b) %d orders of '
            'stdout/stderr data, EOF, exit-status|exit-signal before CLOSE from the independent peer; (c) 17 '
            'redirection kinds (incl. targets written asynchronously: coroutine write()/close() suspended on the clock, a StreamWriter), and stdout/stderr of a running process redirected to a path / file / other process / DEVNULL '
            'after every number 0..25 of packet deliveries (stream buffer empty, full with the channel paused, after '
            'EOF, after exit), with and without a read before; stdout or stderr of one process made the stdin of another '
            '(at creation or by redirect_stdin) after every number 0..15 of deliveries; a pipe into a process that does not '
            'read, then a new target for the blocked producer; (d) two write+drain rounds under 5 write-buffer limit settings (incl. low-water 0 and high 0), all delivery '
            'orders within the bound, and connection loss at every step; two writers of one channel (stdout, stderr) '
            'draining after each write: no drain() returns while writing is paused; (e) a server handler reading stdin '
            'while the client interleaves chunks with signals, breaks and terminal size changes: 5 scripts + a text one x 10 '
            'call menus x packet sizes, every interleaving of packet delivery and reader calls within the bound: data between '
            'two events splits like a stream ending there, every event is raised once, in place'
            % len(orders))
    return core.finish(PROP, tier, seed, 'model_checking', acc, t0, rule,
                       {'stream_execs': n_a, 'exit_orders': len(orders), 'deviation_bound': 2 if tier == 'quick' else 3},
                       assumptions=['OS pipe redirection targets need connect_read_pipe/connect_write_pipe, which the '
                                    'virtual loop does not provide: not covered',
                                    'separator search beyond the stream buffer limit: single-byte separator only'])


def replay(rep):
    r = rep['replay']
    os.makedirs(SCRATCH, exist_ok=True)
    if r['kind'] == 'stream':
        full = core.Acc()
        for job in stream_jobs('thorough'):
            c = job[0]
            if c['name'] == r['cfg']['name'] and c['pkt'] == r['cfg']['pkt'] and c['cname'] == r['cfg']['cname']:
                obs = run_stream(c, core.Chooser(r['choices']))
                for k, d in obs['viol']:
                    full.violation(k, d, r)
        acc = full
    elif r['kind'] == 'redirect-drain':
        acc = redirect_drain_worker([tuple(r['case'])])
    elif r['kind'] == 'inband':
        acc = core.Acc()
        for c, _b in inband_jobs('thorough'):
            if (c['name'], c['cname'], c['pkt']) == (r['name'], r['cname'], r['pkt']):
                for k, d in inband_run(c, core.Chooser(r['choices']))['viol']:
                    acc.violation(k, d, r)
    elif r['kind'] == 'exit':
        acc = exit_worker([tuple(r['order'])])
    elif r['kind'] == 'drain2':
        acc = drain2_worker([(tuple(r['limits']), r['chunk'], 0)])
    elif r['kind'] == 'bp':
        acc = bp_worker([(r['cfg'], 0)])
    elif r['kind'] == 'pipe':
        acc = pipe_worker([(r['cfg'], 0)])
    elif r['kind'] == 'late-redirect':
        acc = late_redirect_worker([(r['cfg'], 0)])
    elif r['kind'] == 'redirect':
        acc = redirect_worker(0)
    else:
        acc = drain_worker(0)
    print(json.dumps(acc.violations[:5], indent=1, default=repr))
    if acc.violations:
        print('VIOLATION property=%s replay=(given)' % PROP)
        return 1
    return 0
