"""C20  Forwarded connections relay faithfully and only where permitted.

Real client <-> real server plus virtual TCP/UNIX endpoints A (application) and B
(destination) on the virtual network.  For each forwarding kind a scripted conversation
(writes in both directions incl. before the channel is confirmed, half-close each way,
close) is explored under deviation-bounded DFS over: delivery order of every pending pipe,
performing the next application action early, cutting the SSH connection, closing the
listener.  Oracles: relay model, half-close propagation, close propagation, release of all
listeners/transports/sockets.  Plus the permission matrix and the SOCKS request grid.
"""

import asyncio
import itertools
import json
import os
import struct

import asyncssh

import core
import pair as P
from vloop import EOF, Livelock, VServer

PROP = 'C20'


class End(asyncio.Protocol):
    def __init__(self, name, log):
        self.name, self.log = name, log
        self.t = None
        self.data = b''
        self.eof = False
        self.lost = False

    def connection_made(self, transport):
        self.t = transport
        self.log.append(self)

    def data_received(self, data):
        self.data += data

    def eof_received(self):
        self.eof = True
        return True                 # keep our sending side open (half-close)

    def connection_lost(self, exc):
        self.lost = True


def msg(side, k, n):
    return bytes(((k * 17 + i * 5 + (3 if side == 'A' else 11)) % 251) for i in range(n))


SCRIPTS = {
    'duplex-halfclose': [('A', 'w', 5), ('B', 'w', 7), ('A', 'w', 300), ('A', 'eof'), ('B', 'w', 4), ('B', 'eof')],
    'b-first-halfclose': [('B', 'w', 6), ('B', 'eof'), ('A', 'w', 9), ('A', 'w', 2), ('A', 'eof')],
    'a-close': [('A', 'w', 5), ('B', 'w', 3), ('A', 'close')],
    'b-close': [('A', 'w', 5), ('B', 'w', 3), ('B', 'close')],
    'eof-only': [('A', 'eof'), ('B', 'w', 3), ('B', 'eof')],
    'request-then-eof': [('A', 'w', 5), ('A', 'eof'), ('B', 'w', 3), ('B', 'eof')],
    # the application sends its request and half-closes in the same instant it connects (nc -N style):
    # both arrive at the forwarder before the SSH channel is confirmed
    'burst-request-eof': [('burst', 2), ('A', 'w', 5), ('A', 'eof'), ('B', 'w', 3), ('B', 'eof')],
    'burst-eof': [('burst', 1), ('A', 'eof'), ('B', 'w', 3), ('B', 'eof')],
    'burst-request': [('burst', 1), ('A', 'w', 9), ('B', 'w', 3), ('A', 'eof'), ('B', 'eof')],
    # the connection to the destination takes time to come up: its completion is one more event, which may fall
    # after the application gave up, after the listener was closed, after the SSH connection was lost
    'slow-destination': [('slow',), ('A', 'w', 5), ('B', 'w', 3), ('A', 'eof'), ('B', 'eof')],
    'slow-destination-a-closes': [('slow',), ('A', 'w', 5), ('A', 'close')],
}


class World:
    def __init__(self, kind, sopts=None, copts=None, app_allow=True, dest=('b.example', 80)):
        self.kind = kind
        self.loop = P.fresh(0)
        P.install_wire_labels()
        self.ends = []
        self.dest = dest
        self.requests = []
        world = self

        class Srv(P.RecServer):
            def connection_requested(self, dest_host, dest_port, orig_host, orig_port):
                world.requests.append(('direct', dest_host, dest_port))
                return app_allow

            def server_requested(self, listen_host, listen_port):
                world.requests.append(('listen', listen_host, listen_port))
                return app_allow

            def unix_connection_requested(self, dest_path):
                world.requests.append(('unix', dest_path))
                return app_allow

            def unix_server_requested(self, listen_path):
                world.requests.append(('unix-listen', listen_path))
                return app_allow
        self.env = {}
        so = dict(server_factory=lambda: self._mk(Srv))
        so.update(sopts or {})
        self.pair = P.Pair(self.loop, sopts=so, copts=copts or {}, env=self.env)
        self.listener = None
        self.A = None

    def _mk(self, cls):
        self.srv_owner = cls(self.env)
        return self.srv_owner

    def run(self, coro, horizon=20000):
        if not asyncio.iscoroutine(coro):
            aw = coro

            async def _wrap():
                return await aw
            coro = _wrap()
        t = self.loop.create_task(coro)
        self.loop.flush_all(horizon)
        if not t.done():
            raise Livelock('setup task pending')
        return t.result()

    def setup(self):
        loop, c = self.loop, self.pair.c
        self.pair.handshake()
        self.pair.server_owner = getattr(self, 'srv_owner', None)
        k = self.kind
        # destination service B
        if k in ('local', 'socks4', 'socks5', 'socks4a', 'open_connection'):
            self.bsrv = self.run(loop.create_server(lambda: End('B', self.ends), self.dest[0], self.dest[1]))
        elif k == 'remote':
            self.bsrv = self.run(loop.create_server(lambda: End('B', self.ends), 'b.example', 80))
        elif k in ('local-path', 'remote-path'):
            self.bsrv = self.run(loop.create_unix_server(lambda: End('B', self.ends), '/vdest'))
        # forwarder
        if k == 'local':
            self.listener = self.run(c.forward_local_port('127.0.0.1', 0, self.dest[0], self.dest[1]))
            self.target = ('127.0.0.1', self.listener.get_port())
        elif k == 'remote':
            self.listener = self.run(c.forward_remote_port('127.0.0.1', 0, 'b.example', 80))
            self.target = ('127.0.0.1', self.listener.get_port())
        elif k == 'local-path':
            self.listener = self.run(c.forward_local_path('/vlisten', '/vdest'))
            self.target = '/vlisten'
        elif k == 'remote-path':
            self.listener = self.run(c.forward_remote_path('/vrlisten', '/vdest'))
            self.target = '/vrlisten'
        elif k.startswith('socks'):
            self.listener = self.run(c.forward_socks('127.0.0.1', 0))
            self.target = ('127.0.0.1', self.listener.get_port())
        return self

    def connect_a(self):
        loop = self.loop
        a = End('A', [])
        self.A = a
        if isinstance(self.target, str):
            t = loop.create_task(loop.create_unix_connection(lambda: a, self.target))
        else:
            t = loop.create_task(loop.create_connection(lambda: a, self.target[0], self.target[1]))
        loop.quiesce()
        if not t.done():
            raise Livelock('A could not connect')
        t.result()
        if self.kind == 'socks5':
            a.t.write(bytes([5, 1, 0]))
            host = self.dest[0].encode()
            a.t.write(bytes([5, 1, 0, 3, len(host)]) + host + struct.pack('>H', self.dest[1]))
        elif self.kind == 'socks4':
            a.t.write(bytes([4, 1]) + struct.pack('>H', self.dest[1]) + bytes(int(x) for x in self.loop_addr(self.dest[0]).split('.')) + b'user\0')
        elif self.kind == 'socks4a':
            a.t.write(bytes([4, 1]) + struct.pack('>H', self.dest[1]) + bytes([0, 0, 0, 1]) + b'u\0' + self.dest[0].encode() + b'\0')

    def B(self):
        return self.ends[0] if self.ends else None

    def loop_addr(self, host):
        import hashlib
        h = hashlib.sha256(host.encode()).digest()
        return '10.%d.%d.%d' % (h[0], h[1], h[2] or 1)

    def close(self):
        P.done(self.loop)


def norm(label):
    import re
    return re.sub(r'127\.0\.0\.1:\d+', '127.0.0.1:L', label)


def relay_side(end):
    """the asyncssh-owned transport connected to one of the harness endpoints"""
    return end.t.peer if end is not None and end.t is not None else None


def socks_prefix_len(kind):
    return {'socks5': 2 + 10, 'socks4': 8, 'socks4a': 8}.get(kind, 0)


def explore_run(kind, script_name, chooser):
    script = SCRIPTS[script_name]
    w = World(kind)
    loop = w.loop
    viol = []
    trace = []
    sent = {'A': b'', 'B': b''}
    eof_sent = {'A': False, 'B': False}
    closed_by = None
    cut = False
    lclosed = False
    try:
        w.setup()
        pending_actions = list(script)
        if pending_actions and pending_actions[0] == ('slow',):
            pending_actions.pop(0)
            loop.slow_connect = lambda host, port: host == w.dest[0]
        w.connect_a()
        burst = 0
        if pending_actions and pending_actions[0][0] == 'burst':
            burst = pending_actions.pop(0)[1]
        deferred = []                   # B-side actions issued before B exists
        steps = 0
        counters = {'A': 0, 'B': 0}

        def do(act):
            nonlocal closed_by
            side = act[0]
            end = w.A if side == 'A' else w.B()
            if end is None or end.t is None:
                return False
            if end.lost or end.t.is_closing():
                return True
            if act[1] == 'w':
                d = msg(side, counters[side], act[2])
                counters[side] += 1
                end.t.write(d)
                sent[side] += d
            elif act[1] == 'eof':
                end.t.write_eof()
                eof_sent[side] = True
            elif act[1] == 'close':
                end.t.close()
                closed_by = closed_by or side
            return True
        for _ in range(burst):
            do(pending_actions.pop(0))
        if burst:
            # the burst reaches the listening forwarder at once
            loop.quiesce()
            fw = w.A.t.peer
            while fw in loop.deliverable():
                loop.deliver(fw)
                loop.quiesce()
        while True:
            loop.quiesce()
            dl = loop.deliverable()
            acts = []
            if pending_actions:
                acts.append(('act',))
            if not cut and not w.pair.ct.lost:
                acts.append(('cut',))
            if not lclosed and w.listener is not None:
                acts.append(('lclose',))
            if not dl and not cut and closed_by is None and not viol:
                # nothing in flight: a half-close made so far has reached the other application, while the
                # other direction is still open (a server that answers only after the request's EOF would
                # otherwise wait for ever)
                for src, dst_end in (('A', w.B()), ('B', w.A)):
                    if eof_sent[src] and dst_end is not None and dst_end.t is not None and not dst_end.eof and not dst_end.lost:
                        viol.append(('eof-not-propagated', '%s half-closed and everything in flight was delivered, the other end has not seen EOF' % src))
            conns = [('conn', i) for i in range(len(loop.open_connects()))]
            if dl:
                menu = [('d', t) for t in dl] + conns + acts
            elif conns:
                menu = conns + acts
            elif pending_actions:
                menu = [('act',)] + [a for a in acts if a != ('act',)]
            else:
                break
            k = chooser.choose(len(menu), label='ev')
            ev = menu[k]
            if ev[0] == 'd':
                trace.append('d:' + norm(ev[1].label))
                loop.deliver(ev[1])
            elif ev[0] == 'conn':
                trace.append('connect-completes')
                loop.complete_connect(ev[1])
            elif ev[0] == 'act':
                act = pending_actions[0]
                if do(act):
                    pending_actions.pop(0)
                    trace.append('%s.%s' % (act[0], act[1]))
                elif not dl and loop.open_connects():
                    trace.append('connect-completes')
                    loop.complete_connect(0)
                elif not dl:
                    # B not connected yet and nothing in flight: the channel never opened
                    break
                else:
                    trace.append('d:' + norm(dl[0].label))
                    loop.deliver(dl[0])
            elif ev[0] == 'cut':
                cut = True
                trace.append('cut')
                loop.cut(w.pair.ct)
            elif ev[0] == 'lclose':
                lclosed = True
                trace.append('listener.close')
                w.listener.close()
            steps += 1
            if steps > 3000:
                raise Livelock('too many events')
        # ---------------- oracle
        A, B = w.A, w.B()
        skip = socks_prefix_len(kind)
        a_got = A.data[skip:] if kind.startswith('socks') else A.data
        if kind.startswith('socks') and len(A.data) < skip and not cut:
            pass
        clean = not cut and closed_by is None
        if B is None:
            if clean and not pending_actions:
                viol.append(('no-connection-to-destination', 'B was never connected'))
        else:
            if clean and not pending_actions:
                if B.data != sent['A']:
                    viol.append(('relay-mismatch', 'A sent %d bytes, B received %d (prefix ok: %s)' % (len(sent['A']), len(B.data), sent['A'].startswith(B.data))))
                if a_got != sent['B']:
                    viol.append(('relay-mismatch', 'B sent %d bytes, A received %d (prefix ok: %s)' % (len(sent['B']), len(a_got), sent['B'].startswith(a_got))))
                if eof_sent['A'] and not B.eof and not B.lost:
                    viol.append(('eof-not-propagated', 'A half-closed, B never saw EOF'))
                if eof_sent['B'] and not A.eof and not A.lost:
                    viol.append(('eof-not-propagated', 'B half-closed, A never saw EOF'))
                ra, rb = relay_side(A), relay_side(B)
                if eof_sent['A'] and eof_sent['B'] and not (ra.closing and rb.closing):
                    viol.append(('not-closed-after-both-eof', 'both directions ended but the relay keeps its sockets '
                                 'open: A-side closed=%s B-side closed=%s' % (ra.closing, rb.closing)))
            else:
                if not sent['A'].startswith(B.data):
                    viol.append(('relay-corrupt', 'B received bytes A never sent'))
                if not sent['B'].startswith(a_got):
                    viol.append(('relay-corrupt', 'A received bytes B never sent'))
            if closed_by and not cut and not pending_actions:
                # a close reaches the other application as end of file (TCP FIN); once that application
                # closes as well, the relay must have released both sockets and the channel
                other = B if closed_by == 'A' else A
                if not (other.eof or other.lost):
                    viol.append(('close-not-propagated', '%s closed its end, the other end saw neither EOF nor close' % closed_by))
                else:
                    if not other.lost and not other.t.is_closing():
                        other.t.close()
                    loop.flush_all()
                    ra, rb = relay_side(A), relay_side(B)
                    if not (ra.closing and rb.closing):
                        viol.append(('close-not-propagated', 'both applications closed; relay A-side closed=%s B-side closed=%s'
                                     % (ra.closing, rb.closing)))
                    if w.pair.c._channels or w.pair.s._channels:
                        viol.append(('channel-left-after-close', 'client=%r server=%r' % (list(w.pair.c._channels), list(w.pair.s._channels))))
        # ---------------- release of resources when the SSH connection ends
        if not w.pair.ct.lost:
            w.pair.c.close()
        loop.flush_all()
        while loop.open_connects():         # connects still under way complete afterwards, as they would
            loop.complete_connect(0)
            loop.flush_all()
        for nm, conn in (('client', w.pair.c), ('server', w.pair.s)):
            if conn._local_listeners:
                viol.append(('listener-registered-after-close', nm))
            if conn._channels:
                viol.append(('channel-registered-after-close', nm))
        w.bsrv.close()
        left = [a for a in loop.listeners]
        if left:
            viol.append(('listener-leaked', repr(left)))
        if w.listener is not None:
            for s_ in getattr(w.listener, '_servers', []) or []:
                sk = getattr(s_, 'sock', None)
                if sk is not None and sk.fileno() != -1:
                    viol.append(('socket-leaked', 'listening socket still open'))
        mine = {id(e.t) for e in [w.A] + w.ends if e is not None and e.t is not None}
        open_tr = [norm(t.label) for t in loop.transports
                   if not t.closing and not t.lost and t not in (w.pair.ct, w.pair.st) and id(t) not in mine]
        if open_tr:
            viol.append(('relayed-socket-leaked', repr(open_tr)))
        if loop.unretrieved():
            viol.append(('loop-exception', repr(loop.exc_log[0].get('exception') or loop.exc_log[0].get('message'))[:200]))
        return {'viol': viol, 'trace': trace, 'steps': steps}
    except Livelock as exc:
        return {'viol': [('livelock', str(exc))], 'trace': trace, 'steps': 0}
    finally:
        w.close()


def explore_worker(job):
    kind, script, bound, prefix = job
    acc = core.Acc()

    def check(obs, ch):
        acc.add(core.digest((kind, script, tuple(obs['trace']))), transitions=obs['steps'],
                sample={'kind': kind, 'script': script, 'events': obs['trace'][:40]} if len(ch.labels()) == 1 and 'cut' in obs['trace'] else None)
        for k, d in obs['viol']:
            acc.violation('forward:%s:%s:%s' % (k, kind, script), '%s ; events=%s' % (d, ' '.join(obs['trace'])[-500:]),
                          {'kind': 'explore', 'fwd': kind, 'script': script, 'choices': ch.choices})
    core.explore_dfs(lambda ch: explore_run(kind, script, ch), bound, check, root_prefix=prefix)
    return acc


# ------------------------------------------------------------------ permission matrix
def perm_worker(job):
    acc = core.Acc()
    for auth_opts, cert_mode, app_allow, dest in job:
        ukey = P.key('c20-user')
        ca = P.key('c20-ca')
        line = ''
        viol = []
        if cert_mode == 'none':
            line = (auth_opts + ' ' if auth_opts else '') + ukey.export_public_key('openssh').decode()
            client_keys = [ukey]
        else:
            kw = {'permit_port_forwarding': cert_mode == 'cert-permit'}
            cert = ca.generate_user_certificate(ukey, 'id', principals=['user'], **kw)
            line = ('cert-authority' + (',' + auth_opts if auth_opts else '')) + ' ' + ca.export_public_key('openssh').decode()
            client_keys = [(ukey, cert)]
        w = World('open_connection', sopts=dict(authorized_client_keys=asyncssh.import_authorized_keys(line + '\n')),
                  copts=dict(client_keys=client_keys, password=None, preferred_auth='publickey'), app_allow=app_allow,
                  dest=('b.example', 80))
        try:
            w.setup()
            w.bsrv2 = w.run(w.loop.create_server(lambda: End('B2', w.ends), 'b.example', 81))
            w.bsrv3 = w.run(w.loop.create_server(lambda: End('B3', w.ends), 'c.example', 80))
            n0 = len(w.loop.connect_log)

            async def go():
                try:
                    r, wr = await w.pair.c.open_connection(dest[0], dest[1])
                    wr.write(b'hello')
                    return 'opened'
                except asyncssh.ChannelOpenError as exc:
                    return 'refused:%d' % exc.code
            res = w.run(go())
            attempted = len(w.loop.connect_log) > n0
            key_allows = 'no-port-forwarding' not in auth_opts
            if 'permitopen=' in auth_opts:
                pats = [x.split('"')[1] for x in auth_opts.split(',') if x.startswith('permitopen=')]
                ok = False
                for p in pats:
                    h, pt = p.rsplit(':', 1)
                    if h == dest[0] and (pt == '*' or int(pt) == dest[1]):
                        ok = True
                key_allows = key_allows and ok
            cert_allows = cert_mode != 'cert-deny'
            want = key_allows and cert_allows and app_allow
            if want and res != 'opened':
                viol.append(('permitted-forward-refused', res))
            if not want:
                if res == 'opened':
                    viol.append(('forbidden-forward-served', 'channel opened'))
                if attempted:
                    viol.append(('forbidden-destination-contacted', 'a connection to %r was attempted' % (dest,)))
            if not want and not key_allows and w.requests:
                pass
            # listen request (tcpip-forward) under the same credential
            async def listen():
                try:
                    l = await w.pair.c.forward_remote_port('127.0.0.1', 0, 'b.example', 80)
                    return 'listening' if l else 'refused'
                except asyncssh.ChannelListenError:
                    return 'refused'
            lres = w.run(listen())
            lwant = ('no-port-forwarding' not in auth_opts) and cert_allows and app_allow
            if lwant != (lres == 'listening'):
                viol.append(('listen-permission', 'tcpip-forward %s, expected %s' % (lres, 'listening' if lwant else 'refused')))
            # the same credential and application answer decide UNIX-domain forwarding in both directions
            if dest == ('b.example', 80):
                w.run(w.loop.create_unix_server(lambda: End('BU', w.ends), '/vdest'))
                nlog = len(w.loop.connect_log)

                async def ugo():
                    try:
                        r, wr = await w.pair.c.open_unix_connection('/vdest')
                        return 'opened'
                    except asyncssh.ChannelOpenError as exc:
                        return 'refused:%d' % exc.code
                ures = w.run(ugo())
                uattempt = any(k == 'unix' for k, _p, _ok in w.loop.connect_log[nlog:])
                uwant = ('no-port-forwarding' not in auth_opts) and cert_allows and app_allow
                if uwant != (ures == 'opened'):
                    viol.append(('unix-forward-permission', 'direct-streamlocal %s, expected %s' % (ures, 'opened' if uwant else 'refused')))
                if not uwant and uattempt:
                    viol.append(('forbidden-destination-contacted', 'a connection to /vdest was attempted'))

                async def ulisten():
                    try:
                        l = await w.pair.c.forward_remote_path('/vrlisten', '/vdest')
                        return 'listening' if l else 'refused'
                    except asyncssh.ChannelListenError:
                        return 'refused'
                ulres = w.run(ulisten())
                if uwant != (ulres == 'listening'):
                    viol.append(('unix-listen-permission', 'streamlocal-forward %s, expected %s' % (ulres, 'listening' if uwant else 'refused')))
            w.pair.c.close()
            w.loop.flush_all()
            if w.loop.unretrieved():
                viol.append(('loop-exception', repr(w.loop.exc_log[0].get('exception'))[:200]))
        except Livelock as exc:
            viol.append(('livelock', str(exc)))
        finally:
            w.close()
        acc.add(core.digest((auth_opts, cert_mode, app_allow, dest)), transitions=4 if dest == ('b.example', 80) else 2,
                sample={'authorized_keys_options': auth_opts, 'cert': cert_mode, 'app_allows': app_allow, 'dest': list(dest)}
                if 'permitopen' in auth_opts and cert_mode == 'cert-permit' and app_allow and dest == ('b.example', 81) else None)
        for k, d in viol:
            acc.violation('forward:%s:%s:%s' % (k, cert_mode, auth_opts.split('=')[0] or 'no-options'),
                          '%s ; options=%r cert=%s app=%s dest=%r' % (d, auth_opts, cert_mode, app_allow, dest),
                          {'kind': 'perm', 'case': [auth_opts, cert_mode, app_allow, list(dest)]})
    return acc


def perm_jobs():
    cases = []
    for auth_opts in ('', 'no-port-forwarding', 'permitopen="b.example:80"', 'permitopen="b.example:*"',
                      'permitopen="c.example:80",permitopen="b.example:81"', 'no-pty'):
        for cert_mode in ('none', 'cert-permit', 'cert-deny'):
            for app_allow in (True, False):
                for dest in (('b.example', 80), ('b.example', 81), ('c.example', 80)):
                    cases.append((auth_opts, cert_mode, app_allow, dest))
    return [cases[i::16] for i in range(16)]


# ------------------------------------------------------------------ listener lifecycle on names with several addresses
def _probe_free(addr, port):
    """can a fresh socket bind (addr, port)?  False while something still listens there"""
    import socket
    sk = socket.socket(socket.AF_INET, socket.SOCK_STREAM)
    try:
        sk.bind((addr, port))
        return True
    except OSError:
        return False
    finally:
        sk.close()


def listen_case(kind, naddrs, busy, ending):
    """A listen request for a host name with 1 or 2 addresses while address #busy (None: none) is
    already taken by someone else.  A refused request leaves nothing listening; a served one listens on
    every address and releases all of them when the listener / the SSH connection ends."""
    import socket
    pid = os.getpid()
    base = '127.%d.%d' % (77 + (pid >> 8) % 100, pid & 255)     # private to this worker process: no port races
    addrs = ['%s.%d' % (base, 1 + i) for i in range(naddrs)]
    w = World(kind)
    viol = []
    blocker = None
    try:
        w.pair.handshake()
        w.pair.server_owner = getattr(w, 'srv_owner', None)
        w.loop.resolver['multi.example'] = list(addrs)
        # pick a port free on every address
        probe = socket.socket(socket.AF_INET, socket.SOCK_STREAM)
        probe.bind((addrs[0], 0))
        port = probe.getsockname()[1]
        probe.close()
        if busy is not None:
            blocker = socket.socket(socket.AF_INET, socket.SOCK_STREAM)
            blocker.bind((addrs[busy], port))
            blocker.listen(1)
        c = w.pair.c

        async def go():
            try:
                if kind == 'local':
                    return await c.forward_local_port('multi.example', port, 'b.example', 80)
                if kind == 'socks':
                    return await c.forward_socks('multi.example', port)
                return await c.forward_remote_port('multi.example', port, 'b.example', 80)
            except (OSError, asyncssh.ChannelListenError) as exc:
                return exc
        res = w.run(go())
        refused = isinstance(res, Exception) or res is None
        mine = [a for a in w.loop.listeners if isinstance(a, tuple) and a[0] in addrs]
        if busy is None and refused:
            viol.append(('free-address-refused', 'listen on %r failed although every address was free: %r' % (addrs, res)))
        if busy is not None and not refused:
            viol.append(('listen-succeeded-on-busy-address', 'address %s:%d was taken' % (addrs[busy], port)))
        if refused:
            if mine:
                viol.append(('refused-request-left-listener', 'request refused (%r) but still listening on %r' % (res, mine)))
            for i, a in enumerate(addrs):
                if i != busy and not _probe_free(a, port):
                    viol.append(('refused-request-left-socket', 'request refused but %s:%d is still bound' % (a, port)))
        else:
            if sorted(mine) != sorted((a, port) for a in addrs):
                viol.append(('not-listening-everywhere', 'listening on %r, name resolves to %r' % (mine, addrs)))
        # end of life
        if ending == 'listener-close' and not refused:
            res.close()
            w.run(res.wait_closed())
        elif ending == 'conn-close':
            c.close()
        elif ending == 'server-close':
            w.pair.s.close()
        elif ending == 'cut':
            w.loop.cut(w.pair.ct)
        w.loop.flush_all()
        if blocker is not None:
            blocker.close()
            blocker = None
        left = [a for a in w.loop.listeners if isinstance(a, tuple) and a[0] in addrs]
        if left:
            viol.append(('listener-survives-' + ending, 'still listening on %r' % (left,)))
        for a in addrs:
            if not _probe_free(a, port):
                viol.append(('socket-survives-' + ending, '%s:%d is still bound' % (a, port)))
        if w.loop.unretrieved():
            viol.append(('loop-exception', repr(w.loop.exc_log[0].get('exception'))[:200]))
    except Livelock as exc:
        viol.append(('livelock', str(exc)))
    finally:
        if blocker is not None:
            blocker.close()
        w.close()
    return viol


def listen_worker(job):
    acc = core.Acc()
    for kind, naddrs, busy, ending in job:
        viol = listen_case(kind, naddrs, busy, ending)
        acc.add(core.digest(('listen', kind, naddrs, busy, ending)), transitions=2,
                sample={'listen_request': kind, 'addresses': naddrs, 'busy_address': busy, 'ending': ending}
                if kind == 'remote' and busy == 1 and ending == 'conn-close' else None)
        for k, d in viol:
            acc.violation('forward:%s:%s' % (k, kind), '%s ; addresses=%d busy=%r ending=%s' % (d, naddrs, busy, ending),
                          {'kind': 'listen', 'case': [kind, naddrs, busy, ending]})
    return acc


def listen_jobs():
    cases = []
    for kind in ('local', 'socks', 'remote'):
        for naddrs in (1, 2, 3):
            for busy in [None] + list(range(naddrs)):
                for ending in ('listener-close', 'conn-close', 'server-close', 'cut'):
                    cases.append((kind, naddrs, busy, ending))
    return [cases[i::16] for i in range(16)]


# ------------------------------------------------------------------ several forwards on one connection
def multi_case(kind, ports, close_first, ending='close'):
    """two forwards of the same kind on one connection (same listen host; dynamic or fixed ports) to two
    different destinations: each listener relays to its own destination; closing one leaves the other
    working; when the connection ends both are released and wait_closed() returns"""
    w = World('open_connection')
    viol = []
    try:
        w.pair.handshake()
        w.pair.server_owner = getattr(w, 'srv_owner', None)
        loop, c = w.loop, w.pair.c
        b1, b2 = [], []
        w.run(loop.create_server(lambda: End('B1', b1), 'b.example', 80))
        w.run(loop.create_server(lambda: End('B2', b2), 'c.example', 81))
        p1, p2 = (0, 0) if ports == 'dynamic' else (18021, 18022)
        if kind == 'remote':
            l1 = w.run(c.forward_remote_port('127.0.0.1', p1, 'b.example', 80))
            l2 = w.run(c.forward_remote_port('127.0.0.1', p2, 'c.example', 81))
        elif kind == 'local':
            l1 = w.run(c.forward_local_port('127.0.0.1', p1, 'b.example', 80))
            l2 = w.run(c.forward_local_port('127.0.0.1', p2, 'c.example', 81))
        else:
            l1 = w.run(c.forward_remote_port('127.0.0.1', p1, 'b.example', 80))
            l2 = w.run(c.forward_local_port('127.0.0.1', p2, 'c.example', 81))
        if l1.get_port() == l2.get_port():
            viol.append(('same-port', 'both listeners report port %d' % l1.get_port()))

        def talk(lst, tag, sink):
            a = End('A' + tag, [])
            n0 = len(sink)
            t = loop.create_task(loop.create_connection(lambda: a, '127.0.0.1', lst.get_port()))
            loop.flush_all()
            if not t.done() or t.exception() is not None:
                return 'connect-failed'
            a.t.write(b'to-' + tag.encode())
            loop.flush_all()
            if len(sink) <= n0 or sink[-1].data != b'to-' + tag.encode():
                return 'data went to %r' % ([e.name + ':' + e.data.decode('latin1') for e in b1 + b2][-3:],)
            sink[-1].t.write(b'from-' + tag.encode())
            loop.flush_all()
            if a.data != b'from-' + tag.encode():
                return 'reply %r' % a.data
            a.t.close()
            loop.flush_all()
            return 'ok'
        r1, r2 = talk(l1, '1', b1), talk(l2, '2', b2)
        if r1 != 'ok' or r2 != 'ok':
            viol.append(('misrouted', 'listener 1 -> %s ; listener 2 -> %s' % (r1, r2)))
        if close_first:
            first, second, sink2, tag2 = (l1, l2, b2, '2') if close_first in (1, 3) else (l2, l1, b1, '1')
            first.close()
            if close_first >= 3:
                first.close()           # closing again (an explicit close inside `async with`) is a no-op
            loop.flush_all()
            r = talk(second, tag2, sink2)
            if r != 'ok':
                viol.append(('other-forward-broken-by-close', 'after closing one listener the other gives: %s' % r))
        # close_first == 0: neither listener is closed by the application; the end of the connection releases both
        wc = [loop.create_task(l.wait_closed()) for l in (l1, l2)]
        if ending == 'close':
            c.close()
        elif ending == 'abort':
            c.abort()
        elif ending == 'server-close':
            w.pair.s.close()
        else:
            loop.cut(w.pair.ct, ConnectionResetError('cut'))
        loop.flush_all()
        for i, t in enumerate(wc):
            if not t.done():
                viol.append(('listener-wait-closed-hangs', 'wait_closed() of listener %d pending after the connection ended' % (i + 1)))
        left = [a for a in loop.listeners if isinstance(a, tuple) and a[0] == '127.0.0.1']
        if left:
            viol.append(('listener-leaked', repr(left)))
        for conn in (w.pair.c, w.pair.s):
            for attr in ('_remote_listeners', '_dynamic_remote_listeners', '_local_listeners'):
                if getattr(conn, attr, None):
                    viol.append(('listener-registered-on-closed-connection', '%s: %r' % (attr, list(getattr(conn, attr)))))
        if loop.unretrieved():
            viol.append(('loop-exception', repr(loop.exc_log[0].get('exception'))[:200]))
    except Livelock as exc:
        viol.append(('livelock', str(exc)))
    finally:
        w.close()
    return viol


def multi_worker(job):
    acc = core.Acc()
    for case in job:
        kind, ports, close_first = case[:3]
        viol = multi_case(*case)
        acc.add(core.digest(('multi',) + tuple(case)), transitions=6,
                sample={'two_forwards': kind, 'ports': ports, 'closed_first': close_first} if kind == 'remote' and ports == 'dynamic' else None)
        for k, d in viol:
            acc.violation('forward:%s:two-%s-%s' % (k, kind, ports), '%s ; close_first=%d' % (d, close_first),
                          {'kind': 'multi', 'case': list(case)})
    return acc


def multi_jobs():
    return [[(kind, ports, cf, ending)] for kind in ('remote', 'local', 'mixed') for ports in ('dynamic', 'fixed') for cf in (0, 1, 2, 3, 4)
            for ending in ('close', 'abort', 'server-close', 'cut')]


# ------------------------------------------------------------------ SOCKS grid end to end
def socks_worker(job):
    acc = core.Acc()
    for blob, chunked in job:
        w = World('socks-raw')
        w.kind = 'socks5'
        viol = []
        try:
            w.kind = 'socks'
            w.pair.handshake()
            w.bsrv = w.run(w.loop.create_server(lambda: End('B', w.ends), 'b.example', 80))
            w.run(w.loop.create_server(lambda: End('B10', w.ends), '10.9.9.9', 81))
            w.listener = w.run(w.pair.c.forward_socks('127.0.0.1', 0))
            w.target = ('127.0.0.1', w.listener.get_port())
            a = End('A', [])
            t = w.loop.create_task(w.loop.create_connection(lambda: a, w.target[0], w.target[1]))
            w.loop.quiesce()
            t.result()
            n0 = len(w.loop.connect_log)
            for piece in ([blob] if not chunked else [blob[i:i + 1] for i in range(len(blob))]):
                if a.t.is_closing() or a.lost:
                    break
                a.t.write(piece)
                w.loop.flush_all()
            want = parse_socks(blob)
            dests = [x[1] for x in w.loop.connect_log[n0:] if x[0] == 'tcp']
            if want is None:
                if dests:
                    viol.append(('socks-malformed-relayed', 'request %s opened a connection to %r' % (blob.hex(), dests)))
            elif want == 'incomplete':
                if dests:
                    viol.append(('socks-incomplete-relayed', '%s -> %r' % (blob.hex(), dests)))
            else:
                if not dests and not (a.lost or a.eof):
                    viol.append(('socks-valid-not-relayed', 'request for %r neither relayed nor closed' % (want,)))
                elif dests and (dests[0][0], dests[0][1]) != want:
                    viol.append(('socks-wrong-destination', 'asked for %r, connected to %r' % (want, dests[0])))
            w.pair.c.close()
            w.loop.flush_all()
            if w.loop.unretrieved():
                viol.append(('loop-exception', repr(w.loop.exc_log[0].get('exception') or w.loop.exc_log[0].get('message'))[:200]))
        except Livelock as exc:
            viol.append(('livelock', str(exc)))
        finally:
            w.close()
        acc.add(core.digest((blob, chunked)), transitions=len(blob))
        for k, d in viol:
            acc.violation('forward:%s' % k, d, {'kind': 'socks', 'blob': blob.hex(), 'chunked': chunked})
    return acc


def parse_socks(b):
    """reference parser: (host, port) | None (malformed -> closed) | 'incomplete'"""
    if len(b) < 2:
        return 'incomplete'
    if b[0] == 4:
        if b[1] != 1:
            return None
        if len(b) < 8:
            return 'incomplete'
        port = (b[2] << 8) | b[3]
        ip = b[4:8]
        rest = b[8:]
        i = rest.find(b'\0')
        if i < 0:
            return None if len(rest) > 255 else 'incomplete'
        if ip[:3] == b'\0\0\0' and ip[3] != 0:
            rest2 = rest[i + 1:]
            j = rest2.find(b'\0')
            if j < 0:
                return None if len(rest2) > 255 else 'incomplete'
            try:
                return (rest2[:j].decode('utf-8'), port)
            except UnicodeDecodeError:
                return None
        return ('.'.join(str(x) for x in ip), port)
    if b[0] == 5:
        n = b[1]
        if len(b) < 2 + n:
            return 'incomplete'
        if 0 not in b[2:2 + n]:
            return None
        r = b[2 + n:]
        if len(r) < 4:
            return 'incomplete'
        if r[0] != 5 or r[1] != 1 or r[2] != 0:
            return None
        if r[3] == 1:
            if len(r) < 10:
                return 'incomplete'
            return ('.'.join(str(x) for x in r[4:8]), (r[8] << 8) | r[9])
        if r[3] == 3:
            if len(r) < 5 or len(r) < 5 + r[4] + 2:
                return 'incomplete'
            try:
                h = r[5:5 + r[4]].decode('utf-8')
            except UnicodeDecodeError:
                return None
            return (h, (r[5 + r[4]] << 8) | r[6 + r[4]])
        if r[3] == 4:
            if len(r) < 22:
                return 'incomplete'
            import ipaddress
            return (str(ipaddress.ip_address(r[4:20])), (r[20] << 8) | r[21])
        return None
    return None


def socks_jobs(tier):
    valid = [bytes([4, 1, 0, 81, 10, 9, 9, 9]) + b'user\0', bytes([4, 1, 0, 80, 0, 0, 0, 1]) + b'u\0b.example\0',
             bytes([5, 1, 0, 5, 1, 0, 1, 10, 9, 9, 9, 0, 81]), bytes([5, 2, 2, 0, 5, 1, 0, 3, 9]) + b'b.example' + bytes([0, 80]),
             bytes([5, 1, 0, 5, 1, 0, 4]) + bytes(15) + b'\x01' + bytes([0, 80])]
    out = []
    for v in valid:
        out.append((v, False))
        out.append((v, True))
        for k in range(1, len(v)):
            out.append((v[:k], False))
        for off in range(len(v)):
            for r in (0, 1, 2, 4, 5, 0xff):
                if v[off] != r:
                    out.append((v[:off] + bytes([r]) + v[off + 1:], False))
    if tier == 'thorough':
        for n in range(1, 4):
            for t in itertools.product([0, 1, 2, 4, 5, 0xff], repeat=n):
                out.append((bytes(t), False))
    return [out[i::16] for i in range(16)]


# ------------------------------------------------------------------ a slow consumer, half-close and bulk data the other way
def slow_case(kind, slow, reply, bulk, resume, order):
    """One forwarded connection with a consumer that does not read: `slow` (A = the application that connected, B =
    the destination) stops reading; the other end sends `reply` bytes and half-closes; the slow end then uploads
    `bulk` bytes the other way (more than half a channel window makes the far side replenish the window while the
    near channel holds undelivered data and a pending EOF); the slow end resumes reading `resume` (before or after
    the upload) and finally half-closes.  The relay's socket towards the slow end has a small write buffer (asyncio
    flow control: pause_writing above 64 bytes), so the back-pressure reaches the SSH channel.
    Everything must arrive, EOF after it, both ways; then both ends are closed and released."""
    w = World(kind)
    loop = w.loop
    viol = []
    try:
        w.setup().connect_a()
        loop.flush_all()
        A, B = w.A, w.B()
        if B is None:
            return [('no-connection-to-destination', 'B was never connected')], 0
        S, F = (A, B) if slow == 'A' else (B, A)            # slow end, fast end
        relay_to_slow = S.t.peer
        relay_to_slow.wlimit = (64, 16)
        S.t.pause_reading()
        rdata = msg('B', 1, reply)
        kw = dict(order=(lambda t: -loop.transports.index(t))) if order == 'reverse' else {}
        F.t.write(rdata[:reply // 2])
        loop.flush_all(**kw)
        F.t.write(rdata[reply // 2:])
        F.t.write_eof()
        loop.flush_all(**kw)
        if resume == 'before-upload':
            S.t.resume_reading()
            loop.flush_all(**kw)
        chunk = msg('A', 2, 32768)
        sent = 0
        while sent < bulk:
            n = min(len(chunk), bulk - sent)
            S.t.write(chunk[:n])
            sent += n
            loop.flush_all(horizon=200000, **kw)
        if resume == 'after-upload':
            S.t.resume_reading()
            loop.flush_all(horizon=200000, **kw)
        S.t.write_eof()
        loop.flush_all(horizon=200000, **kw)
        if resume == 'after-eof':       # the slow end half-closes first and only then starts to read
            S.t.resume_reading()
            loop.flush_all(horizon=200000, **kw)
        if w.pair.c._transport is None or w.pair.s._transport is None:
            viol.append(('connection-lost', 'the SSH connection ended: client %r server %r' % (
                getattr(w.pair.client_owner, 'lost_exc', None), getattr(w.pair.server_owner, 'lost_exc', None))))
        skip = socks_prefix_len(kind)
        got = lambda e: e.data[skip:] if e is A else e.data      # a SOCKS client first gets the proxy's reply
        if got(S) != rdata:
            viol.append(('relay-mismatch', 'the slow end received %d of %d bytes (prefix ok: %s)' % (len(got(S)), len(rdata), rdata.startswith(got(S)))))
        if not S.eof and not S.lost:
            viol.append(('eof-not-propagated', 'the slow end never saw the half-close'))
        if len(got(F)) != bulk or got(F)[:32768] != chunk[:min(bulk, 32768)]:
            viol.append(('relay-mismatch', 'the fast end received %d of %d uploaded bytes' % (len(got(F)), bulk)))
        if not F.eof and not F.lost:
            viol.append(('eof-not-propagated', 'the fast end never saw the half-close of the upload'))
        ra, rb = relay_side(A), relay_side(B)
        if not viol and not (ra.closing and rb.closing):
            viol.append(('not-closed-after-both-eof', 'A-side closed=%s B-side closed=%s' % (ra.closing, rb.closing)))
        if not viol and (w.pair.c._channels or w.pair.s._channels):
            viol.append(('channel-left-after-close', 'client=%r server=%r' % (list(w.pair.c._channels), list(w.pair.s._channels))))
        if loop.unretrieved():
            viol.append(('loop-exception', repr(loop.exc_log[0].get('exception') or loop.exc_log[0].get('message'))[:200]))
        return viol, loop.n_writes
    except Livelock as exc:
        return [('livelock', str(exc))], 0
    finally:
        w.close()


def slow_worker(job):
    acc = core.Acc()
    for case in job:
        viol, n = slow_case(*case)
        acc.add(core.digest(('slow',) + tuple(case)), transitions=n,
                sample={'slow_consumer': dict(zip(('kind', 'slow_end', 'reply_bytes', 'upload_bytes', 'resumes', 'delivery_order'), case))}
                if case[0] == 'local' and case[1] == 'A' and case[3] > 2 ** 20 and case[4] == 'after-upload' else None)
        for k, d in viol:
            acc.violation('forward:slow-consumer:%s:%s:%s' % (k, case[0], case[1]), '%s ; case=%r' % (d, case), {'kind': 'slow', 'case': list(case)})
    return acc


def slow_jobs(tier):
    kinds = ('local', 'remote', 'local-path') if tier == 'quick' else ('local', 'remote', 'local-path', 'remote-path', 'socks5')
    bulks = (100, 1200000) if tier == 'quick' else (100, 600000, 1200000, 2300000, 4500000)
    cases = [(k, s, r, b, res, o) for k in kinds for s in ('A', 'B') for r in (10, 300) for b in bulks
             for res in ('before-upload', 'after-upload', 'after-eof') for o in ('fifo', 'reverse')]
    return [cases[i::32] for i in range(32)]


# ------------------------------------------------------------------ per-connection accept handlers in every documented form
def handler_case(side, form, allow):
    """A listener whose connections are screened one by one by an accept handler (server side: what
    server_requested() returns for a client's remote forward; client side: forward_local_port(accept_handler=)).
    Forms the type admits: a plain function returning bool, an `async def`, a plain callable that returns an awaitable
    (a lambda around an async policy, a functools.partial), an object with an async __call__.  A denied
    connection is closed without the destination ever being contacted; an allowed one is relayed."""
    import functools
    w = World('open_connection')
    viol = []
    consulted = []
    try:
        def decide(host, port):
            consulted.append((host, port))
            return allow

        async def adecide(host, port):
            consulted.append((host, port))
            return allow

        class Obj:
            async def __call__(self, host, port):
                consulted.append((host, port))
                return allow
        handler = {'sync': decide, 'async-def': adecide, 'lambda-awaitable': (lambda h, p: adecide(h, p)),
                   'partial-async': functools.partial(adecide), 'async-call-object': Obj()}[form]
        w.pair.handshake()
        w.pair.server_owner = getattr(w, 'srv_owner', None)
        loop, c = w.loop, w.pair.c
        ends = []
        w.run(loop.create_server(lambda: End('B', ends), 'b.example', 80))
        if side == 'server':
            w.srv_owner.server_requested = lambda lh, lp: handler
            lst = w.run(c.forward_remote_port('127.0.0.1', 0, 'b.example', 80))
        else:
            lst = w.run(c.forward_local_port('127.0.0.1', 0, 'b.example', 80, accept_handler=handler))
        a = End('A', [])
        t = loop.create_task(loop.create_connection(lambda: a, '127.0.0.1', lst.get_port()))
        loop.flush_all()
        if t.done() and t.exception() is None:
            a.t.write(b'ping')
            loop.flush_all()
        reached = bool(ends) and ends[0].data == b'ping'
        if not consulted:
            viol.append(('handler-not-consulted', 'the accept handler never ran'))
        if allow and not reached:
            viol.append(('permitted-forward-refused', 'handler allowed the connection, the destination got %r' % ([e.data for e in ends],)))
        if not allow:
            if ends:
                viol.append(('forbidden-forward-served', 'handler denied the connection, the destination was contacted and got %r' % ([e.data for e in ends],)))
            if not (a.lost or a.eof or (t.done() and t.exception() is not None)):
                viol.append(('denied-connection-left-open', 'the denied connection was neither closed nor refused'))
        c.close()
        loop.flush_all()
        if loop.unretrieved():
            viol.append(('loop-exception', repr(loop.exc_log[0].get('exception') or loop.exc_log[0].get('message'))[:200]))
    except Livelock as exc:
        viol.append(('livelock', str(exc)))
    finally:
        w.close()
    return viol


def handler_worker(job):
    acc = core.Acc()
    for case in job:
        viol = handler_case(*case)
        acc.add(core.digest(('handler',) + tuple(case)), transitions=3,
                sample={'accept_handler': dict(zip(('side', 'form', 'allows'), case))} if case == ('server', 'lambda-awaitable', False) else None)
        for k, d in viol:
            acc.violation('forward:%s:accept-handler:%s:%s' % (k, case[0], case[1]), '%s ; case=%r' % (d, case), {'kind': 'handler', 'case': list(case)})
    return acc


def handler_jobs():
    return [[(side, form, allow)] for side in ('server', 'client') for form in ('sync', 'async-def', 'lambda-awaitable', 'partial-async', 'async-call-object')
            for allow in (True, False)]


# ------------------------------------------------------------------ a SOCKS client that stops in the middle of its handshake
def socks_partial_case(prefix_len, ending):
    """an application connects to a dynamic (SOCKS) forward and sends only the first `prefix_len` bytes of a SOCKS5
    request (nothing, the greeting, half of the request); then the listener is closed and/or the SSH connection
    ends: the accepted socket is released like every other relayed socket"""
    w = World('socks5')
    loop = w.loop
    viol = []
    try:
        w.setup()
        a = End('A', [])
        t = loop.create_task(loop.create_connection(lambda: a, w.target[0], w.target[1]))
        loop.flush_all()
        host = w.dest[0].encode()
        full = bytes([5, 1, 0]) + bytes([5, 1, 0, 3, len(host)]) + host + struct.pack('>H', w.dest[1])
        if prefix_len:
            a.t.write(full[:prefix_len])
            loop.flush_all()
        if ending == 'listener-close+conn-close':
            w.listener.close()
            loop.flush_all()
            w.pair.c.close()
        elif ending == 'conn-close':
            w.pair.c.close()
        elif ending == 'server-close':
            w.pair.s.close()
        elif ending == 'abort':
            w.pair.c.abort()
        else:
            loop.cut(w.pair.ct)
        loop.flush_all()
        relay = a.t.peer
        if not (relay.closing or relay.lost or a.lost or a.eof):
            viol.append(('relayed-socket-leaked', 'the SOCKS client that had sent %d bytes of its request is still connected after %s' % (prefix_len, ending)))
        if w.pair.c._channels or w.pair.s._channels:
            viol.append(('channel-registered-after-close', 'client=%r server=%r' % (list(w.pair.c._channels), list(w.pair.s._channels))))
        if loop.unretrieved():
            viol.append(('loop-exception', repr(loop.exc_log[0].get('exception') or loop.exc_log[0].get('message'))[:200]))
    except Livelock as exc:
        viol.append(('livelock', str(exc)))
    finally:
        w.close()
    return viol


def socks_partial_worker(job):
    acc = core.Acc()
    for case in job:
        viol = socks_partial_case(*case)
        acc.add(core.digest(('socks-partial',) + tuple(case)), transitions=3)
        for k, d in viol:
            acc.violation('forward:%s:socks-partial:%s' % (k, case[1]), '%s ; case=%r' % (d, case), {'kind': 'socks-partial', 'case': list(case)})
    return acc


def socks_partial_jobs():
    return [[(n, e)] for n in (0, 1, 2, 3, 4, 7, 10) for e in ('listener-close+conn-close', 'conn-close', 'server-close', 'abort', 'cut')]


# ------------------------------------------------------------------ a jump host: the channel is carried over a second SSH connection
class Greeter(End):
    """a destination that speaks first (SMTP, SSH, ... banners)"""
    greeting = b''

    def connection_made(self, transport):
        End.connection_made(self, transport)
        if self.greeting:
            transport.write(self.greeting)


class RecTCP(asyncssh.SSHTCPSession):
    def __init__(self, greeting=b''):
        self.data, self.eof, self.lost, self.chan, self.greeting = b'', False, False, None, greeting

    def connection_made(self, chan):
        self.chan = chan

    def session_started(self):
        if self.greeting:
            self.chan.write(self.greeting)

    def data_received(self, data, datatype):
        self.data += data

    def eof_received(self):
        self.eof = True
        return True

    def connection_lost(self, exc):
        self.lost = True


JUMP_GREETING = b'220 upstream speaks first\r\n'


def jump_case(kind, upstream, speaks_first, whole):
    """client -> jump host -> upstream server: the jump host answers the client's direct-tcpip (or
    direct-streamlocal) request by handing back its own client connection to the upstream server.  The destination
    behind the upstream server may greet first; chunks are delivered one write at a time or everything queued at
    once (`whole`).  What each end wrote arrives at the other end exactly once, in order, and EOF follows it."""
    loop = P.fresh(0)
    P.install_wire_labels()
    viol = []
    ends = []
    ups = []
    greeting = JUMP_GREETING if speaks_first else b''
    try:
        def mk_b():
            e = Greeter('B', ends)
            e.greeting = greeting
            return e

        class Up(P.RecServer):
            def connection_requested(self, dest_host, dest_port, orig_host, orig_port):
                if upstream == 'session':
                    r = RecTCP(greeting)
                    ups.append(r)
                    return r
                return True

            def unix_connection_requested(self, dest_path):
                if upstream == 'session':
                    r = RecTCP(greeting)
                    ups.append(r)
                    return r
                return True
        holder = {}

        class Jump(P.RecServer):
            def connection_requested(self, dest_host, dest_port, orig_host, orig_port):
                return holder['uc']

            def unix_connection_requested(self, dest_path):
                return holder['uc']
        kw = dict(keepalive_interval=0)
        ckw = dict(known_hosts=None, username='u', password='pw', client_keys=None, agent_path=None, config=None,
                   kex_algs=['curve25519-sha256'], keepalive_interval=0)

        async def setup():
            await loop.create_server(mk_b, 'b.example', 80)
            await loop.create_unix_server(mk_b, '/vdest')
            await asyncssh.listen('up.example', 22, server_factory=lambda: Up({}), server_host_keys=[P.key('c20-up')], **kw)
            await asyncssh.listen('jump.example', 22, server_factory=lambda: Jump({}), server_host_keys=[P.key('c20-jump')], **kw)
            holder['uc'] = await asyncssh.connect('up.example', 22, **ckw)
            return await asyncssh.connect('jump.example', 22, **ckw)
        st = loop.create_task(setup())
        loop.flush_all()
        if not st.done():
            raise Livelock('jump world setup pending')
        c = st.result()
        a = RecTCP()
        if kind == 'tcp':
            ot = loop.create_task(c.create_connection(lambda: a, 'b.example', 80))
        else:
            ot = loop.create_task(c.create_unix_connection(lambda: a, '/vdest'))
        loop.flush_all(whole_queue=whole)
        if not ot.done() or ot.exception() is not None:
            viol.append(('jump-open-failed', repr(ot.exception()) if ot.done() else 'pending'))
            return viol
        b = ups[0] if upstream == 'session' and ups else (ends[0] if ends else None)
        if b is None:
            viol.append(('jump-no-destination', 'nothing was connected behind the upstream server'))
            return viol

        def bwrite(data):
            (b.chan if upstream == 'session' else b.t).write(data)

        def beof():
            (b.chan if upstream == 'session' else b.t).write_eof()
        want_a = greeting
        if a.data != want_a:
            viol.append(('jump-greeting-lost', 'the destination greeted with %r; the client has %r' % (want_a, a.data)))
        a.chan.write(b'request-1')
        loop.flush_all(whole_queue=whole)
        bwrite(b'answer-1')
        bwrite(b'answer-2')
        loop.flush_all(whole_queue=whole)
        want_a += b'answer-1answer-2'
        a.chan.write_eof()
        loop.flush_all(whole_queue=whole)
        bwrite(b'last')
        beof()
        loop.flush_all(whole_queue=whole)
        want_a += b'last'
        if a.data != want_a:
            viol.append(('jump-data-altered', 'client end received %r, the destination wrote %r' % (a.data, want_a)))
        if b.data != b'request-1':
            viol.append(('jump-data-altered', 'destination received %r, the client wrote %r' % (b.data, b'request-1')))
        if not a.eof and not a.lost:
            viol.append(('jump-eof-lost', 'the destination half-closed; the client end saw no EOF'))
        if not b.eof and not b.lost:
            viol.append(('jump-eof-lost', 'the client half-closed; the destination saw no EOF'))
        if loop.unretrieved():
            viol.append(('loop-exception', repr(loop.exc_log[0].get('exception') or loop.exc_log[0].get('message'))[:200]))
    except Livelock as exc:
        viol.append(('livelock', str(exc)))
    finally:
        P.done(loop)
    return viol


def jump_worker(job):
    acc = core.Acc()
    for case in job:
        viol = jump_case(*case)
        acc.add(core.digest(('jump',) + tuple(case)), transitions=8)
        for k, d in viol:
            acc.violation('forward:%s:jump:%s-%s' % (k, case[0], case[1]), '%s ; case=%r' % (d, case), {'kind': 'jump', 'case': list(case)})
    return acc


def jump_jobs():
    return [[(k, u, sf, wh)] for k in ('tcp', 'unix') for u in ('service', 'session') for sf in (False, True) for wh in (False, True)]


# ------------------------------------------------------------------ payload pipelined behind a SOCKS request
def socks_request(w):
    host = w.dest[0].encode()
    if w.kind == 'socks5':
        return bytes([5, 1, 0]) + bytes([5, 1, 0, 3, len(host)]) + host + struct.pack('>H', w.dest[1])
    if w.kind == 'socks4':
        return bytes([4, 1]) + struct.pack('>H', w.dest[1]) + bytes(int(x) for x in w.loop_addr(w.dest[0]).split('.')) + b'user\0'
    return bytes([4, 1]) + struct.pack('>H', w.dest[1]) + bytes([0, 0, 0, 1]) + b'u\0' + host + b'\0'


PIPE_PAYLOAD = b'PIPELINED-01234'


def socks_pipelined_case(kind, cuts):
    """a SOCKS client that does not wait for the proxy's answer: request and first payload bytes are written back
    to back, the stream being cut into chunks at `cuts` (each chunk one data_received of the forwarder): the
    destination receives the payload exactly once, and its answer comes back behind the SOCKS reply"""
    w = World(kind)
    loop = w.loop
    viol = []
    try:
        w.setup()
        a = End('A', [])
        t = loop.create_task(loop.create_connection(lambda: a, w.target[0], w.target[1]))
        loop.flush_all()
        stream = socks_request(w) + PIPE_PAYLOAD
        last = 0
        for c in list(cuts) + [len(stream)]:
            if c > last:
                a.t.write(stream[last:c])
                loop.flush_all()
                last = c
        b = w.B()
        if b is None:
            viol.append(('pipelined-not-relayed', 'no connection to the destination'))
        else:
            if b.data != PIPE_PAYLOAD:
                viol.append(('pipelined-payload-altered', 'destination received %r for %r' % (b.data, PIPE_PAYLOAD)))
            b.t.write(b'answer')
            loop.flush_all()
            skip = socks_prefix_len(kind)
            if a.data[skip:] != b'answer':
                viol.append(('pipelined-answer-altered', 'application received %r behind the SOCKS reply' % (a.data[skip:],)))
            a.t.write_eof()
            loop.flush_all()
            b.t.write_eof()
            loop.flush_all()
            if b.data != PIPE_PAYLOAD or not b.eof:
                viol.append(('pipelined-end-altered', 'destination: data %r eof %r' % (b.data, b.eof)))
        if loop.unretrieved():
            viol.append(('loop-exception', repr(loop.exc_log[0].get('exception') or loop.exc_log[0].get('message'))[:200]))
    except Livelock as exc:
        viol.append(('livelock', str(exc)))
    finally:
        w.close()
    return viol


def socks_pipelined_worker(job):
    acc = core.Acc()
    for case in job:
        viol = socks_pipelined_case(*case)
        acc.add(core.digest(('socks-pipelined',) + tuple(map(repr, case))), transitions=len(case[1]) + 3)
        for k, d in viol:
            acc.violation('forward:%s:socks-pipelined:%s' % (k, case[0]), '%s ; case=%r' % (d, case), {'kind': 'socks-pipelined', 'case': [case[0], list(case[1])]})
    return acc


def socks_pipelined_jobs(tier):
    jobs = []
    for kind in ('socks5', 'socks4', 'socks4a'):
        w = World(kind)
        try:
            n = len(socks_request(w)) + len(PIPE_PAYLOAD)
        finally:
            w.close()
        cases = [(kind, ())] + [(kind, (i,)) for i in range(1, n)] + [(kind, tuple(range(1, n)))]
        if tier == 'thorough':
            cases += [(kind, (i, j)) for i in range(1, n) for j in range(i + 1, n)]
        jobs += [cases[i:i + 8] for i in range(0, len(cases), 8)]
    return jobs


# ------------------------------------------------------------------ an address listened on again after its listener was closed
def reuse_case(kind, second_close, ending):
    """listener L1 is closed (not awaited), L2 is created on the same address, L1 is closed again (what leaving
    `async with` does) before or after wait_closed(): L2 keeps relaying, and the end of the connection releases it"""
    w = World('open_connection')
    viol = []
    try:
        w.pair.handshake()
        w.pair.server_owner = getattr(w, 'srv_owner', None)
        loop, c = w.loop, w.pair.c
        ends = []
        w.run(loop.create_server(lambda: End('B', ends), 'b.example', 80))

        def make():
            if kind == 'local':
                return w.run(c.forward_local_port('127.0.0.1', 18031, 'b.example', 80))
            if kind == 'socks':
                return w.run(c.forward_socks('127.0.0.1', 18031))
            raise ValueError(kind)
        l1 = make()
        l1.close()
        if second_close == 'after-wait-closed':
            w.run(l1.wait_closed())
        l2 = make()
        l1.close()
        loop.flush_all()
        if kind != 'socks':
            a = End('A', [])
            t = loop.create_task(loop.create_connection(lambda: a, '127.0.0.1', 18031))
            loop.flush_all()
            if not t.done() or t.exception() is not None:
                viol.append(('second-listener-dead', 'connecting to the second listener failed'))
            else:
                a.t.write(b'ping')
                loop.flush_all()
                if not ends or ends[-1].data != b'ping':
                    viol.append(('second-listener-dead', 'data sent through the second listener did not arrive'))
                a.t.close()
                loop.flush_all()
        wc = loop.create_task(l2.wait_closed())
        if ending == 'close':
            c.close()
        elif ending == 'abort':
            c.abort()
        else:
            loop.cut(w.pair.ct, ConnectionResetError('cut'))
        loop.flush_all()
        if not wc.done():
            viol.append(('listener-wait-closed-hangs', 'wait_closed() of the second listener pending after the connection ended'))
        left = [a_ for a_ in loop.listeners if isinstance(a_, tuple) and a_[0] == '127.0.0.1']
        if left:
            viol.append(('listener-leaked', '%r still bound after the connection ended' % (left,)))
        if c._local_listeners:
            viol.append(('listener-registered-on-closed-connection', repr(list(c._local_listeners))))
        if loop.unretrieved():
            viol.append(('loop-exception', repr(loop.exc_log[0].get('exception'))[:200]))
    except Livelock as exc:
        viol.append(('livelock', str(exc)))
    finally:
        w.close()
    return viol


def reuse_worker(job):
    acc = core.Acc()
    for case in job:
        viol = reuse_case(*case)
        acc.add(core.digest(('reuse',) + tuple(case)), transitions=5)
        for k, d in viol:
            acc.violation('forward:%s:address-reused:%s' % (k, case[0]), '%s ; case=%r' % (d, case), {'kind': 'reuse', 'case': list(case)})
    return acc


def reuse_jobs():
    return [[(k, s_, e)] for k in ('local', 'socks') for s_ in ('before-wait-closed', 'after-wait-closed') for e in ('close', 'abort', 'cut')]


def main(tier, seed):
    t0 = core.now()
    kinds = ['local', 'remote', 'local-path', 'remote-path', 'socks5', 'socks4', 'socks4a']
    a = explore_run('local', 'duplex-halfclose', core.Chooser([0, 1]))
    b = explore_run('local', 'duplex-halfclose', core.Chooser([0, 1]))
    if a != b:
        print('HARNESS-NONDETERMINISM')
        return 2
    base = explore_run('local', 'duplex-halfclose', core.Chooser([]))
    if base['viol']:
        print('baseline violates: %r' % (base['viol'],))
    jobs = []
    for kind in kinds:
        for script in SCRIPTS:
            if tier == 'quick' and kind not in ('local', 'remote') and script not in ('duplex-halfclose', 'a-close', 'request-then-eof', 'burst-request-eof'):
                continue
            bound = 1
            jobs.append((kind, script, bound, ()))
            if tier == 'thorough' or (kind in ('local', 'socks5', 'local-path') and script in ('request-then-eof',)) or (kind == 'local' and script in ('duplex-halfclose', 'eof-only')):
                ch = core.Chooser([])
                explore_run(kind, script, ch)
                for i, (n, _c, _cost, _l) in enumerate(ch.trace):
                    for alt in range(1, n):
                        jobs.append((kind, script, 2, tuple([0] * i + [alt])))
    acc = core.pmap(explore_worker, core.rotate(jobs, seed), chunksize=2)
    n_a = acc.evaluations
    acc.merge(core.pmap(perm_worker, perm_jobs()))
    n_b = acc.evaluations - n_a
    acc.merge(core.pmap(socks_worker, socks_jobs(tier)))
    n_c = acc.evaluations - n_a - n_b
    acc.merge(core.pmap(listen_worker, listen_jobs()))
    acc.merge(core.pmap(multi_worker, multi_jobs()))
    acc.merge(core.pmap(slow_worker, slow_jobs(tier)))
    acc.merge(core.pmap(handler_worker, handler_jobs()))
    acc.merge(core.pmap(socks_partial_worker, socks_partial_jobs()))
    acc.merge(core.pmap(reuse_worker, reuse_jobs()))
    acc.merge(core.pmap(socks_pipelined_worker, socks_pipelined_jobs(tier)))
    acc.merge(core.pmap(jump_worker, jump_jobs()))
    rule = ('forwarding kinds {local, remote, local path, remote path, SOCKS5, SOCKS4, SOCKS4a} x 9 scripted '
            'conversations (duplex writes incl. 300 bytes, half-close in each order, close by either end, EOF before '
            'any data); at every point the explorer may deliver any pending pipe, run the next application action '
            'early (so data and EOF arrive before the channel is confirmed), cut the SSH connection or close the '
            'listener; DFS bound 1 (2 for local forwarding in quick, everything in thorough); permission matrix of 6 '
            'authorized_keys option sets x {no certificate, certificate with / without permit-port-forwarding} x '
            'application answer x 3 destinations for direct-tcpip and tcpip-forward (and direct-streamlocal / streamlocal-forward); SOCKS requests: 5 valid forms, '
            'every truncation, byte-at-a-time delivery and single-byte field variations vs a reference parser; listen '
            'requests {local, SOCKS, remote} for a name with 1-3 addresses x which address is already taken x how '
            'the listener ends {closed, either connection closed, connection lost}: nothing left bound; two forwards '
            '(remote, local, mixed; dynamic or fixed ports) on one connection: each relays to its own destination, '
            'closing one leaves the other working, both are released at the end; SOCKS5/4/4a request with 15 payload '
            'bytes pipelined behind it x every way of cutting the stream into 1 or 2 chunks (3 in thorough) and byte-at-a-time: '
            'the destination receives the payload exactly once; jump host (connection_requested hands back a client '
            'connection to an upstream server) x {TCP, UNIX} x destination {service, session} x greets first or not x '
            'chunk delivery {per write, everything queued}: both directions arrive once, in order, then EOF')
    return core.finish(PROP, tier, seed, 'model_checking', acc, t0, rule,
                       {'exploration_execs': n_a, 'permission_cases': n_b, 'socks_cases': n_c, 'listen_cases': acc.evaluations - n_a - n_b - n_c},
                       assumptions=['TCP endpoints A and B are virtual transports; listening sockets are real '
                                    '(asyncssh binds them before handing them to the loop)'])


def replay(rep):
    r = rep['replay']
    if r['kind'] == 'explore':
        obs = explore_run(r['fwd'], r['script'], core.Chooser(r['choices']))
        v = obs['viol']
        print(json.dumps({'replay': r, 'events': obs['trace'], 'violations': v}, indent=1, default=repr))
    elif r['kind'] == 'perm':
        c = r['case']
        acc = perm_worker([(c[0], c[1], c[2], tuple(c[3]))])
        v = acc.violations
        print(json.dumps(v, indent=1, default=repr))
    elif r['kind'] == 'reuse':
        acc = reuse_worker([tuple(r['case'])])
    elif r['kind'] == 'socks-pipelined':
        acc = socks_pipelined_worker([[(r['case'][0], tuple(r['case'][1]))]])
    elif r['kind'] == 'jump':
        acc = jump_worker([[tuple(r['case'])]])
    elif r['kind'] == 'socks-partial':
        acc = socks_partial_worker([tuple(r['case'])])
    elif r['kind'] == 'handler':
        acc = handler_worker([tuple(r['case'])])
    elif r['kind'] == 'slow':
        acc = slow_worker([tuple(r['case'])])
    elif r['kind'] == 'multi':
        acc = multi_worker([tuple(r['case'])])
        v = acc.violations
        print(json.dumps(v, indent=1, default=repr))
    elif r['kind'] == 'listen':
        c = r['case']
        acc = listen_worker([[(c[0], c[1], c[2], c[3])]])
        v = acc.violations
        print(json.dumps(v, indent=1, default=repr))
    else:
        acc = socks_worker([(bytes.fromhex(r['blob']), r['chunked'])])
        v = acc.violations
        print(json.dumps(v, indent=1, default=repr))
    if v:
        print('VIOLATION property=%s replay=(given)' % PROP)
        return 1
    return 0
