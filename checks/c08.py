"""C08  Flow control is honoured both ways and never deadlocks.

(a) asyncssh as sender against refpeer's window ledger, every order/size of
    WINDOW_ADJUST grants from a menu (DFS over grant sequences);
(b) asyncssh as receiver: every sequence of data packets / pause / resume up to a
    depth from a hostile refpeer; excess over the advertised window must be a
    protocol error, also while paused; reading restores the window;
(c) deadlock search: real<->real stream API, every delivery interleaving within a
    deviation bound, reader call sequences from a menu.
"""

import itertools
import json

import asyncssh

import core
import pair as P
import refpeer as R
import rpharness as H
from vloop import Livelock

PROP = 'C08'


def data_of(n, salt=0):
    return bytes((i * 11 + salt) % 253 for i in range(n))


# ------------------------------------------------------------------ (a) sender
class Ledger:
    def __init__(self, window, maxpkt):
        self.window, self.maxpkt = window, maxpkt
        self.viol = []
        self.got = {0: b'', 1: b''}

    def on_data(self, data, ext=0):
        n = len(data)
        if n > self.maxpkt:
            self.viol.append(('packet-too-big', 'data packet of %d bytes, peer max is %d' % (n, self.maxpkt)))
        if n > self.window:
            self.viol.append(('window-exceeded', 'sent %d bytes with %d bytes of window left' % (n, self.window)))
        if n == 0:
            self.viol.append(('empty-data-packet', 'zero-length data packet'))
        self.window -= n
        self.got[ext] += data


def sender_run(job, chooser):
    role, w0, pkt, writes, menu, maxgrants = job
    led = Ledger(w0, pkt)
    total = sum(n for _dt, n in writes)
    if role == 'client':
        w = H.CliWorld()
        w.window, w.maxpkt = w0, pkt
    else:
        env = {}

        def on_start(sess):
            pos = {0: 0, 1: 0}
            for dt, n in writes:
                d = data_of(pos[dt] + n, dt)[pos[dt]:]
                pos[dt] += n
                if dt:
                    sess.chan.write_stderr(d)
                else:
                    sess.chan.write(d)
            sess.chan.write_eof()
        env['session_factory'] = lambda: P.RecSession('srv', on_start=on_start)
        w = H.SrvWorld(env=env)
    rp = w.rp
    seen = [0]

    def account():
        for t, p in rp.inbox[seen[0]:]:
            if t == R.MSG_CHANNEL_DATA:
                led.on_data(R.Reader(p, 5).string())
            elif t == R.MSG_CHANNEL_EXTENDED_DATA:
                r = R.Reader(p, 5)
                r.u32()
                led.on_data(r.string(), 1)
        seen[0] = len(rp.inbox)
    grants = []
    try:
        if role == 'client':
            w.login()
            chan, sess = w.run(w.conn.create_session(lambda: P.RecSession('cli'), encoding=None))
            pos = 0
            for _dt, n in writes:
                chan.write(data_of(pos + n)[pos:])
                pos += n
            chan.write_eof()
            w.flush()
            peer_chan = w.chan_opens[0][1]
        else:
            w.kex().auth()
            peer_chan, _, _ = w.open_session(sender=0, window=w0, maxpkt=pkt, request='shell')
        account()
        for _ in range(maxgrants):
            k = chooser.choose(len(menu), label='grant')
            g = menu[k]
            if g == 'rest':
                g = max(total - len(led.got[0]) - len(led.got[1]) - max(led.window, 0), 0)
            grants.append(g)
            led.window += g
            rp.send(R.byte(R.MSG_CHANNEL_WINDOW_ADJUST) + R.u32(peer_chan) + R.u32(g))
            w.flush()
            account()
        # finally grant everything still missing: all written data must arrive, then EOF
        missing = total - len(led.got[0]) - len(led.got[1])
        if missing > 0:
            g = missing - max(led.window, 0)
            if g > 0:
                led.window += g
                rp.send(R.byte(R.MSG_CHANNEL_WINDOW_ADJUST) + R.u32(peer_chan) + R.u32(g))
                w.flush()
                account()
        viol = list(led.viol)
        exp = {0: data_of(sum(n for dt, n in writes if not dt), 0),
               1: data_of(sum(n for dt, n in writes if dt), 1)}
        if led.got != exp:
            viol.append(('not-delivered', 'after granting enough window refpeer has %d+%d bytes, '
                         'application wrote %d+%d' % (len(led.got[0]), len(led.got[1]),
                                                      len(exp[0]), len(exp[1]))))
        elif R.MSG_CHANNEL_EOF not in rp.types():
            viol.append(('eof-missing', 'all data arrived but no EOF'))
        if w.proto.error:
            viol.append(('refpeer-reject', str(w.proto.error)))
        if w.loop.unretrieved():
            viol.append(('loop-exception', repr(w.loop.exc_log[0].get('exception'))))
        return {'grants': grants, 'viol': viol, 'npkts': len([1 for t, _ in rp.inbox if t in (94, 95)])}
    except Livelock as exc:
        return {'grants': grants, 'viol': [('livelock', str(exc))], 'npkts': 0}
    finally:
        w.close()


def sender_worker(job):
    acc = core.Acc()
    bound = job[-1]
    job = job[:-1]

    def check(obs, ch):
        acc.add(core.digest((job[:4], tuple(obs['grants']), obs['npkts'])), transitions=len(obs['grants']) + obs['npkts'],
                sample={'sender': job[0], 'window': job[1], 'maxpkt': job[2], 'writes': job[3],
                        'grants': obs['grants']} if len(ch.labels()) == 2 else None)
        for kind, detail in obs['viol']:
            acc.violation('sender:%s:%s:w%d:p%d' % (kind, job[0], job[1], job[2]),
                          '%s; writes=%r grants=%r' % (detail, job[3], obs['grants']),
                          {'kind': 'sender', 'job': list(job), 'choices': ch.choices})
    core.explore_dfs(lambda ch: sender_run(job, ch), bound, check)
    return acc


def sender_jobs(tier):
    jobs = []
    bound = 2 if tier == 'quick' else 3
    for role in ('client', 'server'):
        for w0, pkt in ((0, 4), (1, 1), (2, 3), (3, 2), (5, 3), (7, 2 ** 32 - 1), (2 ** 32 - 1, 5), (100, 32)):
            for writes in ([(0, 9)], [(0, 1), (0, 7)], [(0, 4), (1, 5), (0, 2)] if role == 'server' else [(0, 3), (0, 3), (0, 3)]):
                menu = [pkt if pkt < 100 else 3, 0, 1, 'rest', 2 ** 32 - 1]
                jobs.append((role, w0, pkt, writes, menu, 5, bound))
    return jobs


# ------------------------------------------------------------------ (b) receiver
def receiver_run(role, W, PKT, ops):
    """ops: ('send', n) | ('sendx', n) extended | ('pause',) | ('resume',)"""
    viol = []
    adv = W                 # what asyncssh has advertised and refpeer has not used yet
    sent = 0
    delivered_expected = b''
    first_excess = None
    npk = 0
    if role == 'server':
        env = {'session_factory': lambda: P.RecSession('srv')}
        w = H.SrvWorld(env=env, sopts=dict(window=W, max_pktsize=PKT))
    elif role == 'server-tun':
        # a layer-3 tunnel channel (tun@openssh.com, point-to-point): every packet carries a 4-byte address family
        # word that is taken off before the application sees the data -- and that counts against the window
        env = {}

        class TunSrv(P.RecServer):
            def tun_requested(self, unit):
                sess_ = P.RecSession('srv')
                self.env.setdefault('server_sessions', []).append(sess_)
                return self.conn.create_tuntap_channel(window=W, max_pktsize=PKT), sess_
        w = H.SrvWorld(env=env, server_factory=TunSrv)
    else:
        w = H.CliWorld()
    rp = w.rp
    seen = [0]

    def account():
        nonlocal adv
        for t, p in rp.inbox[seen[0]:]:
            if t == R.MSG_CHANNEL_WINDOW_ADJUST:
                adv += R.Reader(p, 5).u32()
        seen[0] = len(rp.inbox)
    try:
        if role == 'server':
            w.kex().auth()
            remote, rwin, rpkt = w.open_session(request='shell')
            sess = env['server_sessions'][0]
            chan = sess.chan
            conn = w.conn
        elif role == 'server-tun':
            w.kex().auth()
            n0 = len(rp.inbox)
            rp.send(R.byte(R.MSG_CHANNEL_OPEN) + R.string('tun@openssh.com') + R.u32(0) + R.u32(2 ** 21) + R.u32(32768) + R.u32(1) + R.u32(0x7fffffff))
            w.flush()
            conf = [p for t, p in rp.inbox[n0:] if t == R.MSG_CHANNEL_OPEN_CONFIRMATION]
            if not conf:
                raise R.RefError('tunnel channel not confirmed: %r' % (rp.types()[n0:],))
            r_ = R.Reader(conf[0], 1)
            r_.u32()
            remote, rwin, rpkt = r_.u32(), r_.u32(), r_.u32()
            sess = env['server_sessions'][0]
            chan = sess.chan
            conn = w.conn
        else:
            w.login()
            chan, sess = w.run(w.conn.create_session(lambda: P.RecSession('cli'), encoding=None,
                                                     window=W, max_pktsize=PKT))
            remote = w.chan_opens[0][1]
            rwin = w.chan_opens[0][2]
            conn = w.conn
        if rwin != W:
            viol.append(('advertised-window', 'asked for %d, wire says %d' % (W, rwin)))
        account()
        paused = False
        for i, op in enumerate(ops):
            if conn._transport is None:
                break
            if op[0] in ('send', 'sendx'):
                n = op[1]
                d = data_of(sent + n)[sent:]
                if op[0] == 'send' and role == 'server-tun':
                    npk += 1
                    rp.send(rp.channel_data(remote, b'\0\0\0\2' + d[4:]))
                elif op[0] == 'send':
                    rp.send(rp.channel_data(remote, d))
                else:
                    if role != 'client':
                        continue        # servers do not accept extended data
                    rp.send(R.byte(R.MSG_CHANNEL_EXTENDED_DATA) + R.u32(remote) + R.u32(1) + R.string(d))
                if n > adv and first_excess is None:
                    first_excess = (i, n, adv)
                adv -= n
                sent += n
                w.flush()
                account()
            elif op[0] == 'pause':
                chan.pause_reading()
                paused = True
            elif op[0] == 'resume':
                chan.resume_reading()
                paused = False
                w.flush()
                account()
        closed = conn._transport is None
        exc = getattr(w.owner, 'lost_exc', None)
        if first_excess is not None:
            if not closed:
                viol.append(('excess-accepted', 'packet %d of %d bytes exceeded the advertised window '
                             '(%d left) %s and the connection is still open'
                             % (first_excess[0], first_excess[1], first_excess[2],
                                'while paused' if 'pause' in [o[0] for o in ops[:first_excess[0]]] else '')))
            elif not isinstance(exc, asyncssh.ProtocolError):
                viol.append(('excess-wrong-error', repr(exc)))
        else:
            if closed:
                viol.append(('legal-data-rejected', 'all packets were within the advertised window but '
                             'the connection closed: %r' % (exc,)))
            else:
                # keep reading: everything must be delivered and the window must reopen
                if paused:
                    chan.resume_reading()
                    w.flush()
                    account()
                got = sess.got(None) + (sess.got(1) if role == 'client' else b'')
                if len(got) != sent - 4 * npk:
                    viol.append(('not-delivered', 'application got %d of %d bytes' % (len(got), sent)))
                if adv <= 0 and sent > 0:
                    viol.append(('window-not-replenished', 'reader consumed everything but the '
                                 'advertised window is %d' % adv))
                if adv > W:
                    viol.append(('window-over-advertised', 'advertised window %d > configured %d' % (adv, W)))
        if w.loop.unretrieved():
            viol.append(('loop-exception', repr(w.loop.exc_log[0].get('exception'))))
        return viol, (closed, adv, sent)
    except Livelock as exc:
        return [('livelock', str(exc))], None
    finally:
        w.close()


def receiver_worker(job):
    role, W, PKT, seqs = job
    acc = core.Acc()
    for ops in seqs:
        viol, out = receiver_run(role, W, PKT, ops)
        acc.add(core.digest((role, W, PKT, ops, out)), transitions=len(ops),
                sample={'receiver': role, 'window': W, 'ops': ops} if len(ops) == 3 and ops[0][0] == 'pause' else None)
        for kind, detail in viol:
            shape = ','.join(o[0] if o[0] in ('pause', 'resume') else '%s%d' % (o[0], o[1]) for o in ops)
            acc.violation('receiver:%s:%s:w%d:%s' % (kind, role, W, shape), detail,
                          {'kind': 'receiver', 'role': role, 'W': W, 'PKT': PKT, 'ops': [list(o) for o in ops]})
    return acc


def receiver_jobs(tier):
    depth = 4 if tier == 'quick' else 5
    jobs = []
    for role in ('server', 'client'):
        for W, PKT in ((8, 4), (100, 100), (5, 32768)):
            sizes = sorted({1, W // 2, W, W + 1, PKT})
            alpha = [('send', n) for n in sizes] + [('pause',), ('resume',)]
            if role == 'client':
                alpha.append(('sendx', W // 2 + 1))
            seqs = []
            for d in range(1, depth + 1):
                for s in itertools.product(alpha, repeat=d):
                    if s[-1][0] in ('pause',):
                        continue
                    seqs.append(tuple(s))
            for i in range(0, len(seqs), 400):
                jobs.append((role, W, PKT, seqs[i:i + 400]))
    # tunnel channels: packets of at least 5 bytes (4-byte family word + payload)
    for W, PKT in ((16, 32768), (100, 100)):
        sizes = sorted({5, W // 2, W - 1, W, W + 1})
        alpha = [('send', n) for n in sizes] + [('pause',), ('resume',)]
        seqs = [tuple(s_) for d in range(1, min(depth, 4) + 1) for s_ in itertools.product(alpha, repeat=d) if s_[-1][0] != 'pause']
        for i in range(0, len(seqs), 400):
            jobs.append(('server-tun', W, PKT, seqs[i:i + 400]))
    return jobs


# ------------------------------------------------------------------ (c) deadlock
def deadlock_run(cfg, chooser):
    W, N, reads = cfg[:3]
    limits = cfg[3] if len(cfg) > 3 else None
    loop = P.fresh(0)
    P.install_wire_labels()
    out = {'read': b'', 'calls': 0, 'done': False}
    wake = []

    async def handler(process):
        if limits is not None:
            # the writer chose its own write-buffer limits and writes in two rounds, draining after each
            process.channel.set_write_buffer_limits(high=limits[0], low=limits[1])
            process.stdout.write(data_of(N)[:N // 2])
            await process.stdout.drain()
            process.stdout.write(data_of(N)[N // 2:])
        else:
            process.stdout.write(data_of(N))
        await process.stdout.drain()
        process.stdout.write_eof()
        process.exit(0)
    pair = P.Pair(loop, sopts=dict(process_factory=handler, encoding=None, window=W, max_pktsize=max(1, W // 2)))
    try:
        pair.handshake()

        async def client():
            w_, r, e = await pair.c.open_session(encoding=None, window=W, max_pktsize=max(1, W // 2))
            i = 0
            while True:
                kind, k = reads[i % len(reads)]
                i += 1
                try:
                    if kind == 'wait':
                        # reader is busy elsewhere until the explorer wakes it
                        fut = loop.create_future()
                        wake.append(fut)
                        await fut
                        continue
                    if kind == 'read':
                        d = await r.read(k)
                    else:
                        d = await r.readexactly(k)
                except asyncio_incomplete() as exc:
                    d = exc.partial
                    out['read'] += d
                    break
                out['calls'] += 1
                if not d:
                    break
                out['read'] += d
            out['done'] = True
        task = loop.create_task(client())
        steps = 0
        while True:
            loop.quiesce()
            evs = []
            for name, t in (('cs', pair.st), ('sc', pair.ct)):
                if t in loop.deliverable():
                    evs.append(t)
            pend = [f for f in wake if not f.done()]
            if pend:
                evs.append(pend[0])
            if not evs:
                break
            k = chooser.choose(len(evs), label='deliver')
            if evs[k] in pend:
                evs[k].set_result(None)
            else:
                P.deliver_packet(loop, evs[k])
            steps += 1
            if steps > 5000:
                raise Livelock('too many deliveries')
        viol = []
        if not task.done():
            viol.append(('deadlock', 'no enabled event, reader blocked after %d of %d bytes (%d calls)'
                         % (len(out['read']), N, out['calls'])))
        elif task.exception() is not None:
            viol.append(('reader-exception', repr(task.exception())))
        elif out['read'] != data_of(N):
            viol.append(('data-mismatch', 'read %d of %d bytes' % (len(out['read']), N)))
        if loop.unretrieved():
            viol.append(('loop-exception', repr(loop.exc_log[0].get('exception'))))
        return {'viol': viol, 'steps': steps, 'calls': out['calls']}
    except Livelock as exc:
        return {'viol': [('livelock', str(exc))], 'steps': 0, 'calls': out['calls']}
    finally:
        P.done(loop)


def asyncio_incomplete():
    import asyncio
    return asyncio.IncompleteReadError


def deadlock_worker(job):
    cfg, bound = job
    acc = core.Acc()

    def check(obs, ch):
        acc.add(core.digest((cfg, tuple(ch.choices))), transitions=obs['steps'],
                sample={'window': cfg[0], 'bytes': cfg[1], 'reads': cfg[2], 'schedule': ch.choices}
                if len(ch.labels()) == 2 else None)
        for kind, detail in obs['viol']:
            acc.violation('deadlock:%s:w%d:n%d:%s%s' % (kind, cfg[0], cfg[1], cfg[2], ':limits=%r' % (cfg[3],) if len(cfg) > 3 else ''), detail,
                          {'kind': 'deadlock', 'cfg': [cfg[0], cfg[1], [list(r) for r in cfg[2]]] + ([list(cfg[3])] if len(cfg) > 3 else []),
                           'choices': ch.choices})
    core.explore_dfs(lambda ch: deadlock_run(cfg, ch), bound, check)
    return acc


def deadlock_jobs(tier):
    bound = 2 if tier == 'quick' else 3
    jobs = []
    for W in (4, 16):
        for N in (W - 1, W, W + 1, 3 * W + 1):
            for reads in ((('read', 1),), (('read', W),), (('read', W + 1),), (('readexactly', W + 1),),
                          (('readexactly', 2 * W),), (('read', -1),), (('readexactly', 3), ('read', 1)),
                          (('readexactly', 3 * W + 1),), (('wait', 0), ('read', 1)),
                          (('wait', 0), ('read', W)), (('read', 1), ('wait', 0)),
                          (('wait', 0), ('readexactly', W + 1))):
                jobs.append(((W, N, reads), bound))
    for W in (4, 16):
        for N in (W + 1, 3 * W + 1, 6 * W):
            for limits in ((W, 0), (0, 0), (W, W), (2 * W, 1)):
                for reads in ((('read', 1),), (('read', W),), (('read', -1),), (('wait', 0), ('read', W))):
                    jobs.append(((W, N, reads, limits), min(bound, 2)))
    return jobs


# ------------------------------------------------------------------ main
# ------------------------------------------------------------------ (d) a reader that starts late
def late_reader_worker(job):
    """checks/c09.py's late-wait harness seen from this property: the output of a process is left unread for k
    deliveries (the stream buffer fills, the channel is paused, the window closes); from the moment the application
    reads (wait / communicate / read both streams / read a little and wait) the window must be replenished and
    every byte written must arrive."""
    import c09
    acc = core.Acc()
    for n, k, api in job:
        obs = c09.late_wait_case(n, k, api)
        acc.add(core.digest(('late-reader', n, k, api)), transitions=obs['steps'] + 1)
        for kind, detail in obs['viol']:
            if kind in ('waiter-hung', 'output-incomplete', 'livelock'):
                acc.violation('late-reader:%s:%s' % (kind, api), '%s ; n=%d k=%d' % (detail, n, k), {'kind': 'late-reader', 'case': [n, k, api]})
    return acc


def forwarded_worker(job):
    """checks/c20.py's slow-consumer harness seen from this property: back-pressure across a forwarded connection
    (socket write buffer full -> channel window closes -> far socket paused) with half-closes arriving before,
    between and after: whatever the order, once the slow end reads, everything written arrives."""
    import c20
    acc = core.Acc()
    for case in job:
        viol, n = c20.slow_case(*case)
        acc.add(core.digest(('forwarded',) + tuple(case)), transitions=n)
        for k, d in viol:
            if k in ('relay-mismatch', 'eof-not-propagated', 'livelock'):
                acc.violation('forwarded:%s:%s:%s' % (k, case[0], case[4]), '%s ; case=%r' % (d, case), {'kind': 'forwarded', 'case': list(case)})
    return acc


def forwarded_jobs(tier):
    import c20
    cases = [c for j in c20.slow_jobs(tier) for c in j if tier == 'thorough' or (c[4] == 'after-eof' and c[0] != 'local-path')]
    return [cases[i::16] for i in range(16)]


def reading_handler_worker(job):
    """checks/c19.py's in-band harness with a small stream buffer (window 64), seen from this property: a handler
    that keeps reading by lines / n units while partial lines are interrupted by signals and size changes gets
    every byte -- the window is replenished as long as it reads (no accounting drift, no stall)."""
    import c19
    cfg, bound = job
    acc = core.Acc()
    name = 'reading-handler|%s|pkt=%d|%s' % (cfg['name'], cfg['pkt'], cfg['cname'])

    def check(obs, ch):
        acc.add(core.digest((name, tuple(ch.choices))), transitions=obs['steps'])
        if obs['flat'] is None or not obs['done'] or obs['flat'] != obs['sent']:
            what = 'stalled' if (obs['flat'] is None or not obs['done']) else 'data-differs'
            acc.violation('reading-handler:%s:%s' % (what, cfg['cname'].split('(')[0]),
                          'handler read %s of what was sent (%r) ; script=%s calls=%s pkt=%d' % (
                              'only part' if what == 'stalled' else 'something else', (obs['viol'] or [''])[:1], cfg['name'], cfg['cname'], cfg['pkt']),
                          {'kind': 'reading-handler', 'name': cfg['name'], 'cname': cfg['cname'], 'pkt': cfg['pkt'], 'choices': ch.choices})
    core.explore_dfs(lambda ch: c19.inband_run(cfg, ch), bound, check)
    return acc


def reading_handler_jobs(tier):
    import c19
    return [j for j in c19.inband_jobs(tier) if j[0].get('win')]


def late_reader_jobs(tier):
    sizes = (63, 64, 65, 200, 400) if tier == 'quick' else (1, 32, 63, 64, 65, 96, 128, 129, 200, 400, 1000)
    cases = [(n, k, api) for api in ('wait', 'communicate', 'read-all', 'run-like') for n in sizes for k in range(0, 24 if tier == 'quick' else 40)]
    return [cases[i::16] for i in range(16)]


def main(tier, seed):
    t0 = core.now()
    acc = core.Acc()
    sj = sender_jobs(tier)
    a = sender_run(sj[5][:-1], core.Chooser([1, 0, 2]))
    b = sender_run(sj[5][:-1], core.Chooser([1, 0, 2]))
    if a != b:
        print('HARNESS-NONDETERMINISM')
        return 2
    acc.merge(core.pmap(sender_worker, core.rotate(sj, seed)))
    n_a = acc.evaluations
    acc.merge(core.pmap(receiver_worker, core.rotate(receiver_jobs(tier), seed)))
    n_b = acc.evaluations - n_a
    acc.merge(core.pmap(deadlock_worker, core.rotate(deadlock_jobs(tier), seed)))
    n_c = acc.evaluations - n_a - n_b
    acc.merge(core.pmap(late_reader_worker, late_reader_jobs(tier)))
    acc.merge(core.pmap(reading_handler_worker, reading_handler_jobs(tier), chunksize=2))
    acc.merge(core.pmap(forwarded_worker, [j for j in forwarded_jobs(tier) if j]))
    rule = ('(a) sender: for (role, initial window, max packet, write list) every sequence of 5 '
            'WINDOW_ADJUST grants from a menu {pkt, 0, 1, rest, 2^32-1} with <= bound deviations, '
            'refpeer ledger never negative, packets <= max packet, everything delivered once enough is '
            'granted; (b) receiver: every sequence up to depth d over {send n (n around window and '
            'packet size), extended data, pause, resume} from a hostile peer; (c) real<->real stream '
            'API, reader call menus x write sizes around the window (and writers with their own write-buffer '
            'limits incl. low-water 0, two write+drain rounds), every packet-delivery interleaving '
            'within the deviation bound, no deadlock; (d) a process whose output is left unread for k = 0..23 deliveries '
            '(buffer full, channel paused, window closed) before the application reads it through wait / communicate / '
            'both streams / read-then-wait: everything written arrives; a handler with a 64-byte stream buffer reading by lines / n units '
            'while partial lines are interrupted by signals and size changes, every interleaving of deliveries and reader calls '
            'within the bound: it gets every byte; (e) forwarded connections with a consumer that stops reading (small socket '
            'write buffer, so the back-pressure reaches the channel) and half-closes before / after the upload / before it reads again: '
            'everything arrives, end of file after it')
    return core.finish(PROP, tier, seed, 'model_checking', acc, t0, rule,
                       {'sender_execs': n_a, 'receiver_execs': n_b, 'deadlock_execs': n_c,
                        'deviation_bound': 2 if tier == 'quick' else 3,
                        'receiver_depth': 4 if tier == 'quick' else 5})


def replay(rep):
    r = rep['replay']
    if r['kind'] == 'sender':
        obs = sender_run(tuple(tuple(x) if isinstance(x, list) and x and not isinstance(x[0], list) else x
                               for x in _tuplify(r['job'])), core.Chooser(r['choices']))
        v = obs['viol']
    elif r['kind'] == 'reading-handler':
        import c19
        v = []
        for c, _b in c19.inband_jobs('thorough'):
            if c.get('win') and (c['name'], c['cname'], c['pkt']) == (r['name'], r['cname'], r['pkt']):
                obs = c19.inband_run(c, core.Chooser(r['choices']))
                if obs['flat'] is None or not obs['done'] or obs['flat'] != obs['sent']:
                    v.append(('reading-handler', repr(obs['viol'][:1])))
    elif r['kind'] == 'forwarded':
        import c20
        v = [x for x in c20.slow_case(*r['case'])[0] if x[0] in ('relay-mismatch', 'eof-not-propagated', 'livelock')]
    elif r['kind'] == 'late-reader':
        import c09
        v = [x for x in c09.late_wait_case(*r['case'])['viol'] if x[0] in ('waiter-hung', 'output-incomplete', 'livelock')]
    elif r['kind'] == 'receiver':
        v, _ = receiver_run(r['role'], r['W'], r['PKT'], [tuple(o) for o in r['ops']])
    else:
        cfg = (r['cfg'][0], r['cfg'][1], tuple(tuple(x) for x in r['cfg'][2])) + ((tuple(r['cfg'][3]),) if len(r['cfg']) > 3 else ())
        v = deadlock_run(cfg, core.Chooser(r['choices']))['viol']
    print(json.dumps({'replay': r, 'violations': v}, indent=1, default=repr))
    if v:
        print('VIOLATION property=%s replay=(given)' % PROP)
        return 1
    return 0


def _tuplify(job):
    role, w0, pkt, writes, menu, maxg = job
    return (role, w0, pkt, [tuple(x) for x in writes], menu, maxg)
