"""C15  Keys survive every export/import path and interoperate.

Exhaustive format matrix: key type x private/public format x cipher x hash x PBES version
x passphrase x comment; oracles: equality after import, wrong passphrase rejected,
independent readers (PyCA loaders, ssh-keygen, openssl) agree, and keys written by them
are read identically by asyncssh.
"""

import base64
import asyncio
import itertools
import json
import os
import shutil
import subprocess
import tempfile

import asyncssh
from cryptography.hazmat.primitives import serialization
from cryptography.hazmat.primitives.serialization import (load_der_private_key, load_der_public_key,
                                                          load_pem_private_key, load_pem_public_key,
                                                          load_ssh_private_key, load_ssh_public_key)

import core
import pair as P

PROP = 'C15'
SSH_KEYGEN = shutil.which('ssh-keygen')
OPENSSL = shutil.which('openssl')
SCRATCH = '/dev/shm/asyncssh-verif-c15-%d' % os.getpid()       # unique per check run (workers are forked later)

KEYTYPES = [('ssh-rsa', {'key_size': 2048}), ('ssh-dss', {}), ('ecdsa-sha2-nistp256', {}), ('ecdsa-sha2-nistp384', {}),
            ('ecdsa-sha2-nistp521', {}), ('ssh-ed25519', {}), ('ssh-ed448', {})]
PASSPHRASES = [('short', 'x'), ('empty', ''), ('empty-bytes', b''), ('nonascii', 'pässwörd-ключ'), ('len31', 'a' * 31), ('len32', 'b' * 32),
               ('len33', 'c' * 33), ('long', 'p' * 1024)]
COMMENTS = [None, b'plain', b'two words', b'double  blank', b'tab\there', b'Name:   J. Doe   <jd@example.com>',
            b'non-utf8 \xff\xfe']


def pyca_public_blob(pub):
    return pub.public_bytes(serialization.Encoding.OpenSSH, serialization.PublicFormat.OpenSSH).split()[1]


def blob_b64(key):
    import base64
    return base64.b64encode(key.public_data)


def private_matrix():
    """(format, kwargs, label) for every supported encryption of each private format"""
    out = [('openssh', {}, 'openssh/plain'), ('pkcs1-der', {}, 'pkcs1-der/plain'), ('pkcs1-pem', {}, 'pkcs1-pem/plain'),
           ('pkcs8-der', {}, 'pkcs8-der/plain'), ('pkcs8-pem', {}, 'pkcs8-pem/plain')]
    for c in ('aes128-cbc', 'aes192-cbc', 'aes256-cbc', 'des-cbc', 'des3-cbc'):
        out.append(('pkcs1-pem', dict(cipher_name=c), 'pkcs1-pem/' + c))
    for fmt in ('pkcs8-der', 'pkcs8-pem'):
        for c, h in (('des-cbc', 'md5'), ('des-cbc', 'sha1'), ('des2-cbc', 'sha1'), ('des3-cbc', 'sha1'),
                     ('rc4-40', 'sha1'), ('rc4-128', 'sha1')):
            out.append((fmt, dict(cipher_name=c, hash_name=h, pbe_version=1), '%s/v1/%s-%s' % (fmt, c, h)))
        for c in ('aes128-cbc', 'aes192-cbc', 'aes256-cbc', 'blowfish-cbc', 'cast128-cbc', 'des-cbc', 'des3-cbc'):
            for h in ('sha1', 'sha224', 'sha256', 'sha384', 'sha512'):
                out.append((fmt, dict(cipher_name=c, hash_name=h, pbe_version=2), '%s/v2/%s-%s' % (fmt, c, h)))
    return out


def worker(job):
    alg, kw, tier = job
    acc = core.Acc()
    try:
        key = P.key('c15-' + alg, alg, **kw)
        key2 = P.key('c15b-' + alg, alg, **kw)
    except Exception as exc:        # pylint: disable=broad-except
        acc.notes.append('key type %s cannot be generated here: %r' % (alg, exc))
        return acc

    def viol(kind, label, detail, extra=None):
        acc.violation('keys:%s:%s:%s' % (kind, alg, label.split('/')[0] + '/' + '/'.join(label.split('/')[1:2])),
                      '%s (%s)' % (detail, label), dict(kind='key', alg=alg, label=label, **(extra or {})))
    if key == key2 or key.public_data == key2.public_data:
        viol('keygen', 'distinct', 'two generated keys are equal')
    tmp = os.path.join(SCRATCH, '%s-%d' % (alg, os.getpid()))
    os.makedirs(tmp, exist_ok=True)
    # ---------------- private formats
    for fmt, ekw, label in private_matrix():
        encrypted = bool(ekw)
        pps = PASSPHRASES if encrypted else [('none', None)]
        if tier == 'quick' and encrypted:
            # every scheme with the short passphrase; the length/charset grid on one scheme per family
            grid = label in ('pkcs1-pem/aes256-cbc', 'pkcs8-pem/v1/des3-cbc-sha1', 'pkcs8-pem/v2/aes256-cbc-sha256',
                             'pkcs8-der/v1/rc4-128-sha1', 'pkcs8-der/v2/des3-cbc-sha1')
            pps = PASSPHRASES if grid else PASSPHRASES[:1]
        for pname, pp in pps:
            lab = '%s/%s' % (label, pname)
            try:
                data = key.export_private_key(fmt, passphrase=pp, **ekw)
            except (asyncssh.KeyExportError, asyncssh.KeyEncryptionError) as exc:
                acc.count('not-exportable:%s' % label.split('/')[0])
                continue
            acc.add(core.digest((alg, lab)), transitions=1,
                    sample={'key': alg, 'export': lab} if pname == 'nonascii' and 'v2/aes256-cbc-sha256' in label else None)
            try:
                back = asyncssh.import_private_key(data, pp)
                if back != key or back.public_data != key.public_data:
                    viol('roundtrip', lab, 'import(export(k)) differs from k')
            except Exception as exc:        # pylint: disable=broad-except
                viol('roundtrip', lab, 'import of own export failed: %r' % (exc,))
            if encrypted:
                pps_ = pp.decode() if isinstance(pp, bytes) else (pp or '')
                for wname, wrong in (('other', 'y'), ('prefix', pps_[:-1] or 'z'), ('suffix', pps_ + 'q'),
                                     ('none', None), ('tail-changed', pps_[:-1] + 'Z')):
                    if wrong == pp or (not pp and not wrong and wrong is not None):
                        continue
                    try:
                        k2 = asyncssh.import_private_key(data, wrong)
                        viol('wrong-passphrase-accepted', lab, 'imported with passphrase variant %s' % wname)
                    except (asyncssh.KeyImportError, asyncssh.KeyEncryptionError):
                        pass
                    except Exception as exc:        # pylint: disable=broad-except
                        viol('wrong-passphrase-error', lab, 'undocumented %r for variant %s' % (exc, wname))
            # independent reader: PyCA
            pb = pp.encode('utf-8') if isinstance(pp, str) else pp
            if encrypted and not pp:
                continue        # an empty passphrase is a real passphrase for asyncssh; other tools treat it as none
            try:
                if fmt == 'openssh':
                    other = load_ssh_private_key(data, pb)
                elif fmt.endswith('der'):
                    other = load_der_private_key(data, pb)
                else:
                    other = load_pem_private_key(data, pb)
                if pyca_public_blob(other.public_key()) != blob_b64(key):
                    viol('pyca-reads-different-key', lab, 'PyCA loaded a different key')
            except Exception as exc:        # pylint: disable=broad-except
                legacy = any(x in lab for x in ('rc4', 'des-cbc', 'des2', 'blowfish', 'cast128', 'v1/', 'ed448', 'md5')) or alg == 'ssh-ed448'
                if legacy or 'unsupported' in str(exc).lower() or 'unknown cipher' in str(exc).lower():
                    acc.count('pyca-cannot-read(legacy/unsupported)')
                else:
                    viol('pyca-cannot-read', lab, repr(exc)[:200])
            # independent reader: openssl CLI for the PKCS#12-KDF and PBES1 schemes (legacy provider)
            if OPENSSL and fmt == 'pkcs8-pem' and 'v1/' in label and pname in ('short', 'len32', 'len33', 'nonascii'):
                pth = os.path.join(tmp, 'k.pem')
                with open(pth, 'wb') as f:
                    f.write(data)
                r = subprocess.run([OPENSSL, 'pkey', '-in', pth, '-passin', 'pass:' + pp, '-pubout', '-provider',
                                    'default', '-provider', 'legacy'], capture_output=True)
                if r.returncode == 0:
                    try:
                        opub = load_pem_public_key(r.stdout)
                        if pyca_public_blob(opub) != blob_b64(key):
                            viol('openssl-reads-different-key', lab, 'openssl pkey decoded a different key')
                        acc.count('openssl-read-ok')
                    except Exception:       # pylint: disable=broad-except
                        acc.count('openssl-output-unparsed')
                elif b'unsupported' in r.stderr.lower() or b'Unsupported' in r.stderr or alg in ('ssh-ed448',):
                    acc.count('openssl-unsupported')
                else:
                    viol('openssl-cannot-read', lab, r.stderr.decode('latin1')[-200:])
    # ---------------- public formats and comments
    for fmt in ('openssh', 'rfc4716', 'pkcs1-der', 'pkcs1-pem', 'pkcs8-der', 'pkcs8-pem'):
        for comment in (COMMENTS if fmt in ('openssh', 'rfc4716') else [None]):
            lab = 'public-%s/%r' % (fmt, comment)
            k = asyncssh.import_private_key(key.export_private_key('pkcs8-der'))
            if comment is not None:
                k.set_comment(comment)
            try:
                data = k.export_public_key(fmt)
            except asyncssh.KeyExportError:
                acc.count('not-exportable:public-%s' % fmt)
                continue
            acc.add(core.digest((alg, lab)), transitions=1)
            try:
                back = asyncssh.import_public_key(data)
                if back.public_data != key.public_data:
                    viol('public-roundtrip', lab, 'public key differs after import')
                want = comment
                if fmt == 'openssh' and back.get_comment_bytes() != want:
                    viol('comment-changed', 'public-%s/comment' % fmt, 'comment %r came back as %r'
                         % (want, back.get_comment_bytes()))
                if fmt == 'rfc4716' and want is not None and back.get_comment_bytes() != want:
                    viol('comment-changed', 'public-%s/comment' % fmt, 'comment %r came back as %r'
                         % (want, back.get_comment_bytes()))
            except Exception as exc:        # pylint: disable=broad-except
                viol('public-roundtrip', lab, 'import of own export failed: %r' % (exc,))
            if comment in (None, b'plain'):
                try:
                    if fmt == 'openssh':
                        other = load_ssh_public_key(data)
                    elif fmt.endswith('der'):
                        other = load_der_public_key(data)
                    elif fmt.endswith('pem'):
                        other = load_pem_public_key(data)
                    else:
                        other = None
                    if other is not None and pyca_public_blob(other) != blob_b64(key):
                        viol('pyca-reads-different-key', lab, 'PyCA loaded a different public key')
                except Exception as exc:    # pylint: disable=broad-except
                    if alg in ('ssh-ed448',) or (fmt.startswith('pkcs1') and alg not in ('ssh-rsa',)):
                        acc.count('pyca-cannot-read(legacy/unsupported)')
                    else:
                        viol('pyca-cannot-read', lab, repr(exc)[:200])
    # openssh private key carries the comment too
    for comment in COMMENTS[1:]:
        k = asyncssh.import_private_key(key.export_private_key('pkcs8-der'))
        k.set_comment(comment)
        back = asyncssh.import_private_key(k.export_private_key('openssh'))
        acc.add(core.digest((alg, 'openssh-private-comment', comment)), transitions=1)
        if back.get_comment_bytes() != comment:
            viol('comment-changed', 'openssh-private/comment', '%r -> %r' % (comment, back.get_comment_bytes()))
    # ---------------- ssh-keygen both directions
    if SSH_KEYGEN and alg not in ('ssh-ed448',):
        pth = os.path.join(tmp, 'id')
        for comment in (b'plain', b'double  blank'):
            k = asyncssh.import_private_key(key.export_private_key('pkcs8-der'))
            k.set_comment(comment)
            with open(pth, 'wb') as f:
                f.write(k.export_private_key('openssh'))
            os.chmod(pth, 0o600)
            r = subprocess.run([SSH_KEYGEN, '-y', '-f', pth], capture_output=True)
            acc.add(core.digest((alg, 'ssh-keygen-y', comment)), transitions=1)
            if r.returncode != 0:
                if b'unknown key type' in r.stderr or alg == 'ssh-dss':
                    acc.count('ssh-keygen-unsupported')
                else:
                    viol('ssh-keygen-cannot-read', 'openssh-private', r.stderr.decode('latin1')[:200])
            else:
                parts = r.stdout.split(None, 2)
                if parts[1] != blob_b64(key):
                    viol('ssh-keygen-reads-different-key', 'openssh-private', 'ssh-keygen -y printed another key')
                got = parts[2].rstrip(b'\n') if len(parts) > 2 else None
                if got != comment:
                    viol('ssh-keygen-comment', 'openssh-private', 'ssh-keygen -y printed comment %r, key has %r' % (got, comment))
            # public file read by ssh-keygen -l, and converted with -e -m
            with open(pth + '.pub', 'wb') as f:
                f.write(k.export_public_key('openssh'))
            r = subprocess.run([SSH_KEYGEN, '-l', '-f', pth + '.pub'], capture_output=True)
            if r.returncode == 0:
                fp = r.stdout.split()[1].decode()
                if fp != k.get_fingerprint():
                    viol('ssh-keygen-fingerprint', 'public-openssh', '%s vs %s' % (fp, k.get_fingerprint()))
                if comment not in r.stdout:
                    viol('ssh-keygen-comment', 'public-openssh', 'ssh-keygen -l output %r lacks comment %r' % (r.stdout, comment))
            elif alg != 'ssh-dss':
                viol('ssh-keygen-cannot-read', 'public-openssh', r.stderr.decode('latin1')[:200])
        for m, fmt in (('RFC4716', 'rfc4716'), ('PKCS8', 'pkcs8-pem'), ('PEM', 'pkcs1-pem')):
            r = subprocess.run([SSH_KEYGEN, '-e', '-m', m, '-f', pth + '.pub'], capture_output=True)
            acc.add(core.digest((alg, 'ssh-keygen-e', m)), transitions=1)
            if r.returncode == 0:
                try:
                    back = asyncssh.import_public_key(r.stdout)
                    if back.public_data != key.public_data:
                        viol('reads-ssh-keygen-differently', 'ssh-keygen-e-' + m, 'different key')
                except asyncssh.KeyImportError as exc:
                    viol('cannot-read-ssh-keygen', 'ssh-keygen-e-' + m, repr(exc))
        # a key generated by ssh-keygen is read identically by asyncssh
        kt = {'ssh-rsa': ['-t', 'rsa', '-b', '2048'], 'ecdsa-sha2-nistp256': ['-t', 'ecdsa', '-b', '256'],
              'ecdsa-sha2-nistp384': ['-t', 'ecdsa', '-b', '384'], 'ecdsa-sha2-nistp521': ['-t', 'ecdsa', '-b', '521'],
              'ssh-ed25519': ['-t', 'ed25519']}.get(alg)
        if kt:
            for m in ('RFC4716', 'PEM', 'PKCS8'):
                g = os.path.join(tmp, 'gen-' + m)
                for x in (g, g + '.pub'):
                    if os.path.exists(x):
                        os.unlink(x)
                r = subprocess.run([SSH_KEYGEN, '-q', '-N', '', '-C', 'gen  comment', '-m', m, '-f', g] + kt, capture_output=True)
                acc.add(core.digest((alg, 'ssh-keygen-gen', m)), transitions=1)
                if r.returncode != 0:
                    acc.count('ssh-keygen-gen-failed')
                    continue
                try:
                    priv = asyncssh.read_private_key(g)
                    pub = asyncssh.read_public_key(g + '.pub')
                    if priv.public_data != pub.public_data:
                        viol('reads-ssh-keygen-differently', 'ssh-keygen-gen-' + m, 'private and public file disagree')
                    if pub.get_comment_bytes() != b'gen  comment':
                        viol('comment-changed', 'ssh-keygen-gen-' + m, 'comment read as %r' % (pub.get_comment_bytes(),))
                except Exception as exc:        # pylint: disable=broad-except
                    viol('cannot-read-ssh-keygen', 'ssh-keygen-gen-' + m, repr(exc)[:200])
    # openssl-written PKCS#8 with PBE-SHA1-3DES (PKCS#12 KDF) and long passphrases read by asyncssh
    if OPENSSL and alg in ('ssh-rsa', 'ecdsa-sha2-nistp256', 'ssh-ed25519'):
        src = os.path.join(tmp, 'plain.pem')
        with open(src, 'wb') as f:
            f.write(key.export_private_key('pkcs8-pem'))
        for pname, pp in PASSPHRASES:
            if pname == 'long' or not pp:
                continue
            for v1 in ('PBE-SHA1-3DES', None):
                cmd = [OPENSSL, 'pkcs8', '-topk8', '-in', src, '-passout', 'pass:' + pp]
                cmd += ['-v1', v1, '-provider', 'default', '-provider', 'legacy'] if v1 else ['-v2', 'aes-256-cbc']
                r = subprocess.run(cmd, capture_output=True)
                acc.add(core.digest((alg, 'openssl-topk8', pname, v1)), transitions=1)
                if r.returncode != 0:
                    acc.count('openssl-topk8-failed')
                    continue
                try:
                    back = asyncssh.import_private_key(r.stdout, pp)
                    if back.public_data != key.public_data:
                        viol('reads-openssl-differently', 'openssl-topk8/%s/%s' % (v1, pname), 'different key')
                except Exception as exc:        # pylint: disable=broad-except
                    viol('cannot-read-openssl', 'openssl-topk8/%s/%s' % (v1, pname), repr(exc)[:200])
    # keys that went through a file: the object remembers the file name, which must never turn into a comment
    for infmt in ('pkcs8-pem', 'openssh', 'pkcs8-der'):
        for cmt in (None, b'orig comment'):
            if cmt is not None and infmt != 'openssh':
                continue
            src = asyncssh.import_private_key(key.export_private_key('pkcs8-pem'))
            src.set_comment(cmt)
            pth = os.path.join(tmp, 'viafile-%s' % infmt)
            try:
                with open(pth, 'wb') as f:
                    f.write(src.export_private_key(infmt))
            except asyncssh.KeyExportError:
                continue
            loaded = asyncssh.read_private_key(pth)
            for outfmt in ('openssh', 'pkcs8-pem', 'pub-openssh', 'pub-rfc4716', 'write-private', 'write-public'):
                lab = 'via-file/%s->%s/%s' % (infmt, outfmt, 'comment' if cmt else 'nocomment')
                acc.add(core.digest((alg, lab)), transitions=1)
                try:
                    if outfmt == 'write-private':
                        loaded.write_private_key(pth + '.out')
                        back = asyncssh.import_private_key(open(pth + '.out', 'rb').read())
                    elif outfmt == 'write-public':
                        loaded.write_public_key(pth + '.pub')
                        back = asyncssh.import_public_key(open(pth + '.pub', 'rb').read())
                    elif outfmt.startswith('pub-'):
                        back = asyncssh.import_public_key(loaded.export_public_key(outfmt[4:]))
                    else:
                        back = asyncssh.import_private_key(loaded.export_private_key(outfmt))
                    want = cmt if not (outfmt == 'pkcs8-pem') else None
                    got = back.get_comment_bytes() if back.has_comment() else None
                    if got != want:
                        viol('comment-changed', lab, 'key read from a file and exported as %s comes back with comment %r, the key has %r'
                             % (outfmt, got, want))
                    if back.public_data != key.public_data:
                        viol('roundtrip', lab, 'different key')
                except (asyncssh.KeyExportError, asyncssh.KeyImportError) as exc:
                    acc.count('via-file-not-exportable')
                except Exception as exc:    # pylint: disable=broad-except
                    viol('roundtrip', lab, repr(exc)[:200])
    # files with several concatenated keys of mixed formats
    blobs = [key.export_private_key('pkcs8-pem'), key2.export_private_key('openssh'), key.export_private_key('pkcs1-pem')
             if alg in ('ssh-rsa', 'ssh-dss') or alg.startswith('ecdsa') else key2.export_private_key('pkcs8-pem')]
    for perm in itertools.permutations(range(3)):
        pth = os.path.join(tmp, 'multi')
        with open(pth, 'wb') as f:
            f.write(b''.join(blobs[i] for i in perm))
        acc.add(core.digest((alg, 'multi', perm)), transitions=1)
        try:
            got = [k.public_data for k in asyncssh.read_private_key_list(pth)]
            want = [([key, key2, key if (alg in ('ssh-rsa', 'ssh-dss') or alg.startswith('ecdsa')) else key2][i]).public_data for i in perm]
            if got != want:
                viol('multi-key-file', 'concatenated', 'order %r read as %d keys' % (perm, len(got)))
        except Exception as exc:        # pylint: disable=broad-except
            viol('multi-key-file', 'concatenated', repr(exc)[:200])
    shutil.rmtree(tmp, ignore_errors=True)
    return acc


# ------------------------------------------------------------------ certificates: asyncssh <-> PyCA <-> ssh-keygen
PERMITS = ('permit-X11-forwarding', 'permit-agent-forwarding', 'permit-port-forwarding', 'permit-pty', 'permit-user-rc')
CERT_KEYTYPES = [('ssh-ed25519', {}), ('ssh-rsa', {'key_size': 2048}), ('ecdsa-sha2-nistp256', {}), ('ecdsa-sha2-nistp521', {})]


def cert_view_asyncssh(c):
    crit, ext = {}, {}
    for k, v in c.options.items():
        if k == 'force-command':
            crit[k] = v
        elif k == 'source-address':
            crit[k] = ','.join(str(a) for a in v)
        else:
            ext[k] = ''
    return {'type': 'user' if c._cert_type == 1 else 'host', 'serial': c._serial, 'key_id': c._key_id,
            'principals': list(c.principals), 'valid_after': c._valid_after, 'valid_before': c._valid_before,
            'critical': crit, 'extensions': ext, 'subject': base64.b64encode(c.key.public_data).decode(),
            'ca': base64.b64encode(c.signing_key.public_data).decode()}


def _s(x):
    return x.decode() if isinstance(x, bytes) else x


def cert_view_pyca(data):
    from cryptography.hazmat.primitives.serialization import load_ssh_public_identity, SSHCertificateType
    pc = load_ssh_public_identity(data)
    pc.verify_cert_signature()
    return {'type': 'user' if pc.type == SSHCertificateType.USER else 'host', 'serial': pc.serial, 'key_id': pc.key_id.decode('utf-8'),
            'principals': [p.decode('utf-8') for p in pc.valid_principals], 'valid_after': pc.valid_after,
            'valid_before': pc.valid_before, 'critical': {k.decode(): v.decode() for k, v in pc.critical_options.items()},
            'extensions': {k.decode(): v.decode() for k, v in pc.extensions.items()},
            'subject': _s(pyca_public_blob(pc.public_key())), 'ca': _s(pyca_public_blob(pc.signature_key()))}


def cert_view_keygen(pth):
    """parse `ssh-keygen -L` (fingerprints instead of blobs; validity printed in local time: not compared)"""
    r = subprocess.run([SSH_KEYGEN, '-L', '-f', pth], capture_output=True, text=True)
    if r.returncode != 0:
        raise ValueError('ssh-keygen -L failed: ' + r.stderr[:200])
    v = {'principals': [], 'critical': {}, 'extensions': {}}
    sect = None
    for ln in r.stdout.splitlines()[1:]:
        t = ln.strip()
        if ln.startswith(' ' * 16):
            if sect == 'principals':
                v['principals'].append(t)
            elif sect in ('critical', 'extensions'):
                name, _, val = t.partition(' ')
                v[sect][name] = val
            continue
        sect = None
        if t.startswith('Type:'):
            v['type'] = t.split()[2]
        elif t.startswith('Public key:'):
            v['subject_fp'] = t.split()[3]
        elif t.startswith('Signing CA:'):
            v['ca_fp'] = t.split()[3]
        elif t.startswith('Key ID:'):
            v['key_id'] = t[len('Key ID: "'):-1]
        elif t.startswith('Serial:'):
            v['serial'] = int(t.split()[1])
        elif t.startswith('Principals:'):
            sect = 'principals'
            if '(none)' in t:
                sect = None
        elif t.startswith('Critical Options:'):
            sect = None if '(none)' in t else 'critical'
        elif t.startswith('Extensions:'):
            sect = None if '(none)' in t else 'extensions'
    return v


def cert_option_grid(full):
    out = []
    for fc in (None, 'echo "hi"  there'):
        for sa in (None, ['10.0.0.0/8', '1.2.3.4']):
            for bits in range(64):
                if not full and bits not in (0, 63, 31, 32, 21, 42, 1, 48):
                    continue
                out.append((fc, sa, tuple(bool(bits >> i & 1) for i in range(5)), bool(bits >> 5 & 1)))
    return out


def cert_worker(job):
    ca_alg, subj_alg, tier = job
    acc = core.Acc()
    ca = P.key('c15-ca-' + ca_alg, ca_alg, **dict(CERT_KEYTYPES)[ca_alg])
    subj = P.key('c15-subj-' + subj_alg, subj_alg, **dict(CERT_KEYTYPES)[subj_alg])
    tmp = os.path.join(SCRATCH, 'cert-%s-%s-%d' % (ca_alg, subj_alg, os.getpid()))
    os.makedirs(tmp, exist_ok=True)
    import ipaddress
    full = ca_alg == 'ssh-ed25519' and subj_alg == 'ssh-ed25519'

    def viol(kind, label, detail):
        acc.violation('certs:%s:%s' % (kind, label), '%s (CA %s, subject %s)' % (detail, ca_alg, subj_alg),
                      {'kind': 'cert', 'ca': ca_alg, 'subj': subj_alg})

    def compare(label, data, want, pth):
        """every reader must see `want`"""
        try:
            a = cert_view_asyncssh(asyncssh.import_certificate(data))
            if a != want:
                viol('asyncssh-reads-differently', label, 'asyncssh: %r, expected %r' % (a, want))
        except Exception as exc:            # pylint: disable=broad-except
            viol('asyncssh-cannot-read', label, repr(exc)[:200])
        if subj_alg != 'ssh-dss':
            try:
                p = cert_view_pyca(data)
                if p != want:
                    viol('pyca-reads-differently', label, 'PyCA: %r, expected %r' % (p, want))
            except Exception as exc:        # pylint: disable=broad-except
                viol('pyca-cannot-read', label, '%r ; options=%r extensions=%r' % (exc, sorted(want['critical']), sorted(want['extensions'])))
        if SSH_KEYGEN and pth:
            try:
                k = cert_view_keygen(pth)
                exp = {'type': want['type'], 'serial': want['serial'], 'key_id': want['key_id'], 'principals': want['principals'],
                       'critical': want['critical'], 'extensions': want['extensions'],
                       'subject_fp': subj.get_fingerprint(), 'ca_fp': ca.get_fingerprint()}
                if k != exp:
                    viol('ssh-keygen-reads-differently', label, 'ssh-keygen -L: %r, expected %r' % (k, exp))
            except Exception as exc:        # pylint: disable=broad-except
                viol('ssh-keygen-cannot-read', label, repr(exc)[:200])

    # (1) written by asyncssh
    n = 0
    for fc, sa, permits, touch in cert_option_grid(full):
        for principals, va, vb, serial in (((), 0, 2 ** 64 - 1, 0), (('u1', 'u2'), 1000, 2000, 2 ** 64 - 1)):
            if not full and principals and (fc or sa):
                continue
            kw = dict(zip(('permit_x11_forwarding', 'permit_agent_forwarding', 'permit_port_forwarding', 'permit_pty', 'permit_user_rc'), permits))
            c = ca.generate_user_certificate(subj, 'id %d' % n, principals=list(principals), force_command=fc, source_address=sa,
                                             touch_required=touch, valid_after=va, valid_before=vb, serial=serial, **kw)
            want = {'type': 'user', 'serial': serial, 'key_id': 'id %d' % n, 'principals': list(principals), 'valid_after': va,
                    'valid_before': vb, 'critical': {}, 'extensions': {p: '' for p, on in zip(PERMITS, permits) if on},
                    'subject': base64.b64encode(subj.public_data).decode(), 'ca': base64.b64encode(ca.public_data).decode()}
            if fc:
                want['critical']['force-command'] = fc
            if sa:
                want['critical']['source-address'] = ','.join(str(ipaddress.ip_network(x)) for x in sa)
            if not touch:
                want['extensions']['no-touch-required'] = ''
            data = c.export_certificate('openssh')
            pth = os.path.join(tmp, 'c-cert.pub')
            with open(pth, 'wb') as f:
                f.write(data)
            label = 'written-by-asyncssh/user/%s%s%s' % ('fc' if fc else '', '+sa' if sa else '', '' if touch else '+no-touch')
            acc.add(core.digest(('cert-a', ca_alg, subj_alg, fc, tuple(sa or ()), permits, touch, principals)), transitions=3,
                    sample={'certificate': 'asyncssh user cert', 'critical': want['critical'], 'extensions': sorted(want['extensions'])}
                    if full and fc and sa and not touch and permits == (True, False, True, False, True) and principals else None)
            compare(label, data, want, pth if (full or n % 4 == 0) else None)
            n += 1
    for principals in ((), ('h.example', '*.example')):
        c = ca.generate_host_certificate(subj, 'host', principals=list(principals), serial=5, valid_after=1, valid_before=2 ** 33)
        want = {'type': 'host', 'serial': 5, 'key_id': 'host', 'principals': list(principals), 'valid_after': 1, 'valid_before': 2 ** 33,
                'critical': {}, 'extensions': {}, 'subject': base64.b64encode(subj.public_data).decode(),
                'ca': base64.b64encode(ca.public_data).decode()}
        data = c.export_certificate('openssh')
        pth = os.path.join(tmp, 'h-cert.pub')
        with open(pth, 'wb') as f:
            f.write(data)
        acc.add(core.digest(('cert-h', ca_alg, subj_alg, principals)), transitions=3)
        compare('written-by-asyncssh/host', data, want, pth)
        # other export formats of the certificate re-import identically
        for fmt in ('openssh', 'rfc4716'):
            try:
                back = asyncssh.import_certificate(c.export_certificate(fmt))
                if back.public_data != c.public_data:
                    viol('roundtrip', 'certificate-format/' + fmt, 'export/import changes the certificate')
            except Exception as exc:        # pylint: disable=broad-except
                viol('roundtrip', 'certificate-format/' + fmt, repr(exc)[:200])
            acc.add(core.digest(('cert-fmt', ca_alg, subj_alg, fmt, principals)), transitions=1)

    # (2) written by PyCA, read by asyncssh
    if subj_alg != 'ssh-dss':
        from cryptography.hazmat.primitives.serialization import SSHCertificateBuilder, SSHCertificateType, load_ssh_private_key, \
            load_ssh_public_key
        pca = load_pem_private_key(ca.export_private_key('pkcs8-pem'), None)
        psub = load_ssh_public_key(subj.export_public_key('openssh'))
        for crit, ext, principals in (({}, {}, ()), ({b'force-command': b'run it'}, {b'permit-pty': b''}, (b'alice',)),
                                      ({b'force-command': b'x', b'source-address': b'10.0.0.0/8,::1/128'},
                                       {b'no-touch-required': b'', b'permit-X11-forwarding': b'', b'permit-user-rc': b''}, (b'a', b'b')),
                                      ({}, {b'permit-agent-forwarding': b'', b'permit-port-forwarding': b''}, ()),
                                      # extensions nobody knows, with and without a value (PROTOCOL.certkeys: to be ignored)
                                      ({}, {b'login@github.com': b'carol', b'permit-pty': b''}, (b'alice',)),
                                      ({b'force-command': b'x'}, {b'aaa-first@example.com': b'', b'permit-pty': b'', b'zzz@example.com': b'v\0w'}, ())):
            for ctype in ('user', 'host'):
                if ctype == 'host' and (crit or ext):
                    continue
                b = SSHCertificateBuilder().public_key(psub).serial(99).type(SSHCertificateType.USER if ctype == 'user' else SSHCertificateType.HOST) \
                    .key_id(b'pyca id').valid_after(10).valid_before(2 ** 40)
                b = b.valid_principals(list(principals)) if principals else b.valid_for_all_principals()
                for k, v in crit.items():
                    b = b.add_critical_option(k, v)
                for k, v in ext.items():
                    b = b.add_extension(k, v)
                data = b.sign(pca).public_bytes()
                want = {'type': ctype, 'serial': 99, 'key_id': 'pyca id', 'principals': [p.decode() for p in principals], 'valid_after': 10,
                        'valid_before': 2 ** 40, 'critical': {k.decode(): v.decode() for k, v in crit.items()},
                        'extensions': {k.decode(): '' for k in ext if b'@' not in k}, 'subject': base64.b64encode(subj.public_data).decode(),
                        'ca': base64.b64encode(ca.public_data).decode()}
                acc.add(core.digest(('cert-p', ca_alg, subj_alg, ctype, tuple(sorted(crit)), tuple(sorted(ext)))), transitions=1)
                try:
                    a = cert_view_asyncssh(asyncssh.import_certificate(data))
                    if a != want:
                        viol('asyncssh-reads-differently', 'written-by-pyca/' + ctype, 'asyncssh: %r, PyCA wrote %r' % (a, want))
                except Exception as exc:    # pylint: disable=broad-except
                    viol('asyncssh-cannot-read', 'written-by-pyca/' + ctype, repr(exc)[:200])

    # (3) written by ssh-keygen -s, read by asyncssh; ssh-keygen -L and PyCA are the reference readers
    if SSH_KEYGEN and subj_alg != 'ssh-dss':
        capth = os.path.join(tmp, 'ca')
        with open(capth, 'wb') as f:
            f.write(ca.export_private_key('openssh'))
        os.chmod(capth, 0o600)
        with open(os.path.join(tmp, 'subj.pub'), 'wb') as f:
            f.write(subj.export_public_key('openssh'))
        variants = [[], ['-h', '-n', 'h.example'], ['-n', 'alice,bob'], ['-O', 'clear', '-n', 'a'],
                    ['-O', 'clear', '-O', 'permit-pty', '-O', 'no-touch-required', '-n', 'a'],
                    ['-O', 'force-command=/bin/true -x', '-O', 'source-address=10.0.0.0/8,192.168.1.1/32', '-n', 'a'],
                    ['-O', 'no-pty', '-O', 'no-user-rc', '-O', 'no-touch-required', '-O', 'force-command=x', '-n', 'a', '-z', '18446744073709551615'],
                    ['-O', 'no-x11-forwarding', '-O', 'no-agent-forwarding', '-O', 'no-port-forwarding', '-z', '3'],
                    ['-O', 'extension:login@github.com=alice', '-n', 'a'], ['-O', 'clear', '-O', 'extension:x@example.com', '-O', 'permit-pty', '-n', 'a']]
        for i, args in enumerate(variants):
            out = os.path.join(tmp, 'subj-cert.pub')
            if os.path.exists(out):
                os.unlink(out)
            r = subprocess.run([SSH_KEYGEN, '-q', '-s', capth, '-I', 'kg %d' % i] + args + [os.path.join(tmp, 'subj.pub')], capture_output=True)
            acc.add(core.digest(('cert-k', ca_alg, subj_alg, tuple(args))), transitions=1)
            if r.returncode != 0 or not os.path.exists(out):
                acc.count('ssh-keygen-s-failed')
                continue
            data = open(out, 'rb').read()
            try:
                ref = cert_view_pyca(data)
                kv = cert_view_keygen(out)
                a = cert_view_asyncssh(asyncssh.import_certificate(data))
                for view in (ref, kv):          # extensions asyncssh does not know are ignored by it, as they must be
                    view['extensions'] = {k: v for k, v in view['extensions'].items() if '@' not in k}
                if a != ref:
                    viol('asyncssh-reads-differently', 'written-by-ssh-keygen', 'ssh-keygen -s %r: asyncssh %r, PyCA %r' % (args, a, ref))
                if (a['critical'], a['extensions'], a['principals'], a['serial'], a['key_id']) != \
                        (kv['critical'], kv['extensions'], kv['principals'], kv['serial'], kv['key_id']):
                    viol('asyncssh-reads-differently', 'written-by-ssh-keygen', 'ssh-keygen -s %r: asyncssh %r, ssh-keygen -L %r' % (args, a, kv))
            except Exception as exc:        # pylint: disable=broad-except
                viol('asyncssh-cannot-read', 'written-by-ssh-keygen', '%r for ssh-keygen -s %r' % (exc, args))
    shutil.rmtree(tmp, ignore_errors=True)
    return acc


# ------------------------------------------------------------------ RFC 4716 files in the layouts other implementations write
R4716_HEADERS = {
    'S': (b'Subject', b'alice'),
    'X': (b'x-vendor-note', b'created by another tool'),
    'L': (b'Subject', b'a value long enough that its writer had to continue it on a second line, as section 3.3 allows'),
}


def rfc4716_text(blob, layout, comment, quoted, wrap):
    """layout: string over S/X/L/C (C = the Comment header), written per RFC 4716 section 3: 'Header-tag: value',
    lines of at most 72 bytes, continuation marked by a trailing backslash"""
    def header(tag, value):
        line = tag + b': ' + value
        out = []
        while wrap and len(line) > 72:
            out.append(line[:71] + b'\\')
            line = line[71:]
        out.append(line)
        return out
    lines = [b'---- BEGIN SSH2 PUBLIC KEY ----']
    for h in layout:
        if h == 'C':
            lines += header(b'Comment', (b'"' + comment + b'"') if quoted else comment)
        else:
            lines += header(*R4716_HEADERS[h])
    b64 = base64.b64encode(blob)
    lines += [b64[i:i + 70] for i in range(0, len(b64), 70)]
    lines.append(b'---- END SSH2 PUBLIC KEY ----')
    return b'\n'.join(lines) + b'\n'


def rfc4716_worker(job):
    """public keys and certificates in RFC 4716 form with every header layout of <= 3 headers from {Subject,
    private-use header, long continued header, Comment}: the key read is the key written, the comment is the
    Comment header's value whatever stands before or after it; ssh-keygen -i reads the same file to the same key"""
    acc = core.Acc()
    alg = job
    tmp = os.path.join(SCRATCH, 'r4716-%d' % os.getpid())
    os.makedirs(tmp, exist_ok=True)
    key = asyncssh.generate_private_key(alg) if alg != 'ssh-rsa' else asyncssh.generate_private_key(alg, key_size=2048)
    cert = key.generate_user_certificate(key, 'id', principals=['p'])
    layouts = sorted({''.join(t) for n in range(0, 4) for t in itertools.product('SXLC', repeat=n) if t.count('C') <= 1})
    comments = [b'plain', b'two  words and: a colon', 'caf\u00e9'.encode()]
    for kind, blob, imp in (('key', key.public_data, asyncssh.import_public_key), ('cert', cert.public_data, asyncssh.import_certificate)):
        for layout in layouts:
            for comment in (comments if 'C' in layout else [None]):
                for quoted in ((False, True) if comment is not None else (False,)):
                    text = rfc4716_text(blob, layout, comment or b'', quoted, wrap=True)
                    rep = {'kind': 'rfc4716', 'alg': alg, 'what': kind, 'layout': layout, 'comment': (comment or b'').decode('latin1'), 'quoted': quoted}
                    acc.add(core.digest((alg, kind, layout, comment, quoted)), transitions=1,
                            sample={'layout': layout, 'comment': repr(comment)} if layout == 'SC' and kind == 'key' and quoted else None)
                    try:
                        obj = imp(text)
                    except Exception as exc:        # pylint: disable=broad-except
                        acc.violation('rfc4716:cannot-read:%s:%s' % (kind, layout), repr(exc)[:200], rep)
                        continue
                    if obj.public_data != blob:
                        acc.violation('rfc4716:different-key:%s:%s' % (kind, layout), 'the key data read differs from the data in the file', rep)
                    got = obj.get_comment_bytes()
                    if got != comment:
                        acc.violation('rfc4716:comment-changed:%s:%s' % (kind, layout), 'file says %r, read as %r' % (comment, got), rep)
                    if kind == 'key' and SSH_KEYGEN and comment in (None, b'plain') and not quoted:
                        f = os.path.join(tmp, 'k.pub')
                        with open(f, 'wb') as fh:
                            fh.write(text)
                        r = subprocess.run([SSH_KEYGEN, '-i', '-m', 'RFC4716', '-f', f], capture_output=True)
                        if r.returncode == 0:
                            acc.count('rfc4716:ssh-keygen-reads-too')
                            if r.stdout.split()[1:2] != [base64.b64encode(blob)]:
                                acc.violation('rfc4716:ssh-keygen-disagrees:%s' % layout, r.stdout[:100].decode('latin1'), rep)
                        else:
                            acc.count('rfc4716:ssh-keygen-refuses-layout')
        # two keys in one file, the second with a header in front of its comment
        if kind == 'key':
            text = rfc4716_text(blob, 'C', b'first', False, True) + rfc4716_text(blob, 'SC', b'second', True, True)
            f = os.path.join(tmp, 'two.pub')
            with open(f, 'wb') as fh:
                fh.write(text)
            ks = asyncssh.read_public_key_list(f)
            acc.add(core.digest((alg, 'two')), transitions=1)
            if [k.get_comment_bytes() for k in ks] != [b'first', b'second']:
                acc.violation('rfc4716:comment-changed:list', 'comments read %r' % ([k.get_comment_bytes() for k in ks],),
                              {'kind': 'rfc4716', 'alg': alg, 'what': 'list'})
    shutil.rmtree(tmp, ignore_errors=True)
    return acc


# ------------------------------------------------------------------ keys written by openssl in shapes asyncssh does not write itself
def foreign_worker(_job):
    acc = core.Acc()
    if not OPENSSL:
        return acc
    tmp = os.path.join(SCRATCH, 'foreign-%d' % os.getpid())
    os.makedirs(tmp, exist_ok=True)

    def sh(*cmd):
        return subprocess.run([OPENSSL] + list(cmd), capture_output=True, cwd=tmp)
    cases = []
    for curve, alg in (('prime256v1', 'ecdsa-sha2-nistp256'), ('secp384r1', 'ecdsa-sha2-nistp384'), ('secp521r1', 'ecdsa-sha2-nistp521')):
        k = P.key('c15-' + alg, alg)
        with open(os.path.join(tmp, 'k.pem'), 'wb') as f:
            f.write(k.export_private_key('pkcs8-pem'))
        # SEC1 / PKCS#8 without the OPTIONAL public key (RFC 5915), explicit conversions, DER forms
        sh('ec', '-in', 'k.pem', '-no_public', '-out', 'sec1-nopub.pem')
        sh('pkcs8', '-topk8', '-nocrypt', '-in', 'sec1-nopub.pem', '-out', 'p8-nopub.pem')
        sh('ec', '-in', 'k.pem', '-out', 'sec1.pem')
        sh('ec', '-in', 'k.pem', '-outform', 'DER', '-out', 'sec1.der')
        sh('ec', '-in', 'k.pem', '-no_public', '-outform', 'DER', '-out', 'sec1-nopub.der')
        sh('ec', '-in', 'k.pem', '-conv_form', 'compressed', '-out', 'sec1-compressed.pem')
        sh('pkey', '-in', 'k.pem', '-out', 'pkey.pem')
        for fn in ('sec1-nopub.pem', 'p8-nopub.pem', 'sec1.pem', 'sec1.der', 'sec1-nopub.der', 'sec1-compressed.pem', 'pkey.pem'):
            if os.path.exists(os.path.join(tmp, fn)):
                os.replace(os.path.join(tmp, fn), os.path.join(tmp, fn + '@' + alg))
            cases.append((alg, k, fn + '@' + alg))
    for alg, kw in (('ssh-rsa', {'key_size': 2048}), ('ssh-ed25519', {}), ('ssh-dss', {})):
        k = P.key('c15-' + alg, alg, **kw)
        with open(os.path.join(tmp, 'k.pem'), 'wb') as f:
            f.write(k.export_private_key('pkcs8-pem'))
        fns = []
        if alg == 'ssh-rsa':
            sh('rsa', '-in', 'k.pem', '-traditional', '-out', 'trad.pem')
            sh('rsa', '-in', 'k.pem', '-outform', 'DER', '-out', 'trad.der')
            fns = ['trad.pem', 'trad.der']
        sh('pkey', '-in', 'k.pem', '-outform', 'DER', '-out', 'p8.der')
        sh('pkey', '-in', 'k.pem', '-out', 'p8.pem')
        for fn in fns + ['p8.der', 'p8.pem']:
            cases.append((alg, k, fn + '@' + alg))
            if os.path.exists(os.path.join(tmp, fn)):
                os.replace(os.path.join(tmp, fn), os.path.join(tmp, fn + '@' + alg))
    for alg, k, fn in cases:
        pth = os.path.join(tmp, fn)
        if not os.path.exists(pth):
            acc.count('openssl-could-not-write:' + fn)
            continue
        acc.add(core.digest(('foreign', alg, fn)), transitions=1, sample={'written by openssl': fn, 'key': alg} if fn.startswith('sec1-nopub.pem') and '256' in alg else None)
        try:
            got = asyncssh.read_private_key(pth)
            if got.public_data != k.public_data or got.export_public_key('openssh') != k.export_public_key('openssh') or \
                    got.export_private_key('openssh') and asyncssh.import_private_key(got.export_private_key('openssh')).public_data != k.public_data:
                acc.violation('keys:reads-openssl-differently:%s:%s' % (alg, fn.split('@')[0]),
                              'asyncssh reads %s as a key with public blob of %d bytes, the key has %d' %
                              (fn, len(got.public_data), len(k.public_data)), {'kind': 'foreign', 'alg': alg, 'label': fn})
        except Exception as exc:            # pylint: disable=broad-except
            if 'compressed' in fn:
                acc.count('compressed-point-not-supported')
                continue
            acc.violation('keys:cannot-read-openssl:%s:%s' % (alg, fn.split('@')[0]), repr(exc)[:200], {'kind': 'foreign', 'alg': alg, 'label': fn})
    # public keys in the shapes openssl writes (SubjectPublicKeyInfo PEM/DER; EC points compressed and hybrid)
    pubcases = []
    for curve, alg in (('prime256v1', 'ecdsa-sha2-nistp256'), ('secp384r1', 'ecdsa-sha2-nistp384'), ('secp521r1', 'ecdsa-sha2-nistp521')):
        k = P.key('c15-' + alg, alg)
        with open(os.path.join(tmp, 'k.pem'), 'wb') as f:
            f.write(k.export_private_key('pkcs8-pem'))
        for form in ('uncompressed', 'compressed', 'hybrid'):
            for outform in ('PEM', 'DER'):
                fn = 'pub-%s.%s@%s' % (form, outform.lower(), alg)
                sh('ec', '-in', 'k.pem', '-pubout', '-conv_form', form, '-outform', outform, '-out', fn)
                pubcases.append((alg, k, fn))
    for alg, kw in (('ssh-rsa', {'key_size': 2048}), ('ssh-ed25519', {}), ('ssh-dss', {})):
        k = P.key('c15-' + alg, alg, **kw)
        with open(os.path.join(tmp, 'k.pem'), 'wb') as f:
            f.write(k.export_private_key('pkcs8-pem'))
        for outform in ('PEM', 'DER'):
            fn = 'pub.%s@%s' % (outform.lower(), alg)
            sh('pkey', '-in', 'k.pem', '-pubout', '-outform', outform, '-out', fn)
            pubcases.append((alg, k, fn))
    for alg, k, fn in pubcases:
        pth = os.path.join(tmp, fn)
        if not os.path.exists(pth):
            acc.count('openssl-could-not-write:' + fn)
            continue
        acc.add(core.digest(('foreign-pub', alg, fn)), transitions=1)
        try:
            got = asyncssh.read_public_key(pth)
            bad = []
            if got.public_data != k.public_data:
                bad.append('public blob of %d bytes, the key has %d' % (len(got.public_data), len(k.public_data)))
            if got.export_public_key('openssh') != k.convert_to_public().export_public_key('openssh'):
                bad.append('OpenSSH export differs')
            if got.get_fingerprint() != k.get_fingerprint():
                bad.append('fingerprint differs')
            if SSH_KEYGEN and not bad:
                op = os.path.join(tmp, 'exp.pub')
                got.write_public_key(op, 'openssh')
                r = subprocess.run([SSH_KEYGEN, '-l', '-f', op], capture_output=True, text=True)
                if r.returncode != 0:
                    bad.append('ssh-keygen -l refuses the OpenSSH export: %s' % r.stderr.strip()[:80])
            for b_ in bad:
                acc.violation('keys:reads-openssl-differently:%s:%s' % (alg, fn.split('@')[0]), 'asyncssh reads %s as a key with %s' % (fn, b_),
                              {'kind': 'foreign', 'alg': alg, 'label': fn})
        except Exception as exc:            # pylint: disable=broad-except
            if 'compressed' in fn or 'hybrid' in fn:
                acc.count('compressed-point-not-supported')
                continue
            acc.violation('keys:cannot-read-openssl:%s:%s' % (alg, fn.split('@')[0]), repr(exc)[:200], {'kind': 'foreign', 'alg': alg, 'label': fn})
    shutil.rmtree(tmp, ignore_errors=True)
    return acc


# ------------------------------------------------------------------ the ways a key file is read
def paths_worker(job):
    """One encrypted (or plain) private key file read through every documented entry point and every form the
    passphrase argument may take (str, bytes, callable, coroutine function), with and without a public key /
    certificate file next to it (which makes decryption lazy): the key obtained has the public half of the one
    written, it signs (forcing the decryption) and the original verifies; a wrong passphrase in any form is
    refused -- at load time, or when the key is first used."""
    acc = core.Acc()
    alg, kw = job
    key = P.key('c15-' + alg, alg, **kw)
    pub = key.convert_to_public()
    root = os.path.join(SCRATCH, 'paths-%d' % os.getpid())
    shutil.rmtree(root, ignore_errors=True)
    os.makedirs(root)
    ca = P.key('c15-paths-ca', 'ssh-ed25519')
    cert = ca.generate_user_certificate(key, 'id', principals=['u'])
    schemes = [('pkcs8-pem', dict(cipher_name='aes256-cbc', hash_name='sha256', pbe_version=2)), ('pkcs8-pem', dict(cipher_name='des3-cbc', hash_name='sha1', pbe_version=1)),
               ('pkcs8-pem', {}), ('openssh', {})]
    if alg in ('ssh-rsa', 'ssh-dss') or alg.startswith('ecdsa'):
        schemes.append(('pkcs1-pem', dict(cipher_name='aes128-cbc')))
    loop = asyncio.new_event_loop()

    def forms(pw):
        async def co(_fn):
            return pw
        return [('str', pw), ('bytes', pw.encode()), ('callable', lambda _fn: pw), ('callable-bytes', lambda _fn: pw.encode()), ('coroutine', co)]
    for fmt, ekw in schemes:
        enc = bool(ekw)
        for side in ('alone', 'with-pub', 'with-cert'):
            d = os.path.join(root, '%s-%s-%s' % (fmt, '-'.join(map(str, ekw.values())) or 'plain', side))
            os.makedirs(d)
            # a bytes passphrase is key material as it stands (the PKCS#12 schemes encode a str as UTF-16): the file
            # read with a bytes passphrase was written with the same bytes
            paths = {}
            for nm, pwx in (('id', 'right'), ('idb', b'right')):
                paths[nm] = os.path.join(d, nm)
                with open(paths[nm], 'wb') as f:
                    f.write(key.export_private_key(fmt, passphrase=pwx if enc else None, **ekw))
                if side == 'with-pub':
                    key.write_public_key(paths[nm] + '.pub')
                elif side == 'with-cert':
                    cert.write_certificate(paths[nm] + '-cert.pub')
            for pwname, pw in (('right', 'right'), ('wrong', 'wr0ng')):
                if not enc and pwname == 'wrong':
                    continue
                for form, arg in forms(pw):
                    path = paths['idb' if 'bytes' in form else 'id']
                    for entry in ('read_private_key', 'load_keypairs', 'load_keypairs-list', 'client_keys-option'):
                        if entry == 'read_private_key' and form in ('callable', 'callable-bytes', 'coroutine'):
                            continue            # documented for str/bytes only
                        if form == 'coroutine' and entry != 'client_keys-option':
                            continue            # awaitable passphrases are resolved by the connection options only
                        label = '%s/%s/%s/%s/%s/%s' % (alg, fmt, '-'.join(map(str, ekw.values())) or 'plain', side, form, entry)
                        outcome, detail = None, None
                        try:
                            if entry == 'read_private_key':
                                k = asyncssh.read_private_key(path, arg if enc else None)
                                got_pub = k.public_data
                                sig = k.sign(b'msg', k.sig_algorithms[0])
                            else:
                                if entry == 'load_keypairs':
                                    kps = asyncssh.load_keypairs(path, arg if enc else None)
                                elif entry == 'load_keypairs-list':
                                    kps = asyncssh.load_keypairs([path], arg if enc else None)
                                else:
                                    async def mk():
                                        return await asyncssh.SSHClientConnectionOptions.construct(
                                            client_keys=[path], passphrase=arg if enc else None, known_hosts=None, agent_path=None, config=[])
                                    kps = list(loop.run_until_complete(mk()).client_keys)
                                if not kps:
                                    raise asyncssh.KeyImportError('no key pair loaded')
                                got_pub = kps[-1].key_public_data
                                kp = kps[-1]
                                if entry == 'client_keys-option' and side != 'alone' and enc:
                                    # decryption was deferred to first use, which the connection does in an executor thread
                                    # while its loop runs: do the same
                                    async def use():
                                        return await loop.run_in_executor(None, kp.sign, b'msg')
                                    sig = loop.run_until_complete(use())
                                else:
                                    sig = kp.sign(b'msg')
                                sig = asyncssh.packet.SSHPacket(sig)
                                sig.get_string()
                                sig = None
                            outcome = 'loaded'
                            if got_pub != pub.public_data:
                                outcome, detail = 'other-key', 'public half differs from the key written'
                        except (asyncssh.KeyImportError, asyncssh.KeyEncryptionError) as exc:
                            outcome, detail = 'refused', repr(exc)[:120]
                        except Exception as exc:        # pylint: disable=broad-except
                            outcome, detail = 'crashed', repr(exc)[:160]
                        acc.add(core.digest((label, pwname, outcome)), transitions=1,
                                sample={'key_file_read': label, 'passphrase': pwname, 'outcome': outcome} if form == 'callable' and side == 'alone' and pwname == 'right' and fmt == 'pkcs8-pem' and enc and len(acc.samples) < 1 else None)
                        want = 'loaded' if pwname == 'right' else 'refused'
                        if fmt == 'openssh' and enc:
                            continue
                        if outcome != want:
                            acc.violation('keys:read-path:%s-passphrase-%s:%s:%s:%s' % (pwname, outcome, form, entry, side),
                                          '%s with the %s passphrase: %s (%s)' % (label, pwname, outcome, detail),
                                          {'kind': 'paths', 'alg': alg, 'label': label})
    # several keys handed over in one call: every pair signs with its own private key, whatever came before it in
    # the list (an encrypted file decrypted on first use, a plain file, key bytes, a key object)
    other = P.key('c15-second', alg, **kw)
    d = os.path.join(root, 'several')
    os.makedirs(d)
    pa, pb = os.path.join(d, 'id_a'), os.path.join(d, 'id_b')
    with open(pa, 'wb') as f:
        f.write(key.export_private_key('pkcs8-pem', passphrase='right'))
    key.write_public_key(pa + '.pub')
    with open(pb, 'wb') as f:
        f.write(other.export_private_key('pkcs8-pem'))
    asked = []

    def pwcb(fn):
        asked.append(os.path.basename(fn))
        return 'right'
    forms_b = [('path', pb), ('bytes', other.export_private_key('pkcs8-pem')), ('object', other), ('path+pub', (pb, other.export_public_key()))]
    for order in ('enc-first', 'enc-last', 'enc-between'):
        for fname, second in forms_b:
            lst = {'enc-first': [pa, second], 'enc-last': [second, pa], 'enc-between': [second, pa, second]}[order]
            owners = {'enc-first': [key, other], 'enc-last': [other, key], 'enc-between': [other, key, other]}[order]
            label = '%s/several/%s/%s' % (alg, order, fname)
            del asked[:]
            problems = []
            try:
                kps = asyncssh.load_keypairs(lst, pwcb)
                if len(kps) != len(lst):
                    problems.append('%d pairs for %d keys' % (len(kps), len(lst)))
                for i, (kp, owner) in enumerate(zip(kps, owners)):
                    if kp.key_public_data != owner.public_data:
                        problems.append('pair %d has another public half' % i)
                        continue
                    sig = kp.sign(b'msg')
                    if not owner.convert_to_public().verify(b'msg', sig):
                        problems.append('the signature of pair %d does not verify under its own public key' % i)
                if asked.count('id_a') > 1:
                    problems.append('passphrase for id_a requested %d times' % asked.count('id_a'))
            except Exception as exc:        # pylint: disable=broad-except
                problems.append('raised %r' % (exc,))
            acc.add(core.digest((label, tuple(problems))), transitions=len(lst))
            for pr in problems:
                acc.violation('keys:read-path:several-keys:%s:%s' % (order, fname), '%s: %s' % (label, pr), {'kind': 'paths', 'alg': alg, 'label': label})
    loop.close()
    shutil.rmtree(root, ignore_errors=True)
    return acc


def main(tier, seed):
    t0 = core.now()
    os.makedirs(SCRATCH, exist_ok=True)
    jobs = [(alg, kw, tier) for alg, kw in KEYTYPES]
    acc = core.pmap(worker, core.rotate(jobs, seed))
    cjobs = [(c, sj, tier) for c, _ in CERT_KEYTYPES for sj, _ in CERT_KEYTYPES
             if tier == 'thorough' or c == 'ssh-ed25519' or sj == 'ssh-ed25519']
    acc.merge(core.pmap(cert_worker, core.rotate(cjobs, seed)))
    acc.merge(core.pmap(foreign_worker, [0]))
    acc.merge(core.pmap(rfc4716_worker, ['ssh-ed25519', 'ssh-rsa', 'ecdsa-sha2-nistp256']))
    acc.merge(core.pmap(paths_worker, KEYTYPES))
    shutil.rmtree(SCRATCH, ignore_errors=True)
    rule = ('7 key types x every private export format/cipher/hash/PBES version asyncssh offers (%d schemes) x '
            'passphrases {1 char, non-ASCII, 31/32/33 chars, 1 kB} (quick: full passphrase grid on one scheme per '
            'family) with 5 wrong-passphrase variants each; 6 public formats x 8 comments (double blanks, tabs, '
            'non-UTF-8); PyCA loaders, ssh-keygen (-y, -l, -e -m, key generation in 3 formats) and openssl (pkey, '
            'pkcs8 -topk8 v1/v2) as independent readers/writers; keys read back from files and exported again '
            '(6 export paths, with and without comment); concatenated multi-key files in every order; '
            'certificates: CA x subject key types x every combination of the 2 critical options and 6 extensions '
            '(full grid for ed25519/ed25519) written by asyncssh and read by asyncssh, PyCA and ssh-keygen -L; '
            'certificates written by PyCA and by ssh-keygen -s read by asyncssh; EC/RSA/Ed25519/DSA private keys '
            'in the shapes openssl writes (SEC1 with and without the optional public key, traditional, DER); one key file (5 schemes, '
            'alone / next to its .pub / next to its certificate) read through read_private_key, load_keypairs (path, list) and the '
            'client_keys option with the passphrase as str, bytes, callable or coroutine function, right and wrong'
            % len(private_matrix()))
    return core.finish(PROP, tier, seed, 'exploration', acc, t0, rule,
                       {'key_types': [k for k, _ in KEYTYPES], 'schemes': len(private_matrix())},
                       assumptions=['OpenSSH-format encrypted private keys need bcrypt, which is absent here: asyncssh '
                                    'itself refuses to export them (counted as not-exportable)',
                                    'sk-* keys need an authenticator and are not covered'])


def replay(rep):
    r = rep['replay']
    if r.get('kind') == 'rfc4716':
        os.makedirs(SCRATCH, exist_ok=True)
        acc = rfc4716_worker(r['alg'])
        v = [x for x in acc.violations if x['replay'].get('layout') == r.get('layout')] or acc.violations[:3]
        print(json.dumps(v[:5], indent=1, default=repr))
        if v:
            print('VIOLATION property=%s replay=(given)' % PROP)
            return 1
        return 0
    if r.get('kind') == 'paths':
        os.makedirs(SCRATCH, exist_ok=True)
        acc = paths_worker((r['alg'], dict(KEYTYPES)[r['alg']]))
        v = [x for x in acc.violations if x['replay'].get('label') == r.get('label')] or acc.violations[:3]
        print(json.dumps(v[:5], indent=1, default=repr))
        if v:
            print('VIOLATION property=%s replay=(given)' % PROP)
            return 1
        return 0
    kw = dict(KEYTYPES)[r['alg']]
    os.makedirs(SCRATCH, exist_ok=True)
    acc = worker((r['alg'], kw, 'thorough'))
    v = [x for x in acc.violations if x['replay'].get('label') == r.get('label')] or acc.violations[:3]
    print(json.dumps(v[:5], indent=1, default=repr))
    if v:
        print('VIOLATION property=%s replay=(given)' % PROP)
        return 1
    return 0
