"""C15  Keys survive every export/import path and interoperate.

Exhaustive format matrix: key type x private/public format x cipher x hash x PBES version
x passphrase x comment; oracles: equality after import, wrong passphrase rejected,
independent readers (PyCA loaders, ssh-keygen, openssl) agree, and keys written by them
are read identically by asyncssh.
"""

import itertools
import json
import os
import shutil
import subprocess
import tempfile

import asyncssh
from cryptography.hazmat.primitives import serialization
from cryptography.hazmat.primitives.serialization import (load_der_private_key, load_der_public_key,
                                                          load_pem_private_key, load_pem_public_key,
                                                          load_ssh_private_key, load_ssh_public_key)

import core
import pair as P

PROP = 'C15'
SSH_KEYGEN = shutil.which('ssh-keygen')
OPENSSL = shutil.which('openssl')
SCRATCH = '/dev/shm/asyncssh-verif-c15-%d' % os.getpid()       # unique per check run (workers are forked later)

KEYTYPES = [('ssh-rsa', {'key_size': 2048}), ('ssh-dss', {}), ('ecdsa-sha2-nistp256', {}), ('ecdsa-sha2-nistp384', {}),
            ('ecdsa-sha2-nistp521', {}), ('ssh-ed25519', {}), ('ssh-ed448', {})]
PASSPHRASES = [('short', 'x'), ('nonascii', 'pässwörd-ключ'), ('len31', 'a' * 31), ('len32', 'b' * 32),
               ('len33', 'c' * 33), ('long', 'p' * 1024)]
COMMENTS = [None, b'plain', b'two words', b'double  blank', b'tab\there', b'Name:   J. Doe   <jd@example.com>',
            b'non-utf8 \xff\xfe']


def pyca_public_blob(pub):
    return pub.public_bytes(serialization.Encoding.OpenSSH, serialization.PublicFormat.OpenSSH).split()[1]


def blob_b64(key):
    import base64
    return base64.b64encode(key.public_data)


def private_matrix():
    """(format, kwargs, label) for every supported encryption of each private format"""
    out = [('openssh', {}, 'openssh/plain'), ('pkcs1-der', {}, 'pkcs1-der/plain'), ('pkcs1-pem', {}, 'pkcs1-pem/plain'),
           ('pkcs8-der', {}, 'pkcs8-der/plain'), ('pkcs8-pem', {}, 'pkcs8-pem/plain')]
    for c in ('aes128-cbc', 'aes192-cbc', 'aes256-cbc', 'des-cbc', 'des3-cbc'):
        out.append(('pkcs1-pem', dict(cipher_name=c), 'pkcs1-pem/' + c))
    for fmt in ('pkcs8-der', 'pkcs8-pem'):
        for c, h in (('des-cbc', 'md5'), ('des-cbc', 'sha1'), ('des2-cbc', 'sha1'), ('des3-cbc', 'sha1'),
                     ('rc4-40', 'sha1'), ('rc4-128', 'sha1')):
            out.append((fmt, dict(cipher_name=c, hash_name=h, pbe_version=1), '%s/v1/%s-%s' % (fmt, c, h)))
        for c in ('aes128-cbc', 'aes192-cbc', 'aes256-cbc', 'blowfish-cbc', 'cast128-cbc', 'des-cbc', 'des3-cbc'):
            for h in ('sha1', 'sha224', 'sha256', 'sha384', 'sha512'):
                out.append((fmt, dict(cipher_name=c, hash_name=h, pbe_version=2), '%s/v2/%s-%s' % (fmt, c, h)))
    return out


def worker(job):
    alg, kw, tier = job
    acc = core.Acc()
    try:
        key = P.key('c15-' + alg, alg, **kw)
        key2 = P.key('c15b-' + alg, alg, **kw)
    except Exception as exc:        # pylint: disable=broad-except
        acc.notes.append('key type %s cannot be generated here: %r' % (alg, exc))
        return acc

    def viol(kind, label, detail, extra=None):
        acc.violation('keys:%s:%s:%s' % (kind, alg, label.split('/')[0] + '/' + '/'.join(label.split('/')[1:2])),
                      '%s (%s)' % (detail, label), dict(kind='key', alg=alg, label=label, **(extra or {})))
    if key == key2 or key.public_data == key2.public_data:
        viol('keygen', 'distinct', 'two generated keys are equal')
    tmp = os.path.join(SCRATCH, '%s-%d' % (alg, os.getpid()))
    os.makedirs(tmp, exist_ok=True)
    # ---------------- private formats
    for fmt, ekw, label in private_matrix():
        encrypted = bool(ekw)
        pps = PASSPHRASES if encrypted else [('none', None)]
        if tier == 'quick' and encrypted:
            # every scheme with the short passphrase; the length/charset grid on one scheme per family
            grid = label in ('pkcs1-pem/aes256-cbc', 'pkcs8-pem/v1/des3-cbc-sha1', 'pkcs8-pem/v2/aes256-cbc-sha256',
                             'pkcs8-der/v1/rc4-128-sha1', 'pkcs8-der/v2/des3-cbc-sha1')
            pps = PASSPHRASES if grid else PASSPHRASES[:1]
        for pname, pp in pps:
            lab = '%s/%s' % (label, pname)
            try:
                data = key.export_private_key(fmt, passphrase=pp, **ekw)
            except (asyncssh.KeyExportError, asyncssh.KeyEncryptionError) as exc:
                acc.count('not-exportable:%s' % label.split('/')[0])
                continue
            acc.add(core.digest((alg, lab)), transitions=1,
                    sample={'key': alg, 'export': lab} if pname == 'nonascii' and 'v2/aes256-cbc-sha256' in label else None)
            try:
                back = asyncssh.import_private_key(data, pp)
                if back != key or back.public_data != key.public_data:
                    viol('roundtrip', lab, 'import(export(k)) differs from k')
            except Exception as exc:        # pylint: disable=broad-except
                viol('roundtrip', lab, 'import of own export failed: %r' % (exc,))
            if encrypted:
                for wname, wrong in (('other', 'y'), ('prefix', (pp or '')[:-1] or 'z'), ('suffix', (pp or '') + 'q'),
                                     ('none', None), ('tail-changed', (pp or '')[:-1] + 'Z')):
                    if wrong == pp:
                        continue
                    try:
                        k2 = asyncssh.import_private_key(data, wrong)
                        viol('wrong-passphrase-accepted', lab, 'imported with passphrase variant %s' % wname)
                    except (asyncssh.KeyImportError, asyncssh.KeyEncryptionError):
                        pass
                    except Exception as exc:        # pylint: disable=broad-except
                        viol('wrong-passphrase-error', lab, 'undocumented %r for variant %s' % (exc, wname))
            # independent reader: PyCA
            pb = pp.encode('utf-8') if isinstance(pp, str) else pp
            try:
                if fmt == 'openssh':
                    other = load_ssh_private_key(data, pb)
                elif fmt.endswith('der'):
                    other = load_der_private_key(data, pb)
                else:
                    other = load_pem_private_key(data, pb)
                if pyca_public_blob(other.public_key()) != blob_b64(key):
                    viol('pyca-reads-different-key', lab, 'PyCA loaded a different key')
            except Exception as exc:        # pylint: disable=broad-except
                legacy = any(x in lab for x in ('rc4', 'des-cbc', 'des2', 'blowfish', 'cast128', 'v1/', 'ed448', 'md5')) or alg == 'ssh-ed448'
                if legacy or 'unsupported' in str(exc).lower() or 'unknown cipher' in str(exc).lower():
                    acc.count('pyca-cannot-read(legacy/unsupported)')
                else:
                    viol('pyca-cannot-read', lab, repr(exc)[:200])
            # independent reader: openssl CLI for the PKCS#12-KDF and PBES1 schemes (legacy provider)
            if OPENSSL and fmt == 'pkcs8-pem' and 'v1/' in label and pname in ('short', 'len32', 'len33', 'nonascii'):
                pth = os.path.join(tmp, 'k.pem')
                with open(pth, 'wb') as f:
                    f.write(data)
                r = subprocess.run([OPENSSL, 'pkey', '-in', pth, '-passin', 'pass:' + pp, '-pubout', '-provider',
                                    'default', '-provider', 'legacy'], capture_output=True)
                if r.returncode == 0:
                    try:
                        opub = load_pem_public_key(r.stdout)
                        if pyca_public_blob(opub) != blob_b64(key):
                            viol('openssl-reads-different-key', lab, 'openssl pkey decoded a different key')
                        acc.count('openssl-read-ok')
                    except Exception:       # pylint: disable=broad-except
                        acc.count('openssl-output-unparsed')
                elif b'unsupported' in r.stderr.lower() or b'Unsupported' in r.stderr or alg in ('ssh-ed448',):
                    acc.count('openssl-unsupported')
                else:
                    viol('openssl-cannot-read', lab, r.stderr.decode('latin1')[-200:])
    # ---------------- public formats and comments
    for fmt in ('openssh', 'rfc4716', 'pkcs1-der', 'pkcs1-pem', 'pkcs8-der', 'pkcs8-pem'):
        for comment in (COMMENTS if fmt in ('openssh', 'rfc4716') else [None]):
            lab = 'public-%s/%r' % (fmt, comment)
            k = asyncssh.import_private_key(key.export_private_key('pkcs8-der'))
            if comment is not None:
                k.set_comment(comment)
            try:
                data = k.export_public_key(fmt)
            except asyncssh.KeyExportError:
                acc.count('not-exportable:public-%s' % fmt)
                continue
            acc.add(core.digest((alg, lab)), transitions=1)
            try:
                back = asyncssh.import_public_key(data)
                if back.public_data != key.public_data:
                    viol('public-roundtrip', lab, 'public key differs after import')
                want = comment
                if fmt == 'openssh' and back.get_comment_bytes() != want:
                    viol('comment-changed', 'public-%s/comment' % fmt, 'comment %r came back as %r'
                         % (want, back.get_comment_bytes()))
                if fmt == 'rfc4716' and want is not None and back.get_comment_bytes() != want:
                    viol('comment-changed', 'public-%s/comment' % fmt, 'comment %r came back as %r'
                         % (want, back.get_comment_bytes()))
            except Exception as exc:        # pylint: disable=broad-except
                viol('public-roundtrip', lab, 'import of own export failed: %r' % (exc,))
            if comment in (None, b'plain'):
                try:
                    if fmt == 'openssh':
                        other = load_ssh_public_key(data)
                    elif fmt.endswith('der'):
                        other = load_der_public_key(data)
                    elif fmt.endswith('pem'):
                        other = load_pem_public_key(data)
                    else:
                        other = None
                    if other is not None and pyca_public_blob(other) != blob_b64(key):
                        viol('pyca-reads-different-key', lab, 'PyCA loaded a different public key')
                except Exception as exc:    # pylint: disable=broad-except
                    if alg in ('ssh-ed448',) or (fmt.startswith('pkcs1') and alg not in ('ssh-rsa',)):
                        acc.count('pyca-cannot-read(legacy/unsupported)')
                    else:
                        viol('pyca-cannot-read', lab, repr(exc)[:200])
    # openssh private key carries the comment too
    for comment in COMMENTS[1:]:
        k = asyncssh.import_private_key(key.export_private_key('pkcs8-der'))
        k.set_comment(comment)
        back = asyncssh.import_private_key(k.export_private_key('openssh'))
        acc.add(core.digest((alg, 'openssh-private-comment', comment)), transitions=1)
        if back.get_comment_bytes() != comment:
            viol('comment-changed', 'openssh-private/comment', '%r -> %r' % (comment, back.get_comment_bytes()))
    # ---------------- ssh-keygen both directions
    if SSH_KEYGEN and alg not in ('ssh-ed448',):
        pth = os.path.join(tmp, 'id')
        for comment in (b'plain', b'double  blank'):
            k = asyncssh.import_private_key(key.export_private_key('pkcs8-der'))
            k.set_comment(comment)
            with open(pth, 'wb') as f:
                f.write(k.export_private_key('openssh'))
            os.chmod(pth, 0o600)
            r = subprocess.run([SSH_KEYGEN, '-y', '-f', pth], capture_output=True)
            acc.add(core.digest((alg, 'ssh-keygen-y', comment)), transitions=1)
            if r.returncode != 0:
                if b'unknown key type' in r.stderr or alg == 'ssh-dss':
                    acc.count('ssh-keygen-unsupported')
                else:
                    viol('ssh-keygen-cannot-read', 'openssh-private', r.stderr.decode('latin1')[:200])
            else:
                parts = r.stdout.split(None, 2)
                if parts[1] != blob_b64(key):
                    viol('ssh-keygen-reads-different-key', 'openssh-private', 'ssh-keygen -y printed another key')
                got = parts[2].rstrip(b'\n') if len(parts) > 2 else None
                if got != comment:
                    viol('ssh-keygen-comment', 'openssh-private', 'ssh-keygen -y printed comment %r, key has %r' % (got, comment))
            # public file read by ssh-keygen -l, and converted with -e -m
            with open(pth + '.pub', 'wb') as f:
                f.write(k.export_public_key('openssh'))
            r = subprocess.run([SSH_KEYGEN, '-l', '-f', pth + '.pub'], capture_output=True)
            if r.returncode == 0:
                fp = r.stdout.split()[1].decode()
                if fp != k.get_fingerprint():
                    viol('ssh-keygen-fingerprint', 'public-openssh', '%s vs %s' % (fp, k.get_fingerprint()))
                if comment not in r.stdout:
                    viol('ssh-keygen-comment', 'public-openssh', 'ssh-keygen -l output %r lacks comment %r' % (r.stdout, comment))
            elif alg != 'ssh-dss':
                viol('ssh-keygen-cannot-read', 'public-openssh', r.stderr.decode('latin1')[:200])
        for m, fmt in (('RFC4716', 'rfc4716'), ('PKCS8', 'pkcs8-pem'), ('PEM', 'pkcs1-pem')):
            r = subprocess.run([SSH_KEYGEN, '-e', '-m', m, '-f', pth + '.pub'], capture_output=True)
            acc.add(core.digest((alg, 'ssh-keygen-e', m)), transitions=1)
            if r.returncode == 0:
                try:
                    back = asyncssh.import_public_key(r.stdout)
                    if back.public_data != key.public_data:
                        viol('reads-ssh-keygen-differently', 'ssh-keygen-e-' + m, 'different key')
                except asyncssh.KeyImportError as exc:
                    viol('cannot-read-ssh-keygen', 'ssh-keygen-e-' + m, repr(exc))
        # a key generated by ssh-keygen is read identically by asyncssh
        kt = {'ssh-rsa': ['-t', 'rsa', '-b', '2048'], 'ecdsa-sha2-nistp256': ['-t', 'ecdsa', '-b', '256'],
              'ecdsa-sha2-nistp384': ['-t', 'ecdsa', '-b', '384'], 'ecdsa-sha2-nistp521': ['-t', 'ecdsa', '-b', '521'],
              'ssh-ed25519': ['-t', 'ed25519']}.get(alg)
        if kt:
            for m in ('RFC4716', 'PEM', 'PKCS8'):
                g = os.path.join(tmp, 'gen-' + m)
                for x in (g, g + '.pub'):
                    if os.path.exists(x):
                        os.unlink(x)
                r = subprocess.run([SSH_KEYGEN, '-q', '-N', '', '-C', 'gen  comment', '-m', m, '-f', g] + kt, capture_output=True)
                acc.add(core.digest((alg, 'ssh-keygen-gen', m)), transitions=1)
                if r.returncode != 0:
                    acc.count('ssh-keygen-gen-failed')
                    continue
                try:
                    priv = asyncssh.read_private_key(g)
                    pub = asyncssh.read_public_key(g + '.pub')
                    if priv.public_data != pub.public_data:
                        viol('reads-ssh-keygen-differently', 'ssh-keygen-gen-' + m, 'private and public file disagree')
                    if pub.get_comment_bytes() != b'gen  comment':
                        viol('comment-changed', 'ssh-keygen-gen-' + m, 'comment read as %r' % (pub.get_comment_bytes(),))
                except Exception as exc:        # pylint: disable=broad-except
                    viol('cannot-read-ssh-keygen', 'ssh-keygen-gen-' + m, repr(exc)[:200])
    # openssl-written PKCS#8 with PBE-SHA1-3DES (PKCS#12 KDF) and long passphrases read by asyncssh
    if OPENSSL and alg in ('ssh-rsa', 'ecdsa-sha2-nistp256', 'ssh-ed25519'):
        src = os.path.join(tmp, 'plain.pem')
        with open(src, 'wb') as f:
            f.write(key.export_private_key('pkcs8-pem'))
        for pname, pp in PASSPHRASES:
            if pname == 'long':
                continue
            for v1 in ('PBE-SHA1-3DES', None):
                cmd = [OPENSSL, 'pkcs8', '-topk8', '-in', src, '-passout', 'pass:' + pp]
                cmd += ['-v1', v1, '-provider', 'default', '-provider', 'legacy'] if v1 else ['-v2', 'aes-256-cbc']
                r = subprocess.run(cmd, capture_output=True)
                acc.add(core.digest((alg, 'openssl-topk8', pname, v1)), transitions=1)
                if r.returncode != 0:
                    acc.count('openssl-topk8-failed')
                    continue
                try:
                    back = asyncssh.import_private_key(r.stdout, pp)
                    if back.public_data != key.public_data:
                        viol('reads-openssl-differently', 'openssl-topk8/%s/%s' % (v1, pname), 'different key')
                except Exception as exc:        # pylint: disable=broad-except
                    viol('cannot-read-openssl', 'openssl-topk8/%s/%s' % (v1, pname), repr(exc)[:200])
    # files with several concatenated keys of mixed formats
    blobs = [key.export_private_key('pkcs8-pem'), key2.export_private_key('openssh'), key.export_private_key('pkcs1-pem')
             if alg in ('ssh-rsa', 'ssh-dss') or alg.startswith('ecdsa') else key2.export_private_key('pkcs8-pem')]
    for perm in itertools.permutations(range(3)):
        pth = os.path.join(tmp, 'multi')
        with open(pth, 'wb') as f:
            f.write(b''.join(blobs[i] for i in perm))
        acc.add(core.digest((alg, 'multi', perm)), transitions=1)
        try:
            got = [k.public_data for k in asyncssh.read_private_key_list(pth)]
            want = [([key, key2, key if (alg in ('ssh-rsa', 'ssh-dss') or alg.startswith('ecdsa')) else key2][i]).public_data for i in perm]
            if got != want:
                viol('multi-key-file', 'concatenated', 'order %r read as %d keys' % (perm, len(got)))
        except Exception as exc:        # pylint: disable=broad-except
            viol('multi-key-file', 'concatenated', repr(exc)[:200])
    shutil.rmtree(tmp, ignore_errors=True)
    return acc


def main(tier, seed):
    t0 = core.now()
    os.makedirs(SCRATCH, exist_ok=True)
    jobs = [(alg, kw, tier) for alg, kw in KEYTYPES]
    acc = core.pmap(worker, core.rotate(jobs, seed))
    shutil.rmtree(SCRATCH, ignore_errors=True)
    rule = ('7 key types x every private export format/cipher/hash/PBES version asyncssh offers (%d schemes) x '
            'passphrases {1 char, non-ASCII, 31/32/33 chars, 1 kB} (quick: full passphrase grid on one scheme per '
            'family) with 5 wrong-passphrase variants each; 6 public formats x 8 comments (double blanks, tabs, '
            'non-UTF-8); PyCA loaders, ssh-keygen (-y, -l, -e -m, key generation in 3 formats) and openssl (pkey, '
            'pkcs8 -topk8 v1/v2) as independent readers/writers; concatenated multi-key files in every order'
            % len(private_matrix()))
    return core.finish(PROP, tier, seed, 'exploration', acc, t0, rule,
                       {'key_types': [k for k, _ in KEYTYPES], 'schemes': len(private_matrix())},
                       assumptions=['OpenSSH-format encrypted private keys need bcrypt, which is absent here: asyncssh '
                                    'itself refuses to export them (counted as not-exportable)',
                                    'sk-* keys need an authenticator and are not covered'])


def replay(rep):
    r = rep['replay']
    kw = dict(KEYTYPES)[r['alg']]
    os.makedirs(SCRATCH, exist_ok=True)
    acc = worker((r['alg'], kw, 'thorough'))
    v = [x for x in acc.violations if x['replay'].get('label') == r.get('label')] or acc.violations[:3]
    print(json.dumps(v[:5], indent=1, default=repr))
    if v:
        print('VIOLATION property=%s replay=(given)' % PROP)
        return 1
    return 0
