"""C10  Hostile input costs bounded work and fails cleanly.

Bounded-exhaustive input enumeration with a work meter:
 (a) whole-connection byte prefixes / over-long lines / banner floods, both roles;
 (b) for every message a phase accepts: every truncation, every 4-byte window replaced
     by numeric extremes, trailing bytes -- sent by the scripted refpeer in a dialogue
     in which the application under test then keeps using the affected channel;
 (c) parsers (DER, keys, certificates, SSH packets, SFTP server requests, agent
     replies, SSHSIG, SOCKS): every truncation and single-byte replacement of a seed
     corpus; only the documented error may come out.
"""

import asyncio
import itertools
import json
import os
import shutil
import sys

import asyncssh

import core
import pair as P
import refpeer as R
import rpharness as H
from vloop import Livelock, WorkBudgetExceeded

PROP = 'C10'
EXTREMES = [0, 1, 0x7fffffff, 0x80000000, 0xffffffff]


def mutations(payload, tier):
    """(label, bytes) single-site mutations of one message"""
    n = len(payload)
    for k in range(1, n):
        yield 'trunc@%d' % k, payload[:k]
    yield 'trail1', payload + b'\0'
    yield 'trail4', payload + b'\0\0\0\1'
    for off in range(1, n - 3):
        for x in EXTREMES:
            v = x.to_bytes(4, 'big')
            if payload[off:off + 4] != v:
                yield 'u32@%d=%x' % (off, x), payload[:off] + v + payload[off + 4:]
    for off in range(1, n):
        for b in (0x00, 0x7f, 0x80, 0xff):
            if payload[off] != b and (tier == 'thorough' or off % 3 == 0):
                yield 'b@%d=%02x' % (off, b), payload[:off] + bytes([b]) + payload[off + 1:]


import os
os.environ.setdefault('VERIF_WATCHDOG_S', '8')


def hygiene(loop, conn, owner):
    v = []
    exc = loop.unretrieved()
    if exc:
        v.append(('loop-exception', repr(exc[0].get('exception') or exc[0].get('message'))[:300]))
    if loop.budget_tripped:
        v.append(('work-budget', loop.budget_tripped))
    closed = conn._transport is None
    if closed and owner is not None and owner.lost != 1:
        v.append(('owner-not-notified', 'connection closed, owner.connection_lost called %d times' % owner.lost))
    exc = getattr(owner, 'lost_exc', None)
    if exc is not None and not isinstance(exc, (asyncssh.Error, OSError, asyncssh.packet.PacketDecodeError)):
        # the connection was torn down through the catch-all for unexpected exceptions: the input did not get
        # the documented error but crashed a handler
        v.append(('handler-crashed', 'connection ended by the internal-error path: %r' % (exc,)))
    return v


# ------------------------------------------------------------------ (a) raw prefixes
def raw_worker(job):
    role, blobs = job
    acc = core.Acc()
    for label, blob in blobs:
        loop = P.fresh(0)
        loop.write_budget = 400
        try:
            pair = P.Pair(loop, connect=False)
            conn, tr = (pair.s, pair.st) if role == 'server' else (pair.c, pair.ct)
            conn.connection_made(tr)
            viol = []
            try:
                loop.quiesce()
                for i in range(0, len(blob), 65536):
                    loop.inject(tr, blob[i:i + 65536])
                    loop.quiesce(2000)
                loop.deliver  # noqa
                # then EOF
                loop.call_soon(loop._deliver_eof, tr)
                loop.quiesce(2000)
            except Livelock as exc:
                viol.append(('livelock', str(exc)))
            owner = pair.server_owner if role == 'server' else pair.client_owner
            viol += hygiene(loop, conn, owner)
            if conn._transport is not None:
                viol.append(('not-closed-after-eof', 'endpoint still open after EOF'))
            out = len(tr.writes)
            acc.add(core.digest((role, label, out, conn._transport is None)), transitions=1,
                    sample={'role': role, 'prefix': label} if label.startswith('line') else None)
            for k, d in viol:
                acc.violation('raw:%s:%s:%s' % (k, role, label), d, {'kind': 'raw', 'role': role, 'label': label,
                                                                       'blob': blob[:200].hex()})
        finally:
            P.done(loop)
    return acc


def raw_blobs(tier):
    out = []
    alpha = [b'S', b'\n', b'\r', b'\0', b'\xff', b'SSH-']
    for n in range(0, 4):
        for t in itertools.product(alpha, repeat=n):
            out.append(('bytes:' + b''.join(t).hex(), b''.join(t)))
    for ln in (0, 254, 255, 256, 8191, 8192, 8193, 70000):
        out.append(('line%d' % ln, b'x' * ln + b'\r\n'))
        out.append(('ssh-line%d' % ln, b'SSH-2.0-' + b'x' * ln + b'\r\n'))
        out.append(('noeol%d' % ln, b'y' * ln))
    for cnt in (0, 1, 1023, 1024, 1025, 5000):
        out.append(('banner-lines%d' % cnt, b'hello\r\n' * cnt + b'SSH-2.0-x\r\n'))
    for pl in (0, 1, 4, 5, 12, 35000, 262144, 2 ** 32 - 1):
        out.append(('pktlen%d' % pl, b'SSH-2.0-x\r\n' + pl.to_bytes(4, 'big') + b'\x04' + b'\x14' * 40))
    out.append(('ssh1', b'SSH-1.5-old\r\n'))
    out.append(('ssh199', b'SSH-1.99-ok\r\n'))
    out.append(('ssh3', b'SSH-3.0-new\r\n'))
    return out


# ------------------------------------------------------------------ (b) message fields
class BudgetSrv(P.RecServer):
    def server_requested(self, listen_host, listen_port):
        return True

    def connection_requested(self, dest_host, dest_port, orig_host, orig_port):
        return True

    def unix_server_requested(self, listen_path):
        return True

    def kbdint_auth_supported(self):
        return True

    def get_kbdint_challenge(self, username, lang, submethods):
        return 'title', 'instr', 'en', [('Password:', False)]

    def validate_kbdint_response(self, username, responses):
        return list(responses) == ['pw']

    def public_key_auth_supported(self):
        return True

    def validate_public_key(self, username, key):
        return True


def srv_scripts():
    """name -> (phase, prelude, base message, postlude); 'auth' scripts run before login"""
    s, u32, b, by = R.string, R.u32, R.boolean, R.byte
    opn = by(90) + s('session') + u32(5) + u32(1000) + u32(100)

    def req(name, rest=b'', want=True):
        return by(98) + u32(0) + s(name) + b(want) + rest
    exec_ = req('exec', s('cmd'))
    sc = {
        'kexinit': ('kex', [], None, []),
        'service': ('post-kex', [], by(5) + s('ssh-userauth'), []),
        'auth-none': ('auth', [], by(50) + s('user') + s('ssh-connection') + s('none'), []),
        'auth-password': ('auth', [], by(50) + s('user') + s('ssh-connection') + s('password') + b(False) + s('pw'), []),
        'auth-pwchange': ('auth', [], by(50) + s('user') + s('ssh-connection') + s('password') + b(True) + s('pw') + s('new'), []),
        'auth-pk-probe': ('auth', [], by(50) + s('user') + s('ssh-connection') + s('publickey') + b(False) + s('ssh-ed25519') + s(s('ssh-ed25519') + s(bytes(32))), []),
        'auth-pk-sig': ('auth', [], by(50) + s('user') + s('ssh-connection') + s('publickey') + b(True) + s('ssh-ed25519') + s(s('ssh-ed25519') + s(bytes(32))) + s(s('ssh-ed25519') + s(bytes(64))), []),
        'auth-kbdint': ('auth', [], by(50) + s('user') + s('ssh-connection') + s('keyboard-interactive') + s('') + s(''), []),
        'auth-kbdint-resp': ('auth', [by(50) + s('user') + s('ssh-connection') + s('keyboard-interactive') + s('') + s('')],
                             by(61) + u32(1) + s('pw'), []),
        'auth-kbdint-resp0': ('auth', [by(50) + s('user') + s('ssh-connection') + s('keyboard-interactive') + s('') + s('')],
                              by(61) + u32(0), []),
        'auth-kbdint-resp2': ('auth', [by(50) + s('user') + s('ssh-connection') + s('keyboard-interactive') + s('') + s('')],
                              by(61) + u32(2) + s('pw') + s('x'), []),
        # a server that offers only password authentication: asyncssh itself presents it as a one-prompt
        # keyboard-interactive exchange
        'pwfb-kbdint': ('auth', [], by(50) + s('user') + s('ssh-connection') + s('keyboard-interactive') + s('') + s(''), []),
        'pwfb-kbdint-resp': ('auth', [by(50) + s('user') + s('ssh-connection') + s('keyboard-interactive') + s('') + s('')],
                             by(61) + u32(1) + s('pw'), []),
        'pwfb-kbdint-resp0': ('auth', [by(50) + s('user') + s('ssh-connection') + s('keyboard-interactive') + s('') + s('')],
                              by(61) + u32(0), []),
        'pwfb-kbdint-resp2': ('auth', [by(50) + s('user') + s('ssh-connection') + s('keyboard-interactive') + s('') + s('')],
                              by(61) + u32(2) + s('pw') + s('x'), []),
        'auth-hostbased': ('auth', [], by(50) + s('user') + s('ssh-connection') + s('hostbased') + s('ssh-ed25519') + s(s('ssh-ed25519') + s(bytes(32))) + s('host') + s('user') + s(s('ssh-ed25519') + s(bytes(64))), []),
        'open-session': ('session', [], opn, [exec_]),
        'open-direct-tcpip': ('session', [], by(90) + s('direct-tcpip') + u32(5) + u32(1000) + u32(100) + s('h') + u32(80) + s('o') + u32(1), []),
        'open-direct-streamlocal': ('session', [], by(90) + s('direct-streamlocal@openssh.com') + u32(5) + u32(1000) + u32(100) + s('/p') + s('') + u32(0), []),
        'open-tun': ('session', [], by(90) + s('tun@openssh.com') + u32(5) + u32(1000) + u32(100) + u32(1) + u32(0), []),
        'open-x11': ('session', [], by(90) + s('x11') + u32(5) + u32(1000) + u32(100) + s('o') + u32(1), []),
        'global-tcpip-forward': ('session', [], by(80) + s('tcpip-forward') + b(True) + s('') + u32(8022), []),
        'global-cancel': ('session', [by(80) + s('tcpip-forward') + b(True) + s('') + u32(8022)],
                          by(80) + s('cancel-tcpip-forward') + b(True) + s('') + u32(8022), []),
        'global-streamlocal': ('session', [], by(80) + s('streamlocal-forward@openssh.com') + b(True) + s('/vsock'), []),
        'global-keepalive': ('session', [], by(80) + s('keepalive@openssh.com') + b(True), []),
        'global-hostkeys-prove': ('session', [], by(80) + s('hostkeys-prove-00@openssh.com') + b(True) + s(s('ssh-ed25519') + s(bytes(32))), []),
        'global-unknown': ('session', [], by(80) + s('no-such-request') + b(True) + bytes(8), []),
        'req-pty': ('session', [opn], req('pty-req', s('xterm') + u32(80) + u32(24) + u32(0) + u32(0) + s(by(53) + u32(1) + by(0))), [exec_]),
        'req-env': ('session', [opn], req('env', s('A') + s('B')), [exec_]),
        'req-exec': ('session', [opn], exec_, []),
        'req-shell': ('session', [opn], req('shell'), []),
        'req-subsystem': ('session', [opn], req('subsystem', s('sftp')), []),
        'req-x11': ('session', [opn], req('x11-req', b(False) + s('MIT-MAGIC-COOKIE-1') + s('00' * 16) + u32(0)), [exec_]),
        'req-agent': ('session', [opn], req('auth-agent-req@openssh.com'), [exec_]),
        'req-window-change': ('session', [opn, exec_], req('window-change', u32(80) + u32(24) + u32(0) + u32(0), False), []),
        'req-signal': ('session', [opn, exec_], req('signal', s('INT'), False), []),
        'req-break': ('session', [opn, exec_], req('break', u32(1)), []),
        'data': ('session', [opn, exec_], by(94) + u32(0) + s('hello'), []),
        'ext-data': ('session', [opn, exec_], by(95) + u32(0) + u32(1) + s('hello'), []),
        'window-adjust': ('session', [opn, exec_], by(93) + u32(0) + u32(10), []),
        'eof': ('session', [opn, exec_], by(96) + u32(0), []),
        'close': ('session', [opn, exec_], by(97) + u32(0), []),
        'disconnect': ('session', [], by(1) + u32(11) + s('bye') + s('en'), []),
        'debug': ('session', [], by(4) + b(True) + s('msg') + s('en'), []),
        'ignore': ('session', [], by(2) + s('x' * 10), []),
        'unimplemented': ('session', [], by(3) + u32(7), []),
        'ext-info': ('post-kex', [], by(7) + u32(1) + s('server-sig-algs') + s('ssh-ed25519'), []),
    }
    return sc


def srv_run(name, mutated, kexinit_mut=None, version=b'SSH-2.0-RefPeer_1.0', comp='none'):
    phase, prelude, base, postlude = srv_scripts()[name]
    env = {}

    def on_start(sess):
        try:
            sess.chan.write(b'result' * 10)
            sess.chan.write_stderr(b'err')
        except OSError:
            pass
    env['session_factory'] = lambda: P.RecSession('srv', on_start=on_start)
    w = H.SrvWorld(env=env, server_factory=P.RecServer if name.startswith('pwfb-') else BudgetSrv,
                   sopts=dict(compression_algs=[comp], x11_forwarding=True, agent_forwarding=True),
                   rp_kw=dict(version=version, comps=[comp]))
    w.loop.write_budget = 1500
    rp = w.rp
    viol = []
    try:
        if kexinit_mut is not None:
            rp.auto = False
            w.start()
            rp.send(kexinit_mut)
            w.flush()
        else:
            w.kex()
            if phase == 'post-kex':
                rp.send(mutated)
                w.flush()
            else:
                rp.send(rp.service_request())
                w.flush()
                if phase == 'auth':
                    for p in prelude:
                        rp.send(p)
                        w.flush()
                    rp.send(mutated)
                    w.flush()
                else:
                    rp.send(rp.password_request('user', 'pw'))
                    w.flush()
                    for p in prelude + [mutated] + postlude:
                        if w.server_closed():
                            break
                        rp.send(p)
                        w.flush()
                    # keep using every channel the server still has: its app writes more
                    for chan in list(w.conn._channels.values()):
                        try:
                            chan.write(b'more' * 20)
                        except Exception:       # pylint: disable=broad-except
                            pass
                    w.flush()
    except Livelock as exc:
        viol.append(('livelock', str(exc)))
    except R.RefError:
        pass
    try:
        viol += hygiene(w.loop, w.conn, w.owner)
        return viol, (w.server_closed(), len(w.st.writes) // 10)
    finally:
        w.close()


def cli_scripts():
    s, u32, b, by = R.string, R.u32, R.boolean, R.byte
    return {
        'service-accept': by(6) + s('ssh-userauth'),
        'auth-failure': by(51) + R.namelist(['password', 'publickey', 'keyboard-interactive']) + b(False),
        'auth-banner': by(53) + s('welcome') + s('en'),
        'auth-success': by(52),
        'auth-pwchangereq': by(60) + s('change it') + s('en'),
        'open-confirm': by(91) + u32(0) + u32(100) + u32(1000) + u32(100),
        'open-failure': by(92) + u32(0) + u32(2) + s('nope') + s('en'),
        'chan-success': by(99) + u32(0),
        'chan-failure': by(100) + u32(0),
        'data': by(94) + u32(0) + s('hello'),
        'ext-data': by(95) + u32(0) + u32(1) + s('hello'),
        'window-adjust': by(93) + u32(0) + u32(10),
        'exit-status': by(98) + u32(0) + s('exit-status') + b(False) + u32(3),
        'exit-signal': by(98) + u32(0) + s('exit-signal') + b(False) + s('TERM') + b(False) + s('msg') + s('en'),
        'xon-xoff': by(98) + u32(0) + s('xon-xoff') + b(False) + b(True),
        'chan-keepalive': by(98) + u32(0) + s('keepalive@openssh.com') + b(True),
        'eof': by(96) + u32(0),
        'close': by(97) + u32(0),
        'global-hostkeys': by(80) + s('hostkeys-00@openssh.com') + b(False) + s(s('ssh-ed25519') + s(bytes(32))),
        'global-keepalive': by(80) + s('keepalive@openssh.com') + b(True),
        'global-unknown': by(80) + s('zzz') + b(True) + bytes(5),
        'open-forwarded-tcpip': by(90) + s('forwarded-tcpip') + u32(9) + u32(1000) + u32(100) + s('') + u32(8022) + s('o') + u32(1),
        'open-x11': by(90) + s('x11') + u32(9) + u32(1000) + u32(100) + s('o') + u32(1),
        'open-agent': by(90) + s('auth-agent@openssh.com') + u32(9) + u32(1000) + u32(100),
        'open-session': by(90) + s('session') + u32(9) + u32(1000) + u32(100),
        'request-success': by(81) + u32(8022),
        'request-failure': by(82),
        'disconnect': by(1) + u32(2) + s('bye') + s('en'),
        'debug': by(4) + b(True) + s('dbg') + s('en'),
        'ext-info': by(7) + u32(1) + s('server-sig-algs') + s('ssh-ed25519,rsa-sha2-256'),
    }


def cli_run(name, mutated, version=b'SSH-2.0-RefPeer_1.0', hostkeys=False):
    """real client; refpeer server replaces its own reply `name` by the mutated bytes"""
    copts = dict(password='pw', preferred_auth='keyboard-interactive,password',
                 x11_forwarding=False)
    if hostkeys:
        seen = []
        copts['server_host_keys_handler'] = lambda a, r, rt, p: seen.append((a, r))
    w = H.CliWorld(copts=copts, rp_kw=dict(version=version))
    if hostkeys:
        # host key checking must be on for the hostkeys extension to be acted on
        import base64
        kh = 'h ' + 'ssh-ed25519 ' + base64.b64encode(w.rp.hostkey_blob()).decode() + '\n'
        w.close()
        copts['known_hosts'] = asyncssh.import_known_hosts(kh.replace('h ', '* ', 1))
        w = H.CliWorld(copts=copts, rp_kw=dict(version=version, hostkey=w.rp.hostkey))
    w.loop.write_budget = 1500
    rp = w.rp
    state = {'used': False}
    orig = w._on_message

    def on_message(t, p):
        if name == 'service-accept' and t == R.MSG_SERVICE_REQUEST:
            rp.send(mutated)
            return
        if t == R.MSG_USERAUTH_REQUEST and not state['used']:
            if name in ('auth-failure', 'auth-success', 'auth-pwchangereq'):
                state['used'] = True
                rp.send(mutated)
                return
            if name == 'auth-banner':
                state['used'] = True
                rp.send(mutated)
            if name == 'ext-info':
                state['used'] = True
                rp.send(mutated)
        if t == R.MSG_CHANNEL_OPEN and name in ('open-confirm', 'open-failure'):
            rp.send(mutated)
            if name == 'open-confirm':
                w.chan_opens.append((b'session', 0, 1000, 100, 100))
            return
        orig(t, p)
    rp.on_message = on_message
    viol = []
    out = {}
    try:
        w.start()
        w.flush()
        waiter = w.copt.waiter
        if waiter.done() and not waiter.cancelled() and waiter.exception() is None:
            async def app():
                chan, sess = await w.conn.create_session(lambda: P.RecSession('cli'), 'cmd',
                                                         encoding=None)
                out['chan'] = chan
                chan.write(b'input' * 10)
            t = w.loop.create_task(app())
            w.flush()
            post = ('chan-success', 'chan-failure', 'data', 'ext-data', 'window-adjust', 'exit-status',
                    'exit-signal', 'xon-xoff', 'chan-keepalive', 'eof', 'close', 'global-hostkeys',
                    'global-keepalive', 'global-unknown', 'open-forwarded-tcpip', 'open-x11',
                    'open-agent', 'open-session', 'request-success', 'request-failure', 'disconnect',
                    'debug')
            if name in post and w.conn._transport is not None:
                rp.send(mutated)
                w.flush()
            if 'chan' in out and w.conn._transport is not None:
                try:
                    out['chan'].write(b'more' * 30)
                except Exception:           # pylint: disable=broad-except
                    pass
                w.flush()
            if t.done() and not t.cancelled():
                t.exception()
    except Livelock as exc:
        viol.append(('livelock', str(exc)))
    except R.RefError:
        pass
    try:
        viol += hygiene(w.loop, w.conn, w.owner)
        return viol, (w.conn._transport is None, len(w.ct.writes) // 10)
    finally:
        w.close()


def msg_worker(job):
    role, name, tier = job
    acc = core.Acc()
    if role == 'server':
        phase, prelude, base, postlude = srv_scripts()[name]
        if base is None:
            rp = R.RefPeer('client')
            base = rp.build_kexinit(cookie=bytes(16))
            runs = [(lab, lambda m=m: srv_run(name, None, kexinit_mut=m)) for lab, m in mutations(base, tier)]
        else:
            runs = [(lab, lambda m=m: srv_run(name, m)) for lab, m in
                    itertools.chain([('base', base)], mutations(base, tier))]
    else:
        base = cli_scripts()[name]
        hk = name == 'global-hostkeys'
        runs = [(lab, lambda m=m: cli_run(name, m, hostkeys=hk)) for lab, m in
                itertools.chain([('base', base)], mutations(base, tier))]
    budget_hits = 0
    for lab, fn in runs:
        if budget_hits >= 3:
            acc.caps.append('%s/%s: stopped after 3 work-budget violations' % (role, name))
            break
        viol, out = fn()
        if any(k in ('livelock', 'work-budget') for k, _ in viol):
            budget_hits += 1
        acc.add(core.digest((role, name, lab, out)), transitions=1,
                sample={'role_under_test': role, 'message': name, 'mutation': lab} if lab.startswith('u32@5=') else None)
        for k, d in viol:
            acc.violation('msg:%s:%s:%s:%s' % (k, role, name, lab), d,
                          {'kind': 'msg', 'role': role, 'name': name, 'label': lab})
    return acc


def special_worker(job):
    """hand-picked combinations from the design: dropbear+compression send_pktsize-1, etc."""
    acc = core.Acc()
    kind = job
    s, u32, by = R.string, R.u32, R.byte
    cases = []
    if kind == 'dropbear':
        for pkt in (0, 1, 2):
            for comp in ('none', 'zlib@openssh.com', 'zlib'):
                opn = by(90) + s('session') + u32(5) + u32(1000) + u32(pkt)
                cases.append(('dropbear-pkt%d-%s' % (pkt, comp),
                              lambda o=opn, c=comp: _srv_custom(o, b'SSH-2.0-dropbear_2020.81', c)))
    for lab, fn in cases:
        viol, out = fn()
        acc.add(core.digest((lab, out)), transitions=1, sample={'special': lab})
        for k, d in viol:
            acc.violation('special:%s:%s' % (k, lab), d, {'kind': 'special', 'job': kind, 'label': lab})
    return acc


def _srv_custom(opn, version, comp):
    sc = srv_scripts()
    name = 'open-session'
    return srv_run(name, opn, version=version, comp=comp)


# ------------------------------------------------------------------ output amplification
AMP_SYMBOLS = [b'a', b'\t', b'\x7f', b'\x08', b'\x1b[D', b'\x1b[C', b'\x1b[A', b'\x1b[B', b'\x01', b'\x05',
               b'\x0b', b'\x15', b'\x17', b'\x19', b'\x12', b'\x14', b'\xc3\xa9', b'\x1b', b'\x0c', b' ']


def amp_run(pty, prefix, symbol, count, stats=None):
    if stats is None:
        stats = {}
    return _amp_run(pty, prefix, symbol, count, stats)


def _amp_run(pty, prefix, symbol, count, stats):
    """server with a (line-editing) shell session; refpeer sends `prefix` once and then `count`
    packets each holding `symbol`; output must stay proportional to input"""
    async def handler(process):
        try:
            async for _line in process.stdin:
                pass
        except Exception:           # pylint: disable=broad-except
            pass
    w = H.SrvWorld(sopts=dict(process_factory=handler, encoding='utf-8'))
    w.loop.write_budget = 40 * count + 4000
    rp = w.rp
    viol = []
    try:
        w.kex().auth()
        remote, _, _ = w.open_session(request=None, window=2 ** 30)
        if pty:
            rp.send(rp.channel_request(remote, 'pty-req', True, R.string('xterm') + R.u32(80) + R.u32(24) +
                                       R.u32(0) + R.u32(0) + R.string(b'\0')))
        rp.send(rp.channel_request(remote, 'shell', True))
        w.flush()
        base_out = w.st.bytes_written
        base_in = w.rt.bytes_written
        sent = 0
        if prefix:
            rp.send(rp.channel_data(remote, prefix))
            sent += len(prefix)
            w.flush()
        for i in range(count):
            rp.send(rp.channel_data(remote, symbol))
            sent += len(symbol)
            if i % 50 == 49:
                w.flush()
        w.flush()
        out = w.st.bytes_written - base_out
        wire_in = w.rt.bytes_written - base_in     # bytes the hostile peer actually sent
        stats['out'], stats['in'] = out, wire_in
        # absolute bound: a constant per input packet (a line editor may redraw one full input
        # line of at most max_line_length=1024 characters per key)
        if out > 4096 * (count + 1) + 20000:
            viol.append(('output-amplification', 'server wrote %d bytes in response to %d payload bytes '
                         '(%d packets, %d wire bytes)' % (out, sent, count + 1, wire_in)))
    except Livelock as exc:
        viol.append(('livelock', str(exc)))
    except R.RefError:
        pass
    try:
        viol += hygiene(w.loop, w.conn, w.owner)
        return viol
    finally:
        w.close()


def amp_worker(job):
    pty, prefix_len, symbol, count = job
    acc = core.Acc()
    s1, s2 = {}, {}
    viol = amp_run(pty, b'x' * prefix_len, symbol, count // 2, s1)
    viol += amp_run(pty, b'x' * prefix_len, symbol, count, s2)
    if s1.get('out') is not None and s2.get('out') is not None and \
            s2['out'] > 2.6 * s1['out'] + 20000:
        viol.append(('superlinear-output', 'doubling the number of input packets (%d -> %d) grew the output '
                     'from %d to %d bytes' % (count // 2, count, s1['out'], s2['out'])))
    acc.add(core.digest(job), transitions=count, sample={'amplification': {'pty': pty, 'prefix': prefix_len,
                                                                           'symbol': symbol.hex(), 'count': count}}
            if symbol == b'a' else None)
    for k, d in viol:
        acc.violation('amp:%s:pty=%s:prefix=%d:sym=%s' % (k, pty, prefix_len, symbol.hex()), d,
                      {'kind': 'amp', 'job': [pty, prefix_len, symbol.hex(), count]})
    return acc


def amp_jobs(tier):
    count = 1500 if tier == 'quick' else 4000
    jobs = []
    for pty in (True, False):
        for prefix_len in (0, 1000, 1020):
            for sym in AMP_SYMBOLS:
                jobs.append((pty, prefix_len, sym, count))
    return jobs


# ------------------------------------------------------------------ server applications reading a hostile stream
READER_STYLES = ['while-readline', 'async-for', 'readuntil', 'read-n', 'readexactly']


def reader_run(style, window, total, newline_at):
    """a server handler reads its stdin with each documented stream idiom while the peer sends `total` bytes
    with a single newline at `newline_at` (None: none at all) -- more than the receive window without a
    separator -- and then EOF.  The handler must terminate having seen every byte; the loop must not spin."""
    seen = {'n': 0, 'calls': 0, 'done': False}

    async def handler(process):
        rd = process.stdin
        try:
            if style == 'while-readline':
                while not rd.at_eof():
                    seen['calls'] += 1
                    seen['n'] += len(await rd.readline())
            elif style == 'async-for':
                while not rd.at_eof():
                    async for line in rd:
                        seen['calls'] += 1
                        seen['n'] += len(line)
            elif style == 'readuntil':
                while not rd.at_eof():
                    seen['calls'] += 1
                    try:
                        seen['n'] += len(await rd.readuntil(b'\n'))
                    except asyncio.IncompleteReadError as exc:
                        seen['n'] += len(exc.partial)
            elif style == 'read-n':
                while not rd.at_eof():
                    seen['calls'] += 1
                    seen['n'] += len(await rd.read(7))
            else:
                while not rd.at_eof():
                    seen['calls'] += 1
                    try:
                        seen['n'] += len(await rd.readexactly(window + 3))
                    except asyncio.IncompleteReadError as exc:
                        seen['n'] += len(exc.partial)
        finally:
            seen['done'] = True
            process.exit(0)
    w = H.SrvWorld(sopts=dict(process_factory=handler, encoding=None, window=window, max_pktsize=max(8, window // 2)))
    w.loop.write_budget = 20 * total + 4000
    rp = w.rp
    viol = []
    data = bytearray(b'x' * total)
    if newline_at is not None and newline_at < total:
        data[newline_at] = 10
    try:
        w.kex().auth()
        remote, rwin, rpkt = w.open_session(request=None, window=2 ** 20)
        rp.send(rp.channel_request(remote, 'exec', True, R.string('cmd')))
        w.flush()
        off = 0
        credit = window
        rounds = 0
        while off < total and rounds < 10 * total + 100:
            rounds += 1
            # honour the window the server advertises: send what it allows, then look for adjustments
            adj = sum(R.Reader(p, 5).u32() for t, p in rp.inbox if t == R.MSG_CHANNEL_WINDOW_ADJUST)
            allowed = window + adj - off
            n = min(allowed, rpkt, total - off, max(8, window // 2))
            if n <= 0:
                w.flush()
                adj2 = sum(R.Reader(p, 5).u32() for t, p in rp.inbox if t == R.MSG_CHANNEL_WINDOW_ADJUST)
                if adj2 == adj:
                    break                   # the receiver stopped granting window
                continue
            rp.send(rp.channel_data(remote, bytes(data[off:off + n])))
            off += n
            w.flush()
        rp.send(R.byte(R.MSG_CHANNEL_EOF) + R.u32(remote))
        w.flush()
        if off < total:
            viol.append(('reader-stalled', 'the server stopped granting window after %d of %d bytes although its '
                         'application keeps reading (%s)' % (off, total, style)))
        elif not seen['done']:
            viol.append(('reader-never-finished', '%s handler still running after EOF: saw %d of %d bytes in %d calls'
                         % (style, seen['n'], total, seen['calls'])))
        elif seen['n'] != total:
            viol.append(('reader-lost-data', '%s handler saw %d of %d bytes' % (style, seen['n'], total)))
        if seen['calls'] > 4 * total + 50:
            viol.append(('reader-spins', '%d read calls for %d bytes' % (seen['calls'], total)))
    except Livelock as exc:
        viol.append(('livelock', '%s: %s' % (style, exc)))
    except R.RefError:
        pass
    try:
        viol += hygiene(w.loop, w.conn, w.owner)
        return viol
    finally:
        w.close()


def reader_worker(job):
    acc = core.Acc()
    for style, window, total, nl in job:
        viol = reader_run(style, window, total, nl)
        acc.add(core.digest(('reader', style, window, total, nl)), transitions=total,
                sample={'reader': style, 'window': window, 'bytes': total, 'newline_at': nl} if nl is None and total == 3 * window else None)
        for k, d in viol:
            acc.violation('reader:%s:%s' % (k, style), '%s ; window=%d total=%d newline_at=%r' % (d, window, total, nl),
                          {'kind': 'reader', 'job': [style, window, total, nl]})
    return acc


def reader_jobs():
    cases = []
    for style in READER_STYLES:
        for window in (16, 64):
            for total in (window - 1, window, window + 1, 3 * window, 3 * window + 5):
                for nl in (None, 0, window - 1, window, total - 1):
                    cases.append((style, window, total, nl))
    return [cases[i::16] for i in range(16)]


# ------------------------------------------------------------------ SCP sinks fed by a hostile source, with the local disk failing
def scp_cases():
    out = []
    for role in ('server', 'client'):
        for size in (0, 10, 100):
            for sent in sorted({0, size // 2, size, size + 5}):
                for fail_after in (None, 0, 5):
                    for ending in ('eof', 'close', 'silence'):
                        for second in (False, True):
                            out.append((role, size, sent, fail_after, ending, second))
    return out


def scp_run(case):
    """The sink (asyncssh server handling `scp -t`, or asyncssh.scp() downloading) is sent a file record that
    announces `size` bytes, gets `sent` bytes, and then the stream ends (or falls silent); independently the
    local write starts failing after `fail_after` bytes.  The loop must stay live and the sink must finish
    once the stream has ended."""
    import tempfile
    import asyncssh.sftp as sftp_mod
    role, size, sent, fail_after, ending, second = case
    root = tempfile.mkdtemp(prefix='asyncssh-verif-c10-scp-', dir='/dev/shm')
    loop = P.fresh(0)
    loop.write_budget = 3000
    viol = []
    orig_write = sftp_mod.LocalFile.write
    written = {'n': 0}

    async def failing_write(self, data, offset):
        if fail_after is not None and written['n'] + len(data) > fail_after:
            raise OSError(28, 'No space left on device')
        written['n'] += len(data)
        return await orig_write(self, data, offset)
    sftp_mod.LocalFile.write = failing_write
    try:
        record = b'C0644 %d f\n' % size
        body = b'x' * sent + (b'\0' if sent >= size else b'')

        async def hostile_source(rd, wr, ch):
            """speaks to a sink: wait for its go-ahead, announce the file, send what we send, then end"""
            try:
                await rd.read(1)
                wr.write(record)
                await rd.read(1)
                wr.write(body)
                if second:
                    wr.write(b'C0644 3 g\n')
                if ending == 'eof':
                    wr.write_eof()
                elif ending == 'close':
                    ch.close()
            except (OSError, asyncssh.Error):
                pass
        done = {}
        if role == 'server':
            pair = P.Pair(loop, sopts=dict(allow_scp=True, sftp_factory=lambda chan: asyncssh.SFTPServer(chan, chroot=root), encoding=None))
            pair.handshake()

            async def client():
                w_, r_, e_ = await pair.c.open_session('scp -t /', encoding=None)
                await hostile_source(r_, w_, w_.channel)
                done['chan'] = w_.channel
            t = loop.create_task(client())
        else:
            async def handler(process):
                await hostile_source(process.stdin, process.stdout, process.channel)
                if ending != 'silence':
                    return
                await asyncio.sleep(10 ** 6)
            pair = P.Pair(loop, sopts=dict(process_factory=handler, encoding=None))
            pair.handshake()
            t = loop.create_task(asyncssh.scp((pair.c, 'src'), os.path.join(root, 'dest')))
        try:
            loop.flush_all(horizon=60000)
        except Livelock as exc:
            viol.append(('livelock', str(exc)))
        if ending != 'silence' and not viol:
            if role == 'client' and not t.done():
                viol.append(('sink-hangs', 'asyncssh.scp() still pending after the source ended the stream'))
            if role == 'server':
                ss = [c for c in pair.s._channels.values()]
                if ss and ending == 'close':
                    viol.append(('sink-hangs', 'server channel still open after the source closed it'))
        if t.done() and not t.cancelled() and t.exception() is not None and not isinstance(t.exception(), (asyncssh.Error, OSError)):
            viol.append(('undocumented-error', repr(t.exception())))
        # the endpoint is still alive: a fresh command on the same connection is answered
        if not viol and pair.c._transport is not None and role == 'server':
            t2 = loop.create_task(pair.c.run('scp -t /nonexistent-dir/x', stdin=asyncssh.DEVNULL, encoding=None, check=False))
            try:
                loop.flush_all(horizon=60000)
            except Livelock as exc:
                viol.append(('livelock', 'follow-up command: %s' % exc))
            if not t2.done():
                viol.append(('unresponsive', 'a second command on the same connection got no answer'))
            elif not t2.cancelled():
                t2.exception()
        exc = loop.unretrieved()
        if exc:
            viol.append(('loop-exception', repr(exc[0].get('exception') or exc[0].get('message'))[:300]))
        if loop.budget_tripped:
            viol.append(('work-budget', loop.budget_tripped))
        if not t.done():
            t.cancel()
            try:
                loop.quiesce()
            except Livelock:
                pass
        return viol
    except WorkBudgetExceeded as exc:
        return viol + [('work-budget', str(exc))]
    finally:
        sftp_mod.LocalFile.write = orig_write
        P.done(loop)
        shutil.rmtree(root, ignore_errors=True)


def scp_worker(job):
    acc = core.Acc()
    for case in job:
        try:
            viol = scp_run(case)
        except Livelock as exc:
            viol = [('livelock', str(exc))]
        acc.add(core.digest(('scp', case)), transitions=3,
                sample={'scp_sink': case[0], 'announced': case[1], 'sent': case[2], 'write_fails_after': case[3], 'ending': case[4]}
                if case[1] == 100 and case[2] == 50 and case[3] == 5 and case[4] == 'eof' and not case[5] else None)
        for k, d in viol:
            acc.violation('scp:%s:%s:%s' % (k, case[0], case[4]), '%s ; announced %d, sent %d, write fails after %r, second record %s'
                          % (d, case[1], case[2], case[3], case[5]), {'kind': 'scp', 'case': list(case)})
    return acc


# ------------------------------------------------------------------ main
# ------------------------------------------------------------------ the X11 setup prefix a forwarded X client sends
def x11_worker(job):
    """SSHX11ClientForwarder (what a client that asked for X11 forwarding runs for every `x11` channel the peer opens)
    fed with setup prefixes: byte orders x protocol names x cookie lengths 0..32 (right, wrong) x extreme length
    fields x every chunking into two pieces, byte by byte, with trailing data.  The call returns within the work
    budget; a wrong cookie gets one refusal and nothing of it reaches the X server side; the right one is passed on
    with the local cookie in its place."""
    import signal
    from asyncssh.x11 import SSHX11ClientForwarder, SSHX11ClientListener
    from asyncssh.forward import SSHForwarder
    acc = core.Acc()
    loop = asyncio.new_event_loop()

    class Budget(Exception):
        pass

    class Chan:
        def __init__(self):
            self.writes, self.eof, self.closed = [], 0, False

        def write(self, data):
            self.writes.append(bytes(data))
            if len(self.writes) > 200:
                raise Budget('more than 200 writes for one prefix')

        def write_eof(self):
            self.eof += 1
            if self.eof > 200:
                raise Budget('more than 200 EOFs for one prefix')

        def close(self):
            self.closed = True

        def abort(self):
            self.closed = True

        def pause_reading(self):
            pass

        def resume_reading(self):
            pass

        def get_extra_info(self, name, default=None):
            return default

    def on_prof(_s, _f):
        raise Budget('more than 5 s of CPU time for one prefix')
    signal.signal(signal.SIGPROF, on_prof)
    remote_cookie, local_cookie = bytes(range(16)), bytes(range(100, 116))
    for endian, proto, cookie, plen_override, dlen_override, chunking, tail in job:
        lst = SSHX11ClientListener(loop, 'localhost', '0', b'MIT-MAGIC-COOKIE-1', local_cookie)
        _proto, spoof, _screen = lst.attach('localhost:0', object(), False)    # the cookie announced to the peer for this session
        if cookie == b'<right>':
            cookie = spoof

        def u16(v):
            return v.to_bytes(2, 'big' if endian == b'B' else 'little')
        padn = lambda d: d + (-len(d) % 4) * b'\0'
        prefix = endian + b'\0' + u16(11) + u16(0) + u16(len(proto) if plen_override is None else plen_override) + \
            u16(len(cookie) if dlen_override is None else dlen_override) + b'\0\0' + padn(proto) + padn(cookie) + tail
        if chunking == 'whole':
            chunks = [prefix]
        elif chunking == 'bytes':
            chunks = [prefix[i:i + 1] for i in range(len(prefix))]
        else:
            chunks = [prefix[:chunking], prefix[chunking:]]
        xside, xchan = SSHForwarder(), Chan()
        xside.connection_made(xchan)
        fwd = SSHX11ClientForwarder(lst, xside)
        schan = Chan()
        fwd.connection_made(schan)
        viol = []
        signal.setitimer(signal.ITIMER_PROF, 5)
        try:
            for c in chunks:
                if c:
                    fwd.data_received(c)
        except Budget as exc:
            viol.append(('work-budget', str(exc)))
        except Exception as exc:        # pylint: disable=broad-except
            viol.append(('parser-exception', repr(exc)[:200]))
        finally:
            signal.setitimer(signal.ITIMER_PROF, 0)
        right = cookie == spoof
        if not viol:
            complete = plen_override is None and dlen_override is None
            if complete and not right:
                # (bytes that FOLLOW a refused prefix are not judged: the X server behind does its own authorization)
                if not tail.endswith(b''.join(xchan.writes)):
                    viol.append(('unauthenticated-data-forwarded', '%d bytes reached the X server side although the cookie was wrong' % sum(map(len, xchan.writes))))
                if len(schan.writes) != 1 or schan.eof != 1:
                    viol.append(('refusal-count', 'a wrong cookie was answered with %d replies and %d EOFs' % (len(schan.writes), schan.eof)))
            if complete and right:
                got = b''.join(xchan.writes)
                want = prefix.replace(padn(spoof), padn(local_cookie), 1)
                if got != want or schan.writes:
                    viol.append(('right-cookie-not-passed-on', 'X server side got %d bytes (expected the prefix with the local cookie, %d bytes), %d replies to the peer'
                                 % (len(got), len(want), len(schan.writes))))
            if len(schan.writes) + len(xchan.writes) > len(chunks) + 2:
                viol.append(('output-not-proportional', '%d writes for %d input chunks' % (len(schan.writes) + len(xchan.writes), len(chunks))))
        acc.add(core.digest(('x11', endian, proto, len(cookie), right, plen_override, dlen_override, chunking, tail, tuple(k for k, _ in viol))), transitions=len(chunks))
        for k, d in viol:
            acc.violation('parser:x11-prefix:%s:cookie-len-%d' % (k, len(cookie)), '%s ; endian=%r proto=%r cookie=%d bytes overrides=%r/%r chunking=%r tail=%d'
                          % (d, endian, proto, len(cookie), plen_override, dlen_override, chunking, len(tail)),
                          {'kind': 'x11', 'case': [endian.decode('latin1'), proto.decode('latin1'), cookie.hex(), plen_override, dlen_override, chunking, tail.hex()]})
    loop.close()
    return acc


def x11_jobs(tier):
    cases = []
    for endian in (b'B', b'l', b'x'):
        for proto in (b'', b'MIT-MAGIC-COOKIE-1', b'XDM-AUTHORIZATION-1', b'M'):
            for cookie in (b'', b'\1', bytes(15), bytes(16), b'<right>', bytes(17), bytes(32)):
                for chunking in ('whole', 'bytes', 1, 11, 12, 13):
                    for tail in (b'', b'more'):
                        cases.append((endian, proto, cookie, None, None, chunking, tail))
            for po, do in ((0xffff, None), (None, 0xffff), (0, 0), (0xffff, 0xffff), (1, None), (None, 1)):
                cases.append((endian, proto, bytes(16), po, do, 'whole', b''))
    return [cases[i::16] for i in range(16)]


def abandoned_worker(job):
    """checks/c09.py's explorer on the program that abandons a global request (the peer is slow to answer), seen from
    this property: whatever the peer then does -- answer late, close, violate the protocol, vanish -- no exception
    reaches the loop and the owner is told once that the connection ended."""
    import c09
    cfg, bound, prefix = job
    acc = core.Acc()

    def check(obs, ch):
        acc.add(core.digest(('abandoned', cfg, tuple(obs['trace']))), transitions=obs['steps'])
        for kind, detail in obs['viol']:
            if kind in ('loop-exception', 'owner-close-count', 'livelock', 'task-pending'):
                acc.violation('abandoned-request:%s' % kind, '%s ; schedule=%s' % (detail, ' '.join(obs['trace'])[:400]),
                              {'kind': 'abandoned', 'cfg': list(cfg), 'choices': ch.choices})
    core.explore_dfs(lambda ch: c09.run(cfg, ch), bound, check, root_prefix=prefix)
    return acc


def main(tier, seed):
    t0 = core.now()
    acc = core.Acc()
    blobs = raw_blobs(tier)
    jobs = [(role, blobs[i::8]) for role in ('server', 'client') for i in range(8)]
    acc.merge(core.pmap(raw_worker, core.rotate(jobs, seed)))
    n_a = acc.evaluations
    mj = [('server', n, tier) for n in srv_scripts()] + [('client', n, tier) for n in cli_scripts()]
    acc.merge(core.pmap(msg_worker, core.rotate(mj, seed)))
    acc.merge(core.pmap(special_worker, ['dropbear']))
    acc.merge(core.pmap(amp_worker, core.rotate(amp_jobs(tier), seed)))
    acc.merge(core.pmap(reader_worker, reader_jobs()))
    acc.merge(core.pmap(x11_worker, x11_jobs(tier)))
    acc.merge(core.pmap(abandoned_worker, [(('rfwd-timeout', 'echo'), 1 if tier == 'quick' else 2, ())]))
    sc = scp_cases()
    acc.merge(core.pmap(scp_worker, [sc[i::32] for i in range(32)]))
    n_b = acc.evaluations - n_a
    import c10_parsers
    acc.merge(c10_parsers.run(tier, seed))
    n_c = acc.evaluations - n_a - n_b
    rule = ('(a) raw connection prefixes: every string of <=3 symbols over {S, LF, CR, NUL, 0xff, "SSH-"}, '
            'over-long lines, banner floods, extreme packet lengths, then EOF, both roles; (b) %d server-side '
            'and %d client-side base messages x {every truncation, trailing bytes, every 4-byte window set '
            'to 0/1/2^31-1/2^31/2^32-1, byte replacements} sent in a live dialogue, after which the '
            'application keeps writing on its channels; (b2) output amplification: thousands of small data '
            'packets of each editing/control symbol into a pty or plain shell session with and without a '
            'nearly full input line; (b3) a server application reading its stdin with each documented stream idiom '
            '(readline loop, async for, readuntil, read(n), readexactly) while the peer sends 5 sizes around and '
            'beyond the receive window with the only newline at 5 positions or nowhere; (c) parser corpus x every truncation and single-byte '
            'replacement.  Oracle: per-execution transport-write budget and wall-clock watchdog hold, no '
            'exception reaches the loop handler, a closed connection notifies its owner exactly once, parsers '
            'raise only their documented error' % (len(srv_scripts()), len(cli_scripts())))
    return core.finish(PROP, tier, seed, 'exploration', acc, t0, rule,
                       {'raw_execs': n_a, 'message_execs': n_b, 'parser_calls': n_c,
                        'write_budget_per_execution': 1500},
                       assumptions=['"time proportional to input" is decided as a deterministic budget '
                                    '(transport writes per execution, loop steps per quiesce) plus a wall '
                                    'clock watchdog, not as seconds'])


def replay(rep):
    r = rep['replay']
    if r.get('kind') == 'abandoned':
        import c09
        obs = c09.run(tuple(r['cfg']), core.Chooser(r['choices']))
        v = [x for x in obs['viol'] if x[0] in ('loop-exception', 'owner-close-count', 'livelock', 'task-pending')]
        print(json.dumps(v, indent=1, default=repr))
        if v:
            print('VIOLATION property=%s replay=(given)' % PROP)
            return 1
        return 0
    if r.get('kind') == 'x11':
        c = r['case']
        acc = x11_worker([(c[0].encode('latin1'), c[1].encode('latin1'), bytes.fromhex(c[2]), c[3], c[4], c[5], bytes.fromhex(c[6]))])
        print(json.dumps(acc.violations[:3], indent=1, default=repr))
        if acc.violations:
            print('VIOLATION property=%s replay=(given)' % PROP)
            return 1
        return 0
    if r['kind'] == 'raw':
        acc = raw_worker((r['role'], [(r['label'], bytes.fromhex(r['blob']))]))
    elif r['kind'] == 'msg':
        acc = core.Acc()
        full = msg_worker((r['role'], r['name'], 'thorough'))
        acc.violations = [v for v in full.violations if v['replay'].get('label') == r['label']]
    elif r['kind'] == 'special':
        acc = special_worker(r['job'])
    elif r['kind'] == 'scp':
        c = r['case']
        acc = scp_worker([[tuple(c)]])
    elif r['kind'] == 'reader':
        acc = reader_worker([[tuple(r['job'])]])
    elif r['kind'] == 'amp':
        j = r['job']
        acc = amp_worker((j[0], j[1], bytes.fromhex(j[2]), j[3]))
    else:
        import c10_parsers
        acc = c10_parsers.replay(r)
    print(json.dumps(acc.violations, indent=1, default=repr)[:3000])
    if acc.violations:
        print('VIOLATION property=%s replay=(given)' % PROP)
        return 1
    return 0
