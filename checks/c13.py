"""C13  File serving and downloading never leave their directory.

(a) real SFTPServerHandler + SFTPServer(chroot=root) under a filesystem monitor:
    every path string from a component alphabet x every request type on three prepared
    trees, plus BFS over sequences of link/dir-creating requests followed by an access;
(b) downloads: the SCP sink and recursive SFTPClient.get/mget against hostile sources
    (every record / listing sequence from a hostile-name alphabet), monitor on the local side.
"""

import itertools
import json
import os
import shutil
import struct

import asyncssh
from asyncssh.sftp import SFTPServer, SFTPServerHandler

import core
import fsmon
import pair as P
import refsftp as RS
from refsftp import s, u32, u64
from vloop import Livelock

PROP = 'C13'
BASE = '/dev/shm/asyncssh-verif-c13-%d' % os.getpid()       # unique per check run (workers are forked later)


def wdir():
    return os.path.join(BASE, str(os.getpid()))


# ------------------------------------------------------------------ trees
def make_tree(kind):
    w = wdir()
    shutil.rmtree(w, ignore_errors=True)
    root = os.path.join(w, 'root')
    os.makedirs(os.path.join(root, 'a', 'b', 'c'))
    os.makedirs(os.path.join(w, 'outside', 'sub'))
    os.makedirs(os.path.join(w, 'root2'))                   # a sibling whose name begins with the root's name
    with open(os.path.join(w, 'root2', 'secret'), 'wb') as f:
        f.write(b'SECRET-PREFIX-SIBLING')
    for p, c in (('root/f', b'inside-f'), ('root/a/f', b'inside-af'), ('root/a/b/c/f', b'deep'),
                 ('outside/secret', b'SECRET'), ('outside/sub/s2', b'SECRET2'), ('secret', b'SECRET-SIBLING')):
        with open(os.path.join(w, p), 'wb') as f:
            f.write(c)
    if kind >= 2:
        os.symlink('a', os.path.join(root, 'l'))            # in-root relative link to a dir
        os.symlink('f', os.path.join(root, 'lf'))
    if kind >= 3:
        os.symlink('a/b/c', os.path.join(root, 's'))        # lexical depth 1, physical depth 3
        os.symlink('../..', os.path.join(root, 'a', 'b', 'up'))   # stays inside (-> root)
    return root, os.path.join(w, 'outside')


class Session:
    """one SFTP v3 server session on the virtual loop"""

    def __init__(self, root):
        self.loop = P.fresh(0)
        self.rd = RS.FakeReader(self.loop)
        import c14
        self.wr = c14.CollectWriter()
        self.handler = SFTPServerHandler(SFTPServer(c14.DummyChan(), chroot=root), self.rd, self.wr, 6)
        self.task = self.loop.create_task(self.handler.run())
        self.rd.feed(u32(5) + bytes([1]) + u32(3))
        self.loop.flush_all()
        self.n = 0
        self.rid = 10

    def req(self, t, body):
        self.rid += 1
        pkt = bytes([t]) + u32(self.rid) + body
        self.rd.feed(u32(len(pkt)) + pkt)
        self.loop.flush_all()
        pk = self.wr.packets()
        new, self.n = pk[self.n:], len(pk)
        return new

    def close(self):
        P.done(self.loop)


def do_request(sess, kind, path, path2=b'x'):
    """Issue one logical request (may be several packets); returns list of reply packets"""
    attrs = u32(0)
    out = []
    if kind in ('open-r', 'open-w', 'open-c', 'open-t'):
        flags = {'open-r': 1, 'open-w': 2, 'open-c': 2 | 8, 'open-t': 2 | 8 | 16}[kind]
        r = sess.req(3, s(path) + u32(flags) + attrs)
        out += r
        if r and r[0][0] == 102:
            h = r[0][9:]
            if kind == 'open-r':
                out += sess.req(5, s(h) + u64(0) + u32(64))
            elif kind != 'open-r':
                out += sess.req(6, s(h) + u64(0) + s(b'W'))
            sess.req(4, s(h))
    elif kind == 'opendir':
        r = sess.req(11, s(path))
        out += r
        if r and r[0][0] == 102:
            h = r[0][9:]
            out += sess.req(12, s(h))
            sess.req(4, s(h))
    else:
        t, body = {
            'stat': (17, s(path)), 'lstat': (7, s(path)), 'setstat': (9, s(path) + u32(4) + u32(0o600)),
            'remove': (13, s(path)), 'mkdir': (14, s(path) + attrs), 'rmdir': (15, s(path)),
            'realpath': (16, s(path)), 'readlink': (19, s(path)),
            'rename': (18, s(path) + s(path2)), 'rename-to': (18, s(path2) + s(path)),
            'symlink': (20, s(path) + s(path2)),         # v3 (OpenSSH order): target, linkpath
            'symlink-at': (20, s(path2) + s(path)),
            'posix-rename': (200, s('posix-rename@openssh.com') + s(path) + s(path2)),
            'hardlink': (200, s('hardlink@openssh.com') + s(path) + s(path2)),
            'hardlink-at': (200, s('hardlink@openssh.com') + s(path2) + s(path)),
            'statvfs': (200, s('statvfs@openssh.com') + s(path)),
            'lsetstat': (200, s('lsetstat@openssh.com') + s(path) + u32(4) + u32(0o600)),
        }[kind]
        out += sess.req(t, body)
    return out


READONLY = ['stat', 'lstat', 'opendir', 'open-r', 'readlink', 'realpath', 'statvfs']
MUTATING = ['open-w', 'open-c', 'open-t', 'setstat', 'remove', 'mkdir', 'rmdir', 'rename', 'rename-to', 'symlink',
            'symlink-at', 'posix-rename', 'hardlink', 'hardlink-at', 'lsetstat']


def path_alphabet(depth, outside_abs):
    comps = ['', '.', '..', 'a', 'f', 'l', 'x', 'outside', 'secret']
    out = []
    for n in range(0, depth + 1):
        for t in itertools.product(comps, repeat=n):
            body = '/'.join(t)
            for lead in ('', '/', '//', '///'):
                for trail in ('', '/'):
                    out.append(lead + body + trail)
    out += [outside_abs, outside_abs + '/secret', '/' + outside_abs, '/..' + outside_abs, '\\..\\outside',
            '/a/../../outside/secret', 'a/b/c/../../../../outside']
    # the way back in through a sibling directory named like the root plus a suffix
    for pre in ('..', '/..', '//..', 'a/..', 'a/../..', '/a/../..', 'a/b/../../..', '.', '', '/'):
        for post in ('root2', 'root2/', 'root2/secret', 'root2/new', 'root/../root2/secret', 'root2/../root2/secret'):
            out.append((pre + '/' + post) if pre not in ('', '/') else pre + post)
    return sorted(set(out))


def leak_in_replies(replies, outside):
    for p in replies:
        if b'SECRET' in p:
            return 'reply contains the contents of a file outside the root'
    return None


def single_worker(job):
    tree, kinds, paths = job
    acc = core.Acc()
    root, outside = make_tree(tree)
    sentinel = fsmon.tree_digest(outside)
    sib = os.path.join(os.path.dirname(root), 'secret')
    sess = None
    try:
        for kind in kinds:
            mutating = kind in MUTATING
            for path in paths:
                if sess is None or mutating:
                    if sess is not None:
                        sess.close()
                    root, outside = make_tree(tree)
                    sess = Session(root)
                mon = fsmon.start(root)
                try:
                    replies = do_request(sess, kind, path.encode(), b'/x')
                except Livelock as exc:
                    replies = []
                    acc.violation('confine:livelock:%s' % kind, '%r: %s' % (path, exc), {'kind': 'single', 'tree': tree, 'req': kind, 'path': path})
                finally:
                    fsmon.stop()
                viol = [('fs-access-outside-root', 'request %s %r -> %s(%r) resolves to %s' % (kind, path, op, p, phys))
                        for op, p, phys, _ro in mon.violations[:2]]
                leak = leak_in_replies(replies, outside)
                if leak:
                    viol.append(('leak', '%s (request %s %r)' % (leak, kind, path)))
                if mutating:
                    if fsmon.tree_digest(outside) != sentinel or open(sib, 'rb').read() != b'SECRET-SIBLING' or \
                            os.listdir(os.path.join(os.path.dirname(root), 'root2')) != ['secret']:
                        viol.append(('outside-modified', 'request %s %r changed files outside the root' % (kind, path)))
                acc.add(core.digest((tree, kind, path, [p[:1] for p in replies])), transitions=1,
                        sample={'tree': tree, 'request': kind, 'path': path} if path == '//outside/secret' and kind == 'open-r' else None)
                acc.count('fs-calls', mon.calls)
                acc.count('stat-family-probes-outside-root(observation)', len(mon.meta_outside))
                if mon.meta_outside and replies and replies[0][0] in (104, 105, 201) and kind in ('stat', 'lstat', 'statvfs', 'readlink'):
                    o = mon.meta_outside[0]
                    viol.append(('metadata-of-outside-path-returned', 'request %s %r: %s(%r) resolves to %s and a '
                                 'success reply carried the result' % (kind, path, o[0], o[1], o[2])))
                for k, d in viol:
                    acc.violation('confine:%s:%s' % (k, kind), d, {'kind': 'single', 'tree': tree, 'req': kind, 'path': path})
    finally:
        if sess is not None:
            sess.close()
        shutil.rmtree(wdir(), ignore_errors=True)
    return acc


# ---- sequences of link/dir creating requests followed by an access -------------------------
SEQ_OPS = []
for _tgt in ('..', '../..', '../outside', '../../outside', '../outside/secret', '/..', '/a', 'a', '.'):
    for _lnk in ('/a/l2', '/l2', '/a/l2/x', '/l2/x', '/x', '/a/b/l2'):
        SEQ_OPS.append(('symlink', _tgt, _lnk))
for _p in ('/a/l2', '/x', '/a/x'):
    SEQ_OPS.append(('mkdir', _p, ''))
for _a, _b in (('/a/l2', '/l2'), ('/l2', '/a/b/l2'), ('/a', '/x'), ('/x', '/a/x'), ('/a/b', '/b2')):
    SEQ_OPS.append(('rename', _a, _b))
ACCESSES = [(k, p) for k in ('open-r', 'stat', 'opendir', 'open-c') for p in
            ('/x/secret', '/l2/secret', '/a/l2/x/secret', '/x', '/l2', '/a/l2/x', '/a/l2/secret', '/l2/x/secret',
             '/x/sub/s2', '/a/b/l2/secret', '/x/outside/secret', '/l2/outside/secret', '/a/l2/outside/secret')]


def apply_seq_op(sess, op):
    kind, a, b = op
    if kind == 'symlink':
        # standard argument order on the wire: linkpath, then target
        return do_request(sess, 'symlink-at', a.encode(), b.encode())
    if kind == 'mkdir':
        return do_request(sess, 'mkdir', a.encode())
    return do_request(sess, 'rename', a.encode(), b.encode())


def seq_worker(job):
    prefixes = job
    acc = core.Acc()
    try:
        for prefix in prefixes:
            root, outside = make_tree(1)
            sentinel = fsmon.tree_digest(outside)
            sess = Session(root)
            try:
                mon = fsmon.start(root)
                try:
                    for op in prefix:
                        apply_seq_op(sess, op)
                    # structure reached (dedup key) and then every access from this state
                    state = fsmon.tree_digest(root)
                    found = {}
                    for kind, path in ACCESSES:
                        n0 = len(mon.violations)
                        replies = do_request(sess, kind, path.encode())
                        leak = leak_in_replies(replies, outside)
                        if len(mon.violations) > n0 or leak:
                            v = mon.violations[n0] if len(mon.violations) > n0 else ('reply', path, leak)
                            found.setdefault((kind, path), v)
                finally:
                    fsmon.stop()
                modified = fsmon.tree_digest(outside) != sentinel
                acc.add(core.digest(state), transitions=len(prefix) + len(ACCESSES), state=core.digest(state),
                        sample={'sequence': [list(o) for o in prefix]} if len(prefix) == 2 and prefix[0][1] == '..' else None)
                kinds = [o[0] for o in prefix]
                if 'symlink' in kinds and 'rename' in kinds[kinds.index('symlink'):]:
                    hist = 'relative-symlink-then-rename'      # a link (or its directory) is moved after creation
                else:
                    hist = '+'.join(kinds)
                for (kind, path), v in list(found.items())[:3]:
                    acc.violation('confine:escape-via-created-link:%s' % hist,
                                  'after %r the request %s %r touched %r (%s)' % (prefix, kind, path, v[2], v[0]),
                                  {'kind': 'seq', 'prefix': [list(o) for o in prefix]})
                if modified:
                    acc.violation('confine:outside-modified:%s' % '+'.join(o[0] for o in prefix),
                                  'after %r files outside the root changed' % (prefix,),
                                  {'kind': 'seq', 'prefix': [list(o) for o in prefix]})
            finally:
                sess.close()
    finally:
        shutil.rmtree(wdir(), ignore_errors=True)
    return acc


def main(tier, seed):
    t0 = core.now()
    os.makedirs(BASE, exist_ok=True)
    depth = 2 if tier == 'quick' else 3
    paths = path_alphabet(depth, os.path.join(BASE, 'X', 'outside'))
    jobs = []
    for tree in (1, 2, 3):
        pp = [p.replace(os.path.join(BASE, 'X'), '@W@') for p in paths]
        for kind in READONLY:
            for i in range(0, len(pp), 400):
                jobs.append((tree, [kind], pp[i:i + 400]))
        for kind in MUTATING:
            step = 150
            sub = pp if (tier == 'thorough' or tree == 1) else pp[::3]
            for i in range(0, len(sub), step):
                jobs.append((tree, [kind], sub[i:i + step]))
    acc = core.pmap(_single_dispatch, core.rotate(jobs, seed))
    n_single = acc.evaluations
    seqs = [()] + [(o,) for o in SEQ_OPS] + [(a, b) for a in SEQ_OPS for b in SEQ_OPS]
    if tier == 'thorough':
        core3 = [o for o in SEQ_OPS if o[0] == 'symlink' and o[1] in ('..', '../outside', '../..') and o[2] in ('/a/l2', '/a/l2/x', '/l2', '/l2/x', '/x')]
        seqs += [(a, b, c) for a in core3 for b in core3 for c in core3]
    sj = [seqs[i::64] for i in range(64)]
    acc.merge(core.pmap(seq_worker, core.rotate(sj, seed)))
    n_seq = acc.evaluations - n_single
    import c13_dl
    acc.merge(c13_dl.run(tier, seed))
    shutil.rmtree(BASE, ignore_errors=True)
    rule = ('(a) every path of <= %d components over {"", ".", "..", a, f, l, x, outside, secret} with 0-3 leading '
            'slashes and optional trailing slash (+ absolute spellings of the sentinel) x %d request kinds x 3 '
            'prepared trees under a monitor of every path-taking os call; BFS over sequences of <= 2 (thorough 3) '
            'symlink/mkdir/rename requests followed by 52 accesses, distinct states = distinct tree structures; '
            '(b) SCP sink and recursive SFTP get/mget against hostile record/listing sequences'
            % (depth, len(READONLY) + len(MUTATING)))
    return core.finish(PROP, tier, seed, 'model_checking', acc, t0, rule,
                       {'single_requests': n_single, 'sequence_states': n_seq,
                        'download_execs': acc.evaluations - n_single - n_seq},
                       assumptions=['links that exist before the session and point outside the root are followed by '
                                    'design (documented); the prepared trees contain none',
                                    'read-only metadata calls on ancestors of the root are allowed'])


def _single_dispatch(job):
    tree, kinds, pp = job
    w = wdir()
    return single_worker((tree, kinds, [p.replace('@W@', w) for p in pp]))


def replay(rep):
    r = rep['replay']
    os.makedirs(BASE, exist_ok=True)
    if r['kind'] == 'single':
        acc = single_worker((r['tree'], [r['req']], [r['path']]))
    elif r['kind'] == 'seq':
        acc = seq_worker([tuple(tuple(o) for o in r['prefix'])])
    else:
        import c13_dl
        acc = c13_dl.replay(r)
    print(json.dumps(acc.violations[:5], indent=1, default=repr))
    if acc.violations:
        print('VIOLATION property=%s replay=(given)' % PROP)
        return 1
    return 0
