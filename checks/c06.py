"""C06  Out-of-phase and injected messages never take effect.

Exhaustive phase x type x shape x role x strict-kex table: the independent refpeer
injects one message at every position of a scripted dialogue with a real asyncssh
endpoint; outcome must be "connection ends" or (where legal / RFC-prescribed)
"proceeds exactly like the un-injected baseline".
"""

import json

import asyncssh

import core
import pair as P
import refpeer as R
import rpharness as H
from vloop import Livelock

PROP = 'C06'

TYPES = list(range(1, 101)) + [192, 255]


def wellformed(t, role_sender):
    """Minimal legal body for message type t (as sent by role_sender)"""
    s, u32, b = R.string, R.u32, R.boolean
    body = {
        1: u32(11) + s('bye') + s(''),
        2: s(''),
        3: u32(0),
        4: b(False) + s('dbg') + s(''),
        5: s('ssh-userauth'),
        6: s('ssh-userauth'),
        7: u32(0),
        20: bytes(16) + b''.join(R.namelist([x]) for x in (
            'curve25519-sha256', 'ssh-ed25519', 'aes128-ctr', 'aes128-ctr', 'hmac-sha2-256',
            'hmac-sha2-256', 'none', 'none')) + R.namelist([]) + R.namelist([]) + b(False) + u32(0),
        21: b'',
        30: s(bytes(32)),
        31: s(s('ssh-ed25519') + s(bytes(32))) + s(bytes(32)) + s(s('ssh-ed25519') + s(bytes(64))),
        50: s('user') + s('ssh-connection') + s('none'),
        51: R.namelist(['password']) + b(False),
        52: b'',
        53: s('banner') + s(''),
        60: s('ssh-ed25519') + s(s('ssh-ed25519') + s(bytes(32))),
        61: u32(0),
        80: s('keepalive@openssh.com') + b(True),
        81: b'',
        82: b'',
        90: s('session') + u32(5) + u32(1000) + u32(1000),
        91: u32(0) + u32(5) + u32(1000) + u32(1000),
        92: u32(0) + u32(1) + s('no') + s(''),
        93: u32(0) + u32(10),
        94: u32(0) + s('x'),
        95: u32(0) + u32(1) + s('x'),
        96: u32(0),
        97: u32(0),
        98: u32(0) + s('env') + b(False) + s('A') + s('B'),
        99: u32(0),
        100: u32(0),
    }.get(t, b'')
    return R.byte(t) + body


GEX_BODIES = {30: R.u32(2048), 34: R.u32(2048) + R.u32(2048) + R.u32(2048), 32: R.mpint(2 ** 1000 + 12345),
              31: R.mpint(2 ** 2047 + 1) + R.mpint(2), 33: R.string(bytes(51)) + R.mpint(2 ** 1000) + R.string(bytes(83))}


def shapes(t, role_sender, gex=False):
    w = wellformed(t, role_sender)
    if gex and t in GEX_BODIES:
        w = R.byte(t) + GEX_BODIES[t]       # the same numbers mean other messages in a group exchange
    out = [('ok', w)]
    if len(w) > 1:
        out.append(('trunc', w[:-1]))
    out.append(('trail', w + b'\0'))
    return out


class InjectingPeer(R.RefPeer):
    """RefPeer that sends an extra payload right before its own k-th message of a type"""

    inject_before = None        # (msgtype, occurrence)
    inject_payloads = ()
    injected = False
    no_seq_reset = False

    def send(self, payload, **kw):
        if self.inject_before and not self.injected and payload:
            t = payload[0]
            cnt = self.__dict__.setdefault('_own_counts', {})
            if not kw.get('_inj'):
                cnt[t] = cnt.get(t, 0) + 1
                if (t, cnt[t]) == tuple(self.inject_before):
                    self.injected = True
                    for p in self.inject_payloads:
                        R.RefPeer.send(self, p)
        kw.pop('_inj', None)
        R.RefPeer.send(self, payload, **kw)

    def _send_newkeys(self):
        old_seq = self.send_dir.seq
        R.RefPeer._send_newkeys(self)
        if self.no_seq_reset and self.strict:
            self.send_dir.seq = (old_seq + 1) & 0xffffffff     # as if seq had NOT been reset


# ------------------------------------------------------------------ server under test
SRV_POSITIONS = ['pre-version', (20, 1), (30, 1), (21, 1), (5, 1), (50, 1), 'pending-auth',
                 (90, 1), (98, 1), 'end']
SRV_REKEY_POSITIONS = [(30, 2), (21, 2)]


class AsyncPwServer(P.RecServer):
    def validate_password(self, username, password):
        fut = self.conn._loop.create_future()
        self.env.setdefault('pending', []).append((fut, password == 'pw'))
        return fut


class KbdServer(AsyncPwServer):
    """authenticates through keyboard-interactive (the one method whose handler also processes packets)"""

    def password_auth_supported(self):
        return False

    def kbdint_auth_supported(self):
        return True

    def get_kbdint_challenge(self, username, lang, submethods):
        return '', '', '', [('Password:', False)]

    def validate_kbdint_response(self, username, responses):
        self.log.append(('validate_kbdint', tuple(responses)))
        return list(responses) == ['pw']


def run_server_kbd(pos, payloads, strict, **kw):
    return run_server(pos, payloads, strict, auth='kbdint', **kw)


def run_server_gex(pos, payloads, strict, **kw):
    """the first exchange is a Diffie-Hellman group exchange (REQUEST 34 -> GROUP 31, INIT 32 -> REPLY 33): more
    steps, each calling for exactly one message"""
    return run_server(pos, payloads, strict, kex='diffie-hellman-group-exchange-sha256', **kw)


def run_server_rekey(pos, payloads, strict, **kw):
    """the same dialogue with a complete re-exchange (started by the peer) between login and the first channel"""
    return run_server(pos, payloads, strict, rekey=True, **kw)


def run_server(pos, payloads, strict, rekey=False, no_seq_reset=False, seed=0, auth='password', kex=None):
    env = {}

    def on_start(sess):
        sess.chan.write(b'result')
        sess.chan.exit(3)
    env['session_factory'] = lambda: P.RecSession('srv', on_start=on_start)
    w = H.SrvWorld(seed=seed, env=env, server_factory=AsyncPwServer if auth == 'password' else KbdServer,
                   sopts=dict(login_timeout=120, **({'kex_algs': [kex]} if kex else {})))
    rp = InjectingPeer('client', strict=strict, **({'kex': (kex,)} if kex else {}))
    rp.rand = w.rp.rand
    w.rp = rp
    w.proto = R.RefProtocol(rp)
    w.rt, w.st = w.loop.make_pair(w.proto, w.conn, labels=('ref', 'server'))
    rp.no_seq_reset = no_seq_reset
    if isinstance(pos, (tuple, list)):
        rp.inject_before = tuple(pos)
        rp.inject_payloads = payloads
    obs = {'stalled': None}
    try:
        w.conn.connection_made(w.st)
        if pos == 'pre-version':
            d = R.Direction()
            w.loop.inject(w.st, b''.join(d.seal(p) for p in payloads))
            rp.recv_dir.seq += 0
            # injected bytes precede the version line; they do not consume refpeer seq numbers
        w.proto.connection_made(w.rt)
        w.flush()
        steps = [lambda: rp.send(rp.service_request()),
                 lambda: rp.send(rp.password_request('user', 'pw'))]
        if auth == 'kbdint':
            steps = [steps[0], lambda: rp.send(rp.userauth_request('user', 'keyboard-interactive', R.string('') + R.string(''))),
                     lambda: rp.send(R.byte(61) + R.u32(1) + R.string('pw'))]
        for st in steps:
            if rp.closed or w.server_closed() or rp.kex_done < 1:
                break
            st()
            w.flush()
        if pos == 'pending-auth' and not w.server_closed():
            for p in payloads:
                R.RefPeer.send(rp, p)
            w.flush()
        for fut, res in env.get('pending', []):
            if not fut.done():
                fut.set_result(res)
        w.flush()
        more = [lambda: rp.send(rp.channel_open_session(sender=0)),
                lambda: rp.send(rp.channel_request(0, 'exec', True, R.string('cmd')))]
        if rekey:
            more.insert(0, rp.send_kexinit)
        for st in more:
            if rp.closed or w.server_closed() or R.MSG_USERAUTH_SUCCESS not in rp.types():
                break
            st()
            w.flush()
        if pos == 'end' and not w.server_closed():
            for p in payloads:
                R.RefPeer.send(rp, p)
            w.flush()
    except Livelock as exc:
        obs['stalled'] = str(exc)
    except R.RefError as exc:
        obs['ref_error'] = str(exc)
    _expire_login(w)
    try:
        owner = w.owner
        sess = env.get('server_sessions', [])
        obs.update({
            'ended': w.server_closed(),
            'exc': type(getattr(owner, 'lost_exc', None)).__name__ if owner is not None and owner.lost else None,
            'authed': bool(w.conn._auth_complete),
            'user': w.conn.get_extra_info('username'),
            'server_log': [e for e in (owner.log if owner else [])],
            'sessions': [[e[:2] for e in s.log] for s in sess],
            'data': b''.join(R.Reader(p, 5).string() for t, p in rp.inbox if t == R.MSG_CHANNEL_DATA),
            'exit': [p for t, p in rp.inbox if t == R.MSG_CHANNEL_REQUEST][-1:] ,
            'session_id_same': w.conn._session_id == rp.session_id if rp.session_id else None,
            'unimplemented': rp.types().count(R.MSG_UNIMPLEMENTED),
            'auth_replies': (rp.types().count(R.MSG_USERAUTH_FAILURE), rp.types().count(R.MSG_USERAUTH_SUCCESS), rp.types().count(60)),
            'service_accepts': rp.types().count(6),
            'kex_counts': {t: rp.types().count(t) for t in set(rp.types()) if 20 <= t <= 49},
            'ref_error': obs.get('ref_error') or (str(w.proto.error) if w.proto.error else None),
            'loop_exc': [repr(c.get('exception') or c.get('message')) for c in w.loop.unretrieved()],
            'kex_done': rp.kex_done,
            'injected': rp.injected or not isinstance(pos, (tuple, list)),
        })
    finally:
        w.close()
    return obs


def _expire_login(w):
    """a session that never authenticated is ended by the login timer: let it fire"""
    try:
        if w.conn._transport is not None and not w.conn._auth_complete:
            for _ in range(3):
                if w.loop.next_timer() is None:
                    break
                w.loop.advance()
                w.loop.flush_all()
    except Livelock:
        pass


# ------------------------------------------------------------------ client under test
# own messages of the refpeer server: KEXINIT, ECDH_REPLY(31), NEWKEYS, SERVICE_ACCEPT,
# FAILURE (answer to 'none'), SUCCESS (answer to password), OPEN_CONFIRMATION, CHANNEL_SUCCESS
CLI_POSITIONS = ['pre-version', (20, 1), (31, 1), (21, 1), (6, 1), (51, 1), 'parked', (52, 1),
                 (91, 1), (99, 1), 'end']


def run_client(pos, payloads, strict, no_seq_reset=False, seed=0, rekey=False):
    pwfut = {}

    def password():
        fut = w.loop.create_future()
        pwfut['f'] = fut
        return fut
    w = H.CliWorld(seed=seed, copts=dict(password=password, preferred_auth='password', login_timeout=120))
    rp = InjectingPeer('server', strict=strict)
    rp.rand = w.rp.rand
    rp.on_message = w._on_message
    w.rp = rp
    w.proto = R.RefProtocol(rp)
    w.rt, w.ct = w.loop.make_pair(w.proto, w.conn, labels=('ref', 'client'))
    rp.no_seq_reset = no_seq_reset
    if isinstance(pos, (tuple, list)):
        rp.inject_before = tuple(pos)
        rp.inject_payloads = payloads
    obs = {'stalled': None}
    result = {}
    try:
        w.proto.connection_made(w.rt) if pos != 'pre-version' else None
        if pos == 'pre-version':
            d = R.Direction()
            w.conn.connection_made(w.ct)
            w.loop.inject(w.ct, b''.join(d.seal(p) for p in payloads))
            w.flush()
            w.proto.connection_made(w.rt)
        else:
            w.conn.connection_made(w.ct)
        w.flush()
        # client is now parked in the password callback (after 'none' got FAILURE)
        if pos == 'parked' and 'f' in pwfut and w.conn._transport is not None:
            for p in payloads:
                R.RefPeer.send(rp, p)
            w.flush()
        if 'f' in pwfut and not pwfut['f'].done():
            pwfut['f'].set_result('pw')
        w.flush()
        waiter = w.copt.waiter
        if rekey and waiter.done() and not waiter.cancelled() and waiter.exception() is None and not rp.closed:
            rp.send_kexinit()
            w.flush()
        if waiter.done() and not waiter.cancelled() and waiter.exception() is None:
            async def app():
                r = await w.conn.run('cmd', encoding=None, check=False)
                result['run'] = (r.exit_status, r.stdout)
            t = w.loop.create_task(app())
            w.flush()
            # refpeer answers the exec with data + exit-status + close
            if w.chan_opens and not rp.closed:
                sender = w.chan_opens[0][1]
                rp.send_app(rp.channel_data(sender, b'result'))
                rp.send_app(R.byte(R.MSG_CHANNEL_REQUEST) + R.u32(sender) + R.string('exit-status') +
                            R.boolean(False) + R.u32(3))
                rp.send_app(R.byte(R.MSG_CHANNEL_CLOSE) + R.u32(sender))
                w.flush()
            if pos == 'end' and w.conn._transport is not None:
                for p in payloads:
                    R.RefPeer.send(rp, p)
                w.flush()
            result['task_done'] = t.done()
            if t.done() and t.exception() is not None:
                result['task_exc'] = type(t.exception()).__name__
    except Livelock as exc:
        obs['stalled'] = str(exc)
    except R.RefError as exc:
        obs['ref_error'] = str(exc)
    _expire_login(w)
    try:
        owner = w.owner
        waiter = w.copt.waiter
        obs.update({
            'ended': w.conn._transport is None,
            'exc': type(getattr(owner, 'lost_exc', None)).__name__ if owner is not None and owner.lost else None,
            'authed': bool(w.conn._auth_complete),
            'connected': bool(waiter.done() and not waiter.cancelled() and waiter.exception() is None),
            'owner_log': list(owner.log) if owner else [],
            'run': result.get('run'),
            'task_done': result.get('task_done'),
            'session_id_same': w.conn._session_id == rp.session_id if rp.session_id else None,
            'auth_requests': [R.Reader(p, 1).string() and None or
                              _method(p) for t, p in rp.inbox if t == R.MSG_USERAUTH_REQUEST],
            'unimplemented': rp.types().count(R.MSG_UNIMPLEMENTED),
            'service_requests': rp.types().count(5),
            'kex_done': rp.kex_done,
            'ref_error': obs.get('ref_error') or (str(w.proto.error) if w.proto.error else None),
            'loop_exc': [repr(c.get('exception') or c.get('message')) for c in w.loop.unretrieved()],
            'injected': rp.injected or not isinstance(pos, (tuple, list)),
            'pw_asked': 'f' in pwfut,
        })
    finally:
        w.close()
    return obs


def run_client_rekey(pos, payloads, strict, **kw):
    return run_client(pos, payloads, strict, rekey=True, **kw)


def _method(p):
    r = R.Reader(p, 1)
    r.string()
    r.string()
    return r.string().decode()


# ------------------------------------------------------------------ oracle
INITIAL_KEX = {'pre-version', (20, 1), (30, 1), (31, 1), (21, 1), (34, 1), (32, 1)}
REKEY_KEX = {(30, 2), (31, 2), (21, 2)}


def legal(role_under_test, pos, t, strict):
    """Is message type t something the *peer's role* may legally send at this position
    (so that it may legitimately take effect)?"""
    pos = tuple(pos) if isinstance(pos, list) else pos
    if t == 1:
        return True                         # DISCONNECT is always legal: connection ends
    if pos == 'pre-version':
        return False
    if pos in INITIAL_KEX:
        if t in (2, 3, 4):
            return not strict               # ignored when not strict; fatal when strict
        # the message the dialogue calls for at this position (the harness's own copy then
        # arrives as a duplicate; both outcomes are the peer's own doing, not an injection effect)
        return t == pos[0]
    # after first NEWKEYS
    if t in (2, 3, 4):
        return True
    if pos in REKEY_KEX:
        # inside a re-exchange: the exchange's own next message; everything else as outside the exchange, where
        # the messages legal after login are hygiene-only (a peer may not send them between its KEXINIT and
        # NEWKEYS, but like OpenSSH asyncssh does not police the peer's sending discipline)
        if t == pos[0]:
            return True
        if t == 20 or 30 <= t <= 49:
            return False
    if t == 20:
        return True                         # re-exchange may start at any time
    if 30 <= t <= 49:
        return False
    if role_under_test == 'server':         # messages a client may send
        if pos == (5, 1):
            # the service request, or already an authentication request (asyncssh does not insist on the
            # service request coming first; the property admits "transport and authentication messages")
            return t in (5, 50)
        if pos == (50, 1) or pos == 'pending-auth':
            return t in (50,) or (pos == (50, 1) and t == 7)
        if pos == (61, 1):
            return t in (50, 61)        # the answer to the pending INFO_REQUEST, or a new request
        return t in (80, 81, 82) or 90 <= t <= 100 or t == 50
    else:                                   # messages a server may send
        if pos == (6, 1):
            return t in (6, 7)
        if pos in ((51, 1), (52, 1)):
            return t in (51, 52, 53) or 60 <= t <= 79
        if pos == 'parked':
            return t in (53,)
        return t in (7, 80, 81, 82) or 90 <= t <= 100 or t == 53
    return False


def strip(obs):
    o = dict(obs)
    for k in ('unimplemented', 'injected', 'stalled'):
        o.pop(k, None)
    return o


# positions before authentication completes: there the property admits authentication messages (a BANNER or a
# FAILURE nobody asked for changes nothing); EXT_INFO (7) is a transport message
PRE_AUTH = {(5, 1), (50, 1), 'pending-auth', (61, 1), (6, 1), (51, 1), 'parked', (52, 1)}


def judge(role, pos, t, shape, strict, obs, base):
    v = []
    if obs['loop_exc']:
        v.append(('loop-exception', obs['loop_exc'][0]))
    if obs['stalled']:
        v.append(('livelock', obs['stalled']))
    if not obs['injected']:
        return v            # dialogue ended before the position was reached: nothing injected
    pos_t = tuple(pos) if isinstance(pos, list) else pos
    if pos_t == 'pre-version':
        return v            # bytes before the version line are banner text, not messages: hygiene only
    same = strip(obs) == strip(base)
    if legal(role, pos, t, strict):
        # in-phase message (any shape): may legitimately be processed; hygiene only, except
        # that well-formed IGNORE/DEBUG/UNIMPLEMENTED must leave the session untouched
        if shape == 'ok' and t in (2, 3, 4) and not same and not obs['ended']:
            v.append(('ignored-message-changed-session',
                      'type %d must be ignored but the session differs: %s' % (t, _diff(obs, base))))
        return v
    if pos_t in INITIAL_KEX and pos_t != 'pre-version' and 'kex_counts' in obs:
        # whatever happens to the connection later, the endpoint must not have answered the out-of-phase message
        # with a further step of the exchange (a second GROUP, a REPLY, NEWKEYS)
        more = {t: n for t, n in obs['kex_counts'].items() if n > base.get('kex_counts', {}).get(t, 0)}
        if more:
            v.append(('took-effect', 'out-of-phase type %d (%s) at %r was answered with further key exchange messages %r'
                      % (t, shape, pos, more)))
    if strict and pos_t in INITIAL_KEX and pos_t != 'pre-version':
        if not obs['ended']:
            v.append(('strict-kex-not-fatal', 'type %d %s during the initial exchange with strict '
                      'kex did not end the connection' % (t, shape)))
        return v
    if obs['ended']:
        if obs.get('authed') and not base.get('authed'):
            v.append(('took-effect', 'authenticated then ended'))
        return v
    if not same:
        v.append(('took-effect', 'out-of-phase type %d (%s) at %r: connection stayed up and the '
                  'session differs from the baseline: %s' % (t, shape, pos, _diff(obs, base))))
    elif obs.get('unimplemented', 0) <= base.get('unimplemented', 0) and t not in (2, 3, 4, 7) and \
            not (50 <= t <= 79 and pos_t in PRE_AUTH):
        # neither fatal nor answered as unimplemented: the endpoint silently accepted a key exchange or
        # connection-protocol message that is not allowed here
        v.append(('silently-accepted', 'out-of-phase type %d (%s) at %r: the connection stayed up and no '
                  'UNIMPLEMENTED was sent' % (t, shape, pos)))
    return v


def _diff(obs, base):
    a, b = strip(obs), strip(base)
    return repr({k: (a[k], b.get(k)) for k in a if a[k] != b.get(k)})[:400]


# ------------------------------------------------------------------ workers
def runner_for(role):
    return {'server': run_server, 'server-kbd': run_server_kbd, 'server-rekey': run_server_rekey, 'server-gex': run_server_gex,
            'client': run_client, 'client-rekey': run_client_rekey}[role]


def worker(job):
    role, pos, strict, types = job
    acc = core.Acc()
    runner = runner_for(role)
    label_role, role = role, role.split('-')[0]
    base = runner(None, (), strict)
    if base['ended'] and role == 'server':
        pass
    for t in types:
        for shape, payload in shapes(t, 'client' if role == 'server' else 'server', gex=label_role.endswith('-gex')):
            obs = runner(pos, (payload,), strict)
            outcome = 'ended:%s' % obs['exc'] if obs['ended'] else \
                ('same' if strip(obs) == strip(base) else 'differs')
            acc.add(core.digest((label_role, str(pos), strict, t, shape, outcome)),
                    nontrivial=obs['injected'], transitions=1,
                    sample={'role_under_test': role, 'position': str(pos), 'strict': strict,
                            'type': t, 'shape': shape, 'outcome': outcome} if t in (52, 90) else None)
            acc.count('outcome:%s' % outcome.split(':')[0])
            for kind, detail in judge(role, pos, t, shape, strict, obs, base):
                acc.violation('phase:%s:%s:pos=%s:type=%d:%s:strict=%s' % (kind, label_role, pos, t, shape, strict),
                              detail, {'role': label_role, 'pos': pos, 'strict': strict, 'type': t,
                                       'shape': shape})
    return acc


def pair_worker(job):
    role, pos, strict, t1, types2 = job
    acc = core.Acc()
    runner = run_server if role == 'server' else run_client
    base = runner(None, (), strict)
    sender = 'client' if role == 'server' else 'server'
    p1 = wellformed(t1, sender)
    singles = {}

    def single(t):
        if t not in singles:
            singles[t] = runner(pos, (wellformed(t, sender),), strict)
        return singles[t]
    for t2 in types2:
        obs = runner(pos, (p1, wellformed(t2, sender)), strict)
        acc.add(core.digest((role, str(pos), strict, t1, t2, obs['ended'], obs['exc'])),
                nontrivial=obs['injected'], transitions=2)
        ok1 = legal(role, pos, t1, strict)
        ok2 = legal(role, pos, t2, strict)
        vs = []
        if obs['loop_exc']:
            vs.append(('loop-exception', obs['loop_exc'][0]))
        if obs['stalled']:
            vs.append(('livelock', obs['stalled']))
        if pos != 'pre-version' and obs['injected'] and not (ok1 and ok2) and not obs['ended']:
            # an out-of-phase message that does not end the connection has no effect: the session must look
            # like the one in which only the other (in-phase) message was sent, or like the baseline
            if not ok1 and not ok2:
                ref, what = base, 'the baseline'
            elif not ok1:
                ref, what = single(t2), 'the run with only type %d' % t2
            else:
                ref, what = single(t1), 'the run with only type %d' % t1
            if strip(obs) != strip(ref) and not ref['ended']:
                vs.append(('took-effect', 'pair (%d,%d) at %r differs from %s: %s' % (t1, t2, pos, what, _diff(obs, ref))))
        for kind, detail in vs:
            acc.violation('phase:%s:%s:pos=%s:pair=%d,%d:strict=%s' % (kind, role, pos, t1, t2, strict),
                          detail, {'role': role, 'pos': pos, 'strict': strict, 'pair': [t1, t2]})
    return acc


# ------------------------------------------------------------------ client authentication dialogue: SUCCESS only for an outstanding request
AUTH_EVENTS = ['ans:F', 'ans:P', 'ans:S', 'uns:F', 'uns:P', 'uns:S', 'uns:B', 'cb']


def auth_dialogue(events, seed=0):
    """Real client (password obtained from an async application callback, asked again after every
    failure) against a scripted server.  Events: ans:X answers the outstanding request with FAILURE /
    FAILURE(partial success) / SUCCESS; uns:X sends the same message (or a BANNER) while NO request is
    outstanding (the client is parked in its callback); cb lets the callback return a password.
    Returns None when the sequence is not enabled."""
    futs = []
    reqs = []
    st = {'answered': 0}

    class Cl(P.RecClient):
        def password_auth_requested(self):
            f = w.loop.create_future()
            futs.append(f)
            return f
    holder = {}

    def mk():
        holder['o'] = Cl()
        return holder['o']
    w = H.CliWorld(seed=seed, copts=dict(client_factory=mk, password=None, preferred_auth='password', login_timeout=0),
                   auto_auth=False)
    rp = w.rp

    def on_message(t, p):
        if t == R.MSG_SERVICE_REQUEST:
            rp.send(R.byte(R.MSG_SERVICE_ACCEPT) + p[1:])
        elif t == R.MSG_USERAUTH_REQUEST:
            reqs.append(_method(p))
    rp.on_message = on_message
    trace = []
    viol = []
    msgs = {'F': R.byte(R.MSG_USERAUTH_FAILURE) + R.namelist(['password']) + R.boolean(False),
            'P': R.byte(R.MSG_USERAUTH_FAILURE) + R.namelist(['password']) + R.boolean(True),
            'S': R.byte(R.MSG_USERAUTH_SUCCESS),
            'B': R.byte(R.MSG_USERAUTH_BANNER) + R.string('hello') + R.string('')}
    try:
        w.start()
        w.flush()
        for ev in events:
            if w.conn._transport is None or w.conn._auth_complete:
                return None                       # dialogue over: longer sequences add nothing
            outstanding = len(reqs) - st['answered']
            if ev == 'cb':
                pend = [f for f in futs if not f.done()]
                if not pend:
                    return None
                pend[0].set_result('pw')
            else:
                kind, m = ev.split(':')
                if (kind == 'ans') != (outstanding > 0):
                    return None
                if kind == 'ans':
                    st['answered'] += 1
                rp.send(msgs[m])
            w.flush()
            trace.append((ev, outstanding, len(reqs), bool(w.conn._auth_complete), w.conn._transport is None))
            if w.conn._auth_complete and ev != 'ans:S':
                viol.append(('success-accepted-without-outstanding-request',
                             'client considers itself authenticated after %r; requests sent %d, answered %d'
                             % (ev, len(reqs), st['answered'])))
            if ev == 'uns:S' and w.copt.waiter.done() and not w.copt.waiter.cancelled() and w.copt.waiter.exception() is None:
                viol.append(('connect-returned-on-unsolicited-success', 'connect() completed after an unsolicited SUCCESS'))
        if w.loop.unretrieved():
            viol.append(('loop-exception', repr(w.loop.exc_log[0].get('exception'))[:200]))
    except Livelock as exc:
        viol.append(('livelock', str(exc)))
    except R.RefError as exc:
        trace.append(('ref-error', str(exc)))
    finally:
        w.close()
    return {'trace': trace, 'viol': viol, 'reqs': list(reqs)}


def auth_worker(job):
    prefixes, depth = job
    acc = core.Acc()
    for pre in prefixes:
        frontier = [tuple(pre)]
        while frontier:
            seq = frontier.pop()
            obs = auth_dialogue(seq)
            if obs is None:
                continue
            acc.add(core.digest(('authdlg', seq)), transitions=1,
                    sample={'server_events': list(seq), 'client_requests': obs['reqs']} if seq[-3:] == ('ans:P', 'uns:S', 'cb') else None)
            for k, d in obs['viol']:
                acc.violation('phase:%s:%s' % (k, '>'.join(e.split(':')[-1] if e != 'cb' else 'cb' for e in seq[-3:])),
                              '%s ; events=%r' % (d, list(seq)), {'authdlg': list(seq)})
            if len(seq) < depth and not obs['viol']:
                for ev in AUTH_EVENTS:
                    frontier.append(seq + (ev,))
    return acc


def seqreset_checks():
    """strict kex: a peer that does NOT restart its sequence number at NEWKEYS must be rejected;
    without strict kex the same peer behaviour (continuing numbers) is the correct one."""
    acc = core.Acc()
    for role, runner in (('server', run_server), ('client', run_client)):
        obs = runner(None, (), True, no_seq_reset=True)
        acc.add(core.digest(('seqreset', role, obs['ended'], obs['exc'])), transitions=1,
                sample={'strict_peer_without_seq_reset': role, 'ended': obs['ended'], 'exc': obs['exc']})
        if not obs['ended'] or obs['authed']:
            acc.violation('phase:seq-not-reset-accepted:%s' % role,
                          'peer kept counting across NEWKEYS under strict kex and was accepted: %r'
                          % ({k: obs[k] for k in ('ended', 'exc', 'authed')},),
                          {'seqreset': role})
        base = runner(None, (), True)
        if base['ended'] or not base['authed']:
            acc.violation('phase:strict-baseline-failed:%s' % role, repr(base)[:300], {'seqreset': role})
    return acc


PAIR_TYPES = [1, 2, 3, 4, 5, 6, 7, 20, 21, 30, 31, 50, 51, 52, 53, 60, 80, 81, 82, 90, 91, 94, 98]


def main(tier, seed):
    t0 = core.now()
    jobs = []
    for strict in (True, False):
        for pos in SRV_POSITIONS:
            for i in range(0, len(TYPES), 17):
                jobs.append(('server', pos, strict, TYPES[i:i + 17]))
        for pos in CLI_POSITIONS:
            for i in range(0, len(TYPES), 17):
                jobs.append(('client', pos, strict, TYPES[i:i + 17]))
        # a server whose user logs in through keyboard-interactive: the exchange itself and everything after it
        for pos in [(50, 1), (61, 1), (90, 1), (98, 1), 'end']:
            for i in range(0, len(TYPES), 17):
                jobs.append(('server-kbd', pos, strict, TYPES[i:i + 17]))
        # the same dialogues with a complete re-exchange after login: inside it, and everything after it
        # (what the first exchange armed -- the service request, the extension negotiation -- must not be
        # armed again by a later one)
        for pos in [(34, 1), (32, 1), (21, 1)]:
            for i in range(0, len(TYPES), 17):
                jobs.append(('server-gex', pos, strict, TYPES[i:i + 17]))
        for role, poss in (('server-rekey', [(30, 2), (21, 2), (90, 1), (98, 1), 'end']),
                           ('client-rekey', [(31, 2), (21, 2), (91, 1), (99, 1), 'end'])):
            for pos in poss:
                for i in range(0, len(TYPES), 17):
                    jobs.append((role, pos, strict, TYPES[i:i + 17]))
    # determinism
    a = run_server((50, 1), (wellformed(90, 'client'),), True, seed=seed)
    b = run_server((50, 1), (wellformed(90, 'client'),), True, seed=seed)
    if a != b:
        print('HARNESS-NONDETERMINISM')
        return 2
    base_s = run_server(None, (), True)
    base_c = run_client(None, (), True)
    if not (base_s['authed'] and base_s['data'] == b'result' and base_c['authed'] and
            base_c['run'] == (3, b'result')):
        print('HARNESS-ERROR: baseline dialogue failed: %r %r' % (base_s, base_c))
        return 2
    acc = core.pmap(worker, core.rotate(jobs, seed))
    acc.merge(seqreset_checks())
    if True:
        pj = []
        ptypes = TYPES if tier == 'thorough' else [2, 4, 20, 21, 50, 52, 80, 90, 94]
        for strict in (True, False):
            for role, poss in (('server', SRV_POSITIONS), ('client', CLI_POSITIONS)):
                for pos in poss:
                    for t1 in ptypes:
                        pj.append((role, pos, strict, t1, ptypes))
        acc.merge(core.pmap(pair_worker, core.rotate(pj, seed), chunksize=4))
    # a guessed first key exchange packet (first_kex_packet_follows): a wrong guess is the one message the RFC tells
    # the receiver to ignore, with the session going on as if it had not been sent; a right guess is the exchange's
    # own message (checks/c02.py's independent-peer harness)
    import c02
    acc.merge(core.pmap(c02.guess_worker, c02.guess_jobs()))
    depth = 5 if tier == 'quick' else 8
    acc.merge(core.pmap(auth_worker, [([(a, b)], depth) for a in AUTH_EVENTS for b in AUTH_EVENTS]))
    rule = ('message type (1..100,192,255) x shape (well-formed, truncated, trailing byte) x position '
            '(%d server-side, %d client-side incl. pending auth request and client parked in an async '
            'password callback) x role under test x strict-kex on/off; thorough adds ordered pairs over '
            'a reduced type set; client authentication dialogue: every enabled sequence of <= %d server events from '
            '{answer with FAILURE / partial-success FAILURE / SUCCESS, the same unsolicited, BANNER, password callback '
            'returns}; distinct = distinct (role, position, strict, type, shape, outcome)'
            % (len(SRV_POSITIONS), len(CLI_POSITIONS), depth))
    return core.finish(PROP, tier, seed, 'model_checking', acc, t0, rule,
                       {'types': len(TYPES), 'positions_server': [str(p) for p in SRV_POSITIONS],
                        'positions_client': [str(p) for p in CLI_POSITIONS]},
                       assumptions=['legal-at-position table written from RFC 4253/4252/4254 and the '
                                    'strict-kex extension; messages legal at a position are only checked '
                                    'for hygiene (no hang, no loop exception)'])


def replay(rep):
    r = rep['replay']
    if r.get('kind') == 'guess':
        import c02
        acc = c02.guess_worker([tuple(r['item'])])
        print(json.dumps(acc.violations, indent=1, default=repr))
        if acc.violations:
            print('VIOLATION property=%s replay=(given)' % PROP)
            return 1
        return 0
    if 'authdlg' in r:
        obs = auth_dialogue(tuple(r['authdlg']))
        print(json.dumps(obs, indent=1, default=repr))
        if obs and obs['viol']:
            print('VIOLATION property=%s replay=(given)' % PROP)
            return 1
        return 0
    if 'seqreset' in r:
        acc = seqreset_checks()
        print(json.dumps(acc.violations, indent=1, default=repr))
        return 1 if acc.violations else 0
    runner = runner_for(r['role'])
    sender = 'client' if r['role'].startswith('server') else 'server'
    pos = tuple(r['pos']) if isinstance(r['pos'], list) else r['pos']
    base = runner(None, (), r['strict'])
    if 'pair' in r:
        acc = pair_worker((r['role'], pos, r['strict'], r['pair'][0], [r['pair'][1]]))
        obs = {}
        v = [(x['signature'], x['detail']) for x in acc.violations]
    else:
        payload = dict(shapes(r['type'], sender, gex=r['role'].endswith('-gex')))[r['shape']]
        obs = runner(pos, (payload,), r['strict'])
        v = judge(r['role'].split('-')[0], pos, r['type'], r['shape'], r['strict'], obs, base)
    print(json.dumps({'replay': r, 'observation': obs, 'violations': v}, indent=1, default=repr))
    if v:
        print('VIOLATION property=%s replay=(given)' % PROP)
        return 1
    return 0
