"""C09  Everything terminates: no hung waiter, one orderly close.

Deviation-bounded DFS over (packet delivery order x crash/close action x crash
point) for a set of client programs with outstanding awaits against a set of server
behaviours, real<->real.  Oracles: (1) once CLOSE went both ways the channel is
gone and its waiters are resolved while the connection stays up; (2) after the
connection is lost every awaited future is done, callback words are legal, close
notifications are delivered exactly once, nothing stays registered.
"""

import asyncio
import json
import os
import re
import shutil

import asyncssh

import core
import pair as P
from vloop import EOF, Livelock

PROP = 'C09'
W = 64          # channel window used by the scenarios

SCRATCH = '/dev/shm/asyncssh-verif-c09-%d' % os.getpid()       # unique per check run (workers are forked later)


# ------------------------------------------------------------------ server behaviours
class SrvSession(P.RecSession):
    mode = 'echo'

    def exec_requested(self, command):
        self._ev('exec', command)
        if self.mode == 'reject':
            return False
        if self.mode == 'close-on-exec':
            self.chan.close()
            return True
        return True

    def shell_requested(self):
        return self.exec_requested('')

    def session_started(self):
        self._ev('started')
        if self.mode == 'exit-now':
            self.chan.write(b'y' * (2 * W + 5))
            self.chan.exit(4)
        elif self.mode == 'write-eof':
            self.chan.write(b'z' * 10)
            self.chan.write_eof()

    def data_received(self, data, datatype):
        P.RecSession.data_received(self, data, datatype)
        if self.mode == 'noread' and self.chan is not None:
            # an application that stops reading after the first chunk: what the client writes beyond the window
            # stays queued there
            self.chan.pause_reading()
        if self.mode == 'echo' and self.chan is not None:
            try:
                self.chan.write(data)
            except OSError:
                pass

    def eof_received(self):
        P.RecSession.eof_received(self)
        if self.mode == 'echo':
            self.chan.exit(0)
            return False
        return True


def server_modes(tier):
    return ['echo', 'silent', 'reject', 'close-on-exec', 'exit-now', 'write-eof', 'noread']


# ------------------------------------------------------------------ client programs
class World:
    def __init__(self, prog, mode, seed=0):
        self.loop = P.fresh(seed)
        P.install_wire_labels()
        self.prog, self.mode = prog, mode
        self.tasks = {}
        self.csess = []
        self.cchan = []
        self.used = set()

        def mk():
            s = SrvSession('srv')
            s.mode = mode
            return s
        self.env = {'session_factory': mk}
        sopts = dict(encoding=None, window=W, max_pktsize=W // 2)
        if prog in ('sftp', 'sftp-cancel'):
            os.makedirs(SCRATCH, exist_ok=True)
            with open(os.path.join(SCRATCH, 'f'), 'wb') as f:
                f.write(b'q' * 300)
            sopts['sftp_factory'] = lambda chan: asyncssh.SFTPServer(chan, chroot=SCRATCH)
        if prog in ('rfwd', 'rfwd-close'):
            class Srv(P.RecServer):
                def server_requested(self, listen_host, listen_port):
                    return True
            sopts['server_factory'] = lambda: self._mk_srv(Srv)
        if prog in ('rfwd2', 'rfwd-timeout'):
            # the server application takes (virtual) time to decide: several global requests stay outstanding
            class Srv(P.RecServer):
                async def server_requested(self, listen_host, listen_port):
                    await asyncio.sleep(30)
                    return listen_port != 8023
            sopts['server_factory'] = lambda: self._mk_srv(Srv)
        self.pair = P.Pair(self.loop, sopts=sopts, env=self.env)
        if getattr(self, '_srv_owner', None) is not None:
            self.pair.server_owner = self._srv_owner

    def _mk_srv(self, cls):
        self._srv_owner = cls(self.env)
        return self._srv_owner

    def start(self):
        self.pair.handshake()
        conn = self.pair.c
        loop = self.loop
        self.tasks['conn.wait_closed'] = loop.create_task(conn.wait_closed())
        self.tasks['srv.wait_closed'] = loop.create_task(self.pair.s.wait_closed())
        p = getattr(self, 'prog_' + self.prog.replace('-', '_'))
        self.tasks['main'] = loop.create_task(p(conn))

    def _sess(self):
        s = P.RecSession('cli')
        self.csess.append(s)
        return s

    async def prog_exec(self, conn):
        chan, sess = await conn.create_session(self._sess, 'cmd', encoding=None, window=W,
                                               max_pktsize=W // 2)
        self.cchan.append(chan)
        chan.write(b'a' * 10)
        chan.write_eof()
        await chan.wait_closed()

    async def prog_stream(self, conn):
        w, r, e = await conn.open_session('cmd', encoding=None, window=W, max_pktsize=W // 2)
        self.cchan.append(w.channel)
        w.channel.set_write_buffer_limits(high=W)
        w.write(b'b' * (6 * W))
        self.tasks['drain'] = self.loop.create_task(w.drain())
        self.tasks['read'] = self.loop.create_task(r.read())
        self.tasks['readerr'] = self.loop.create_task(e.readline())
        await w.channel.wait_closed()

    async def prog_run(self, conn):
        await conn.run('cmd', input=b'c' * 20, encoding=None, check=False)

    async def prog_sftp(self, conn):
        sftp = await conn.start_sftp_client()
        self.tasks['stat'] = self.loop.create_task(sftp.stat('f'))
        f = await sftp.open('f', 'rb')
        self.tasks['read'] = self.loop.create_task(f.read(300, 0))
        self.tasks['stat2'] = self.loop.create_task(sftp.stat('nonexistent'))
        await sftp.wait_closed()

    async def prog_sftp_cancel(self, conn):
        """an earlier request was abandoned by its caller (timeout / cancellation) and is still unanswered
        when later requests are pending and the session ends"""
        sftp = await conn.start_sftp_client()
        f = await sftp.open('f', 'rb')
        gone = self.loop.create_task(sftp.stat('f'))
        await asyncio.sleep(0)
        gone.cancel()
        self.tasks['stat'] = self.loop.create_task(sftp.stat('f'))
        self.tasks['read'] = self.loop.create_task(f.read(300, 0))
        try:
            await asyncio.wait_for(sftp.lstat('f'), 5)
        except (asyncio.TimeoutError, asyncssh.Error, OSError):
            pass
        self.tasks['stat2'] = self.loop.create_task(sftp.stat('nonexistent'))
        await sftp.wait_closed()

    async def prog_rfwd(self, conn):
        lst = await conn.forward_remote_port('127.0.0.1', 0, 'localhost', 22)
        self.listener = lst
        await lst.wait_closed()

    async def prog_rfwd_close(self, conn):
        """the listener is closed by the application: its cancel request is in flight when the connection goes"""
        lst = await conn.forward_remote_port('127.0.0.1', 0, 'localhost', 22)
        self.listener = lst
        lst.close()
        await lst.wait_closed()

    async def prog_rfwd2(self, conn):
        async def one(port):
            try:
                lst = await conn.forward_remote_port('', port, 'localhost', 22)
            except asyncssh.ChannelListenError:
                return
            await lst.wait_closed()
        self.tasks['fwd-b'] = self.loop.create_task(one(8023))
        self.tasks['fwd-c'] = self.loop.create_task(one(8024))
        await one(8022)

    async def prog_rfwd_timeout(self, conn):
        """the application gives up on a global request (the server is slow to answer): the abandoned request is
        still the oldest outstanding one when the reply, a close or the loss of the connection comes"""
        try:
            lst = await asyncio.wait_for(conn.forward_remote_port('', 8022, 'localhost', 22), 5)
        except (asyncio.TimeoutError, asyncssh.Error):
            try:
                self.tasks['after'] = self.loop.create_task(conn.run('cmd', encoding=None, check=False))
            except asyncssh.Error:
                pass
            return
        await lst.wait_closed()

    async def prog_two(self, conn):
        t1 = self.loop.create_task(self.prog_exec(conn))
        self.tasks['second'] = t1
        await self.prog_stream(conn)

    # -- actions that may be injected at any quiescent point -----------------
    def actions(self):
        a = []
        c, s = self.pair.c, self.pair.s

        def add(name, fn):
            if name not in self.used:
                a.append((name, fn))
        if self.pair.ct.lost or self.pair.st.lost:
            return a
        add('cut', lambda: self.loop.cut(self.pair.ct))
        add('c.close', c.close)
        add('c.abort', c.abort)
        add('c.disconnect', lambda: c.disconnect(11, 'bye'))
        add('s.close', s.close)
        add('s.abort', s.abort)
        for i, ch in enumerate(self.cchan[:1]):
            if ch._send_state not in ('closed',):
                add('cchan.close', ch.close)
                add('cchan.abort', ch.abort)
        ss = self.env.get('server_sessions', [])
        for sess in ss[:1]:
            if sess.chan is not None and not sess.lost:
                add('schan.close', sess.chan.close)
                add('schan.abort', sess.chan.abort)
                if sess.chan._send_state == 'open':
                    add('schan.exit', lambda ch=sess.chan: ch.exit(9))
        return a

    def close(self):
        P.done(self.loop)


LEGAL_WORD = re.compile(r'^(M[GSDX]*(E[GXS]*)?L)?$')


def word(sess):
    out = ''
    for e in sess.log:
        out += {'made': 'M', 'started': 'S', 'data': 'D', 'eof': 'E', 'lost': 'L',
                'exit_status': 'X', 'exit_signal': 'X', 'exec': 'G', 'shell': 'G',
                'subsystem': 'G', 'pty': 'G', 'signal': 'G', 'break': 'G', 'winch': 'G',
                'soft_eof': 'G'}.get(e[0], '?')
    return out


def run(cfg, chooser):
    prog, mode = cfg
    w = World(prog, mode)
    loop, pair = w.loop, w.pair
    trace = []
    viol = []
    closes = {'cs': 0, 'sc': 0}         # CHANNEL_CLOSE packets delivered per direction
    try:
        w.start()
        steps = 0
        while True:
            loop.quiesce()
            opts = []
            for name, t in (('cs', pair.st), ('sc', pair.ct)):
                if t in loop.deliverable():
                    opts.append(('deliver', name, t))
            if not opts and loop.pending_jobs():
                loop.fire_job(0)
                continue
            acts = w.actions()
            if not opts and not any(True for _ in ()):   # nothing in flight
                # quiescent with the connection still up: actions are still possible
                pass
            menu = opts + [('act', n, f) for n, f in acts]
            if loop.next_timer() is not None and not (pair.ct.lost or pair.st.lost):
                menu.append(('timer', 'fire', None))        # the next virtual timer fires now
            if not opts:
                # default at a fully quiescent point: stop (the final cut follows)
                menu = [('stop', None, None)] + menu
            k = chooser.choose(len(menu), label=[m[0] + ':' + str(m[1]) for m in menu])
            kind, name, obj = menu[k]
            if kind == 'stop':
                break
            trace.append('%s:%s' % (kind, name))
            if kind == 'timer':
                loop.advance()
            elif kind == 'deliver':
                head = [c for c in obj.peer.outq if c is EOF or c.label != 2][:1]
                if head and head[0] is not EOF and head[0].label == 97:
                    closes[name] += 1
                P.deliver_packet(loop, obj)
            else:
                w.used.add(name)
                obj()
            steps += 1
            if steps > 3000:
                raise Livelock('schedule too long')
        # ---- oracle 1: connection still up, channel closed both ways -------
        c_up = pair.c._transport is not None and pair.s._transport is not None
        single = prog not in ('two', 'sftp', 'sftp-cancel', 'rfwd', 'rfwd-close', 'rfwd2', 'rfwd-timeout')
        # a side whose application has reading paused with data still buffered keeps its channel until it reads on:
        # close is delivered after the data, not instead of it
        holding = [s_ for s_ in w.env.get('server_sessions', []) if s_.chan is not None and s_.chan._recv_paused and s_.chan._recv_buf]
        if c_up and single and closes['cs'] >= 1 and closes['sc'] >= 1:
            if pair.c._channels or (pair.s._channels and not holding):
                viol.append(('channel-registered-after-close',
                             'CLOSE delivered both ways, connection up, channels still registered: '
                             'client=%r server=%r' % (list(pair.c._channels), list(pair.s._channels))))
            for nm in ('main', 'drain', 'read', 'readerr'):
                t = w.tasks.get(nm)
                if t is not None and not t.done():
                    viol.append(('waiter-hung-after-channel-close', 'task %r still pending after the '
                                 'channel was closed by both sides' % nm))
            for s in w.csess + w.env.get('server_sessions', []):
                if s.lost != 1 and s not in holding:
                    viol.append(('session-close-count', '%s session saw connection_lost %d times '
                                 'after close handshake' % (s.name, s.lost)))
        # ---- oracle 1b: abort() ends a channel whatever state it was in (data queued behind a closed window, a
        # close() already pending): with the connection up and nothing in flight it is gone on the side that
        # aborted and that side's waiters are released (the other side may keep it while ITS application has
        # reading paused with data still buffered)
        if c_up and single and (w.cchan or w.csess):
            for act, side, conn in (('cchan.abort', 'client', pair.c), ('schan.abort', 'server', pair.s)):
                if act in w.used and conn._channels:
                    viol.append(('channel-left-after-abort', '%s called abort(), nothing is in flight, its channel is still registered: %r'
                                 % (side, list(conn._channels))))
            if 'cchan.abort' in w.used:
                for nm in ('main', 'drain', 'read', 'readerr'):
                    t = w.tasks.get(nm)
                    if t is not None and not t.done():
                        viol.append(('waiter-hung-after-abort', 'task %r still pending after abort()' % nm))
        pre = {k: t.done() for k, t in w.tasks.items()}
        # ---- final: lose the connection, fire all timers, everything must end ----
        if not pair.ct.lost:
            loop.cut(pair.ct)
        loop.flush_all()
        for _ in range(20):
            if loop.next_timer() is None:
                break
            loop.advance()
            loop.flush_all()
        for nm, t in w.tasks.items():
            if not t.done():
                viol.append(('waiter-hung', 'task %r still pending after the connection was lost' % nm))
        for s in w.csess + w.env.get('server_sessions', []):
            wd = word(s)
            if s.chan is None and not s.log:
                continue
            if s.lost != 1 and 'M' in wd:
                viol.append(('session-close-count', '%s session: connection_lost x%d, word %s'
                             % (s.name, s.lost, wd)))
            if s.after_lost:
                viol.append(('callback-after-close', '%s session: %d callbacks after connection_lost, '
                             'word %s' % (s.name, s.after_lost, wd)))
            if not LEGAL_WORD.match(wd):
                viol.append(('illegal-callback-order', '%s session word %s' % (s.name, wd)))
        for side, owner in (('client', pair.client_owner), ('server', pair.server_owner)):
            if owner is not None and owner.lost != 1:
                viol.append(('owner-close-count', '%s owner connection_lost x%d' % (side, owner.lost)))
        for side, conn in (('client', pair.c), ('server', pair.s)):
            if conn._channels:
                viol.append(('channel-registered-on-closed-connection', '%s: %r' % (side, list(conn._channels))))
            if conn._local_listeners:
                viol.append(('listener-registered-on-closed-connection', side))
            if conn._global_request_waiters:
                viol.append(('global-request-waiter-left', side))
        if loop.listeners:
            viol.append(('listener-leaked', repr(list(loop.listeners))))
        pend = [t for t in loop.pending_tasks()]
        if pend:
            viol.append(('task-pending', repr([getattr(t.get_coro(), '__qualname__', '?') for t in pend])[:300]))
        exc = loop.unretrieved()
        if exc:
            viol.append(('loop-exception', repr(exc[0].get('exception') or exc[0].get('message'))[:300]))
        return {'trace': trace, 'viol': viol, 'pre': pre, 'steps': steps}
    except Livelock as exc:
        return {'trace': trace, 'viol': [('livelock', str(exc))], 'pre': {}, 'steps': 0}
    finally:
        w.close()


# ------------------------------------------------------------------ connect() itself as the pending operation
CONNECT_ENDINGS = ['cut', 'server-eof', 'client-eof', 'server-abort', 'server-close', 'silence', 'listener-closed-and-cut']


def connect_case(k, ending, then_run):
    """asyncssh.connect() against asyncssh.listen() over the virtual network; after k deliveries the
    environment misbehaves.  connect() (and the run() that follows it) must return or raise -- with the
    login timers as the last resort -- and nothing may be left running on either side."""
    loop = P.fresh(0)
    P.install_wire_labels()
    viol = []
    env = {}
    try:
        async def srv():
            return await asyncssh.listen('srv.example', 22, server_factory=lambda: P.RecServer(env),
                                         server_host_keys=[P.key('host')], login_timeout=40, keepalive_interval=0)
        t = loop.create_task(srv())
        loop.flush_all()
        lst = t.result()
        out = {}

        async def cli():
            conn = await asyncssh.connect('srv.example', 22, known_hosts=None, username='user', password='pw',
                                          client_keys=None, agent_path=None, config=None, login_timeout=30,
                                          keepalive_interval=0, kex_algs=['curve25519-sha256'])
            out['conn'] = conn
            if then_run:
                try:
                    out['run'] = await conn.run('cmd', check=False, encoding=None)
                finally:
                    conn.close()
                    await conn.wait_closed()
            return conn
        ct = loop.create_task(cli())
        steps = 0
        acted = False
        silent = False
        while True:
            loop.quiesce()
            if steps == k and not acted:
                acted = True
                trs = [x for x in loop.transports if not x.lost]
                cside = [x for x in trs if x.label.startswith('c>')]
                sside = [x for x in trs if x.label.startswith('s<')]
                sconns = [x.protocol for x in sside if hasattr(x.protocol, 'abort')]
                if ending == 'cut' and cside:
                    loop.cut(cside[0])
                elif ending == 'server-eof' and cside:
                    cside[0].peer.outq.clear()
                    loop.call_soon(loop._deliver_eof, cside[0])
                elif ending == 'client-eof' and sside:
                    sside[0].peer.outq.clear()
                    loop.call_soon(loop._deliver_eof, sside[0])
                elif ending == 'server-abort' and sconns:
                    sconns[0].abort()
                elif ending == 'server-close' and sconns:
                    sconns[0].close()
                elif ending == 'listener-closed-and-cut':
                    lst.close()
                    if cside:
                        loop.cut(cside[0])
                elif ending == 'silence':
                    # nothing is delivered any more: only the timers can end the wait
                    for x in trs:
                        x.paused = True
                    for _ in range(6):
                        loop.quiesce()
                        if loop.next_timer() is None:
                            break
                        loop.advance()
                    loop.quiesce()
                    silent = True
                    break
                continue
            d = loop.deliverable()
            if not d:
                if loop.pending_jobs():
                    loop.fire_job(0)
                    continue
                break
            loop.deliver(d[0])
            steps += 1
            if steps > 3000:
                raise Livelock('too many deliveries')
        for _ in range(6):
            loop.quiesce()
            if loop.next_timer() is None or ct.done():
                break
            loop.advance()
            try:
                loop.flush_all()
            except Livelock:
                raise
        if silent and (ct.done() or 'conn' in out):
            # the login completed before everything fell silent: with keepalives off nothing obliges either
            # side to notice; waiting is legitimate and the paused pipes cannot carry a close
            ct.cancel()
            try:
                loop.quiesce()
            except Livelock:
                pass
            return {'viol': [], 'steps': steps, 'outcome': 'logged-in-before-silence'}
        if not ct.done():
            viol.append(('connect-hangs', 'connect()%s still pending after %s at step %d and all timers' % ('+run()' if then_run else '', ending, k)))
        else:
            exc = ct.exception() if not ct.cancelled() else 'cancelled'
            out['exc'] = type(exc).__name__ if exc else None
            if exc is None and not then_run:
                conn = ct.result()
                conn.close()
                loop.flush_all()
        lst.close()
        loop.flush_all()
        for _ in range(4):
            if loop.next_timer() is None:
                break
            loop.advance()
            loop.flush_all()
        pend = loop.pending_tasks()
        if pend:
            viol.append(('task-pending', repr([getattr(x.get_coro(), '__qualname__', '?') for x in pend])[:300]))
        live = [x.label for x in loop.transports if not x.lost and not x.closing]
        if live and not silent:
            viol.append(('transport-left-open', repr(live)))
        owner_lost = [s.lost for s in env.get('servers', [])]
        exc = loop.unretrieved()
        if exc:
            viol.append(('loop-exception', repr(exc[0].get('exception') or exc[0].get('message'))[:300]))
        return {'viol': viol, 'steps': steps, 'outcome': out.get('exc', 'pending' if not ct.done() else None)}
    except Livelock as exc:
        return {'viol': [('livelock', str(exc))], 'steps': 0, 'outcome': 'livelock'}
    finally:
        P.done(loop)


def connect_worker(job):
    acc = core.Acc()
    for k, ending, then_run in job:
        obs = connect_case(k, ending, then_run)
        acc.add(core.digest(('connect', k, ending, then_run, obs['outcome'])), transitions=obs['steps'] + 1,
                sample={'connect_interrupted_after': k, 'by': ending, 'then_run': then_run, 'connect_outcome': obs['outcome']}
                if k == 7 and ending in ('silence', 'cut') else None)
        acc.count('connect-outcome:%s' % obs['outcome'])
        for kind, detail in obs['viol']:
            acc.violation('term:%s:connect:%s%s' % (kind, ending, ':run' if then_run else ''), '%s ; k=%d' % (detail, k),
                          {'connect': [k, ending, then_run]})
    return acc


def connect_jobs():
    cases = [(k, e, r) for r in (False, True) for e in CONNECT_ENDINGS for k in range(0, 34 if r else 26)]
    return [cases[i::32] for i in range(32)]


# ------------------------------------------------------------------ waiting on a process whose output was left unread
LATE_APIS = ['wait', 'communicate', 'read-all', 'wait_closed', 'run-like', 'collect-poll', 'close']


def late_wait_case(n, k, api):
    """A process is created and left alone for k deliveries (nothing reads its output, which may fill the stream
    buffer and pause the channel); then the application waits for it.  The peer exits on its own: the wait
    must end, with the complete output and the exit status."""
    W = 64
    loop = P.fresh(0)
    P.install_wire_labels()
    viol = []
    out_data = bytes((i * 3 + 1) % 251 for i in range(n))
    err_data = bytes((i * 5 + 2) % 241 for i in range(n // 2))
    try:
        async def handler(process):
            process.stdout.write(out_data)
            process.stderr.write(err_data)
            process.exit(7)
        pair = P.Pair(loop, sopts=dict(process_factory=handler, encoding=None))
        pair.handshake()
        st, res = {}, {}

        async def client():
            st['p'] = await pair.c.create_process('x', encoding=None, window=W, max_pktsize=W // 2)
        t = loop.create_task(client())

        async def waiter():
            p = st['p']
            if api == 'wait':
                r = await p.wait()
                res['out'], res['err'], res['status'] = r.stdout, r.stderr, r.exit_status
            elif api == 'communicate':
                o, e = await p.communicate()
                res['out'], res['err'], res['status'] = o, e, p.exit_status
            elif api == 'read-all':
                # both streams at once: reading one to EOF while the other fills the shared buffer is the
                # application's own deadlock, like with OS pipes
                o, e = await asyncio.gather(p.stdout.read(), p.stderr.read())
                await p.wait_closed()
                res['out'], res['err'], res['status'] = o, e, p.exit_status
            elif api == 'wait_closed':
                await p.wait_closed()
                o, e = p.collect_output()
                res['out'], res['err'], res['status'] = None, None, p.exit_status
            elif api == 'close':
                # the application loses interest: close() and wait for it, whatever is still unread or on its way
                p.close()
                await p.wait_closed()
                res['out'], res['err'], res['status'] = None, None, p.exit_status
            elif api == 'collect-poll':
                # an application that looks at the output so far after every packet (collect_output), then waits
                o, e = b'', b''
                while not p.is_closing():
                    co, ce = p.collect_output()
                    o, e = o + co, e + ce
                    st['tick'] = loop.create_future()
                    await st['tick']
                co, ce = p.collect_output()
                o, e = o + co, e + ce
                await p.wait_closed()           # what was still queued behind a full buffer arrives before the close
                co, ce = p.collect_output()
                res['out'], res['err'], res['status'] = o + co, e + ce, p.exit_status
            else:
                o = await p.stdout.read(min(10, n))
                r = await p.wait()
                res['out'], res['err'], res['status'] = o + r.stdout, r.stderr, r.exit_status

        def tick():
            f = st.get('tick')
            if f is not None and not f.done():
                f.set_result(None)
        steps = 0
        wt = None
        while True:
            loop.quiesce()
            if wt is None and t.done() and steps >= k:
                wt = loop.create_task(waiter())
                loop.quiesce()
            opts = [x for x in (pair.ct, pair.st) if x in loop.deliverable()]
            if not opts:
                if wt is None and t.done():
                    wt = loop.create_task(waiter())
                    continue
                if api == 'collect-poll' and not st.get('final'):
                    st['final'] = True
                    tick()
                    continue
                break
            P.deliver_packet(loop, opts[0])
            loop.quiesce()
            tick()
            if t.done():
                steps += 1
            if steps > 5000:
                raise Livelock('too many deliveries')
        if wt is None or not wt.done():
            if api == 'wait_closed' and wt is not None:
                # nobody reads: the channel cannot close while output is window-blocked; legitimate
                pass
            else:
                p = st.get('p')
                viol.append(('waiter-hung', '%s() still pending although the peer wrote %d bytes, exited and nothing else is in flight '
                             '(called after %d deliveries; stream buffer %s bytes)'
                             % (api, n, k, getattr(p, '_recv_buf_len', '?') if p else '?')))
        elif wt.exception() is not None:
            viol.append(('waiter-raised', '%s: %r' % (api, wt.exception())))
        elif res.get('out') is not None:
            if res['out'] != out_data or res['err'] != err_data:
                viol.append(('output-incomplete', '%s returned %d/%d stdout and %d/%d stderr bytes' % (api, len(res['out']), n, len(res['err']), len(err_data))))
            if res['status'] != 7 and api != 'close':
                viol.append(('exit-status-lost', repr(res['status'])))
        exc = loop.unretrieved()
        if exc:
            viol.append(('loop-exception', repr(exc[0].get('exception') or exc[0].get('message'))[:300]))
        return {'viol': viol, 'steps': steps}
    except Livelock as exc:
        return {'viol': [('livelock', str(exc))], 'steps': 0}
    finally:
        P.done(loop)


def late_wait_worker(job):
    acc = core.Acc()
    for n, k, api in job:
        obs = late_wait_case(n, k, api)
        acc.add(core.digest(('late-wait', n, k, api)), transitions=obs['steps'] + 1,
                sample={'process_output_bytes': n, 'waited_after_deliveries': k, 'api': api} if n == 200 and k == 9 and api == 'wait' else None)
        for kind, detail in obs['viol']:
            acc.violation('term:%s:late-%s' % (kind, api), '%s ; n=%d k=%d' % (detail, n, k), {'late_wait': [n, k, api]})
    return acc


def late_wait_jobs():
    cases = [(n, k, api) for api in LATE_APIS for n in (10, 63, 64, 65, 200, 400) for k in range(0, 24)]
    return [cases[i::16] for i in range(16)]


def worker(job):
    cfg, bound, prefix = job
    acc = core.Acc()

    def check(obs, ch):
        dev = [t for t in obs['trace'] if t.startswith('act:')]
        acc.add(core.digest((cfg, tuple(obs['trace']))), nontrivial=bool(ch.labels()),
                transitions=obs['steps'],
                sample={'program': cfg[0], 'server': cfg[1], 'schedule': obs['trace']}
                if len(dev) == 2 else None)
        for kind, detail in obs['viol']:
            acc.violation('term:%s:%s:%s:%s' % (kind, cfg[0], cfg[1], ','.join(dev) or 'no-action'),
                          detail + ' ; schedule=' + ' '.join(obs['trace'])[:600],
                          {'cfg': list(cfg), 'choices': ch.choices})
    core.explore_dfs(lambda ch: run(cfg, ch), bound, check, root_prefix=prefix)
    return acc


def jobs(tier):
    progs = ['exec', 'stream', 'run', 'sftp', 'sftp-cancel', 'rfwd', 'rfwd-close', 'rfwd2', 'rfwd-timeout']
    if tier == 'thorough':
        progs.append('two')
    out = []
    for prog in progs:
        modes = server_modes(tier) if prog in ('exec', 'stream', 'run', 'two') else ['echo']
        for mode in modes:
            cfg = (prog, mode)
            bound = 2 if (tier == 'thorough' or prog in ('exec',) or mode == 'noread') else 1
            if bound == 1:
                out.append((cfg, 1, ()))
            else:
                # split the bound-2 search by first deviation for parallelism
                ch = core.Chooser([])
                run(cfg, ch)
                out.append((cfg, 1, ()))        # all executions with <= 1 deviation
                for i, (n, _c, _cost, _l) in enumerate(ch.trace):
                    for alt in range(1, n):
                        out.append((cfg, 2, tuple([0] * i + [alt])))   # first deviation fixed at i, <= 1 more after it
    return out


def main(tier, seed):
    t0 = core.now()
    a = run(('exec', 'echo'), core.Chooser([0, 0, 1]))
    b = run(('exec', 'echo'), core.Chooser([0, 0, 1]))
    if a != b:
        print('HARNESS-NONDETERMINISM')
        return 2
    base = run(('exec', 'echo'), core.Chooser([]))
    if base['viol']:
        print('baseline violates: %r' % (base,))
    js = jobs(tier)
    acc = core.pmap(worker, core.rotate(js, seed), chunksize=2)
    shutil.rmtree(SCRATCH, ignore_errors=True)
    acc.merge(core.pmap(connect_worker, connect_jobs()))
    acc.merge(core.pmap(late_wait_worker, late_wait_jobs()))
    rule = ('client programs {exec via callback session, stream session with blocked drain/read, run, '
            'sftp with outstanding requests, sftp with a request abandoned by its caller before later ones, remote port forward listener, a remote forward listener closed by the application (cancel request in flight), three concurrent remote forward requests '
            'against a slow server application} x server behaviours {echo, '
            'silent, reject exec, close instead of answering, exit at once with data pending, EOF only}; '
            'at every quiescent point the explorer may deliver either direction\'s next packet or inject '
            'one of {cut, close/abort/disconnect of either connection, close/abort/exit of the channel on '
            'either side}; all schedules with <= bound deviations; the run ends with loss of the '
            'connection; distinct = distinct schedule.  connect() itself (and connect()+run()) against listen(): after '
            'every number of deliveries the link is cut, either side sees EOF, the server aborts or closes, the '
            'listener goes away, or everything falls silent and only the login timers remain.  A process left unread '
            'for 0..23 deliveries (output of 6 sizes around the window) and then waited for through wait / communicate / '
            'read / wait_closed')
    return core.finish(PROP, tier, seed, 'model_checking', acc, t0, rule,
                       {'deviation_bound': '2 for the exec program (quick) or all programs (thorough), else 1',
                        'jobs': len(js)},
                       assumptions=['a prefix-partitioned bound-2 search visits executions whose first '
                                    'deviation is at point i with at most one further deviation'])


def replay(rep):
    r = rep['replay']
    if 'late_wait' in r:
        obs = late_wait_case(*r['late_wait'])
        print(json.dumps(obs, indent=1, default=repr))
        if obs['viol']:
            print('VIOLATION property=%s replay=(given)' % PROP)
            return 1
        return 0
    if 'connect' in r:
        obs = connect_case(*r['connect'])
        print(json.dumps(obs, indent=1, default=repr))
        if obs['viol']:
            print('VIOLATION property=%s replay=(given)' % PROP)
            return 1
        return 0
    obs = run(tuple(r['cfg']), core.Chooser(r['choices']))
    print(json.dumps({'cfg': r['cfg'], 'schedule': obs['trace'], 'violations': obs['viol']}, indent=1))
    if obs['viol']:
        print('VIOLATION property=%s replay=(given)' % PROP)
        return 1
    return 0
