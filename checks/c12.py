"""C12  SFTP transfers reproduce the source bytes exactly or report failure.

The real SFTPClient (get/put/copy, SFTPClientFile.read/write, the parallel block
scheduler) runs over refsftp, a model server whose every reply is an explorer choice:
which outstanding request is answered next, in full / short / with an error / with a
premature EOF, two replies in one loop turn with both asyncio.wait orders.
Deviation-bounded DFS; oracle = model file store.
"""

import asyncio
import json
import os
import shutil

import asyncssh

import core
import pair as P
import refsftp as RS
from vloop import Livelock

PROP = 'C12'
SCRATCH = '/dev/shm/asyncssh-verif-c12-%d' % os.getpid()       # unique per check run (workers are forked later)
_real_wait = asyncio.wait
_wait_order = ['asc']


def _task_no(t):
    try:
        return int(t.get_name().rsplit('-', 1)[1])
    except (ValueError, IndexError):
        return 0


class _OrderedSet(set):
    def __init__(self, items, reverse):
        set.__init__(self, items)
        self._order = sorted(items, key=_task_no, reverse=reverse)

    def __iter__(self):
        return iter(self._order)


async def ordered_wait(fs, *, timeout=None, return_when=asyncio.ALL_COMPLETED):
    done, pending = await _real_wait(fs, timeout=timeout, return_when=return_when)
    return _OrderedSet(done, _wait_order[0] == 'desc'), pending


def content(n, salt=0):
    return bytes(((i * 7 + salt * 13 + (i >> 8) + 1) % 251) + 1 for i in range(n))


def sparse_content(n, extents, salt=0):
    full = bytearray(n)
    c = content(n, salt)
    for off, ln in extents:
        full[off:off + ln] = c[off:off + ln]
    return bytes(full)


def run(cfg, chooser, seed=0):
    op, size, b, r = cfg['op'], cfg['size'], cfg['b'], cfg['r']
    sparse = cfg.get('sparse', True)
    extents = cfg.get('extents')
    loop = P.fresh(seed)
    asyncio.wait = ordered_wait
    _wait_order[0] = cfg.get('wait_order', 'asc')
    workdir = os.path.join(SCRATCH, str(os.getpid()))
    os.makedirs(workdir, exist_ok=True)
    trace = []
    try:
        exts = ([b'limits@openssh.com', b'ranges@asyncssh.com'] if cfg.get('ranges', True)
                else [b'limits@openssh.com'])
        srv = RS.RefSFTP(loop, extensions=exts)
        srv.empty_reads = bool(cfg.get('empty_reads'))
        srv.max_read_limit = cfg.get('max_read', 0)
        if cfg.get('ranges_cap'):
            srv.ranges_cap = cfg['ranges_cap']
        src = sparse_content(size, extents) if extents is not None else content(size)
        local = os.path.join(workdir, 'local')
        if os.path.exists(local):
            os.unlink(local)
        start, conn = RS.start_client(loop, srv)
        for _ in range(50):
            loop.quiesce()
            if start.done():
                break
            if srv.pending:
                srv.answer(0, 'ok')
        sftp = start.result()
        result = {}

        async def body():
            if op == 'get':
                srv.put_file(b'/src', src, extents, cfg.get('stat_size'))
                await sftp.get('/src', local, block_size=b, max_requests=r, sparse=sparse,
                               progress_handler=lambda *a: result.setdefault('progress', []).append(a[2:]))
                with open(local, 'rb') as f:
                    result['dest'] = f.read()
            elif op == 'put':
                with open(local, 'wb') as f:
                    if extents is not None:
                        f.truncate(size)
                        c = content(size)
                        for off, ln in extents:
                            f.seek(off)
                            f.write(c[off:off + ln])
                    else:
                        f.write(src)
                await sftp.put(local, '/dst', block_size=b, max_requests=r, sparse=sparse)
                result['dest'] = bytes(srv.files.get(b'/dst', b'\xff'))
            elif op == 'copy':
                srv.put_file(b'/src', src, extents, cfg.get('stat_size'))
                await sftp.copy('/src', '/dst', block_size=b, max_requests=r, sparse=sparse)
                result['dest'] = bytes(srv.files.get(b'/dst', b'\xff'))
            elif op == 'fread':
                srv.put_file(b'/src', src)
                async with sftp.open('/src', 'rb', block_size=b, max_requests=r) as f:
                    off, n = cfg['range']
                    result['dest'] = await f.read(n, off)
                    result['expect'] = src[off:] if n < 0 else src[off:off + n]
                    result['tell'] = await f.tell()
            elif op == 'fwrite':
                srv.put_file(b'/dst', content(cfg.get('initial', 0), 5))
                mode = cfg.get('mode', 'r+b')
                async with sftp.open('/dst', mode, block_size=b, max_requests=r) as f:
                    exp = bytearray(content(cfg.get('initial', 0), 5))
                    if 'w' in mode:
                        exp = bytearray()
                    for k, (off, n) in enumerate(cfg['writes']):
                        data = content(n, 20 + k)
                        if 'a' in mode:
                            await f.write(data)
                            exp.extend(data)
                        else:
                            await f.write(data, off)
                            if len(exp) < off:
                                exp.extend(bytes(off - len(exp)))
                            exp[off:off + n] = data
                result['dest'] = bytes(srv.files[b'/dst'])
                result['expect'] = bytes(exp)
        task = loop.create_task(body())
        faults = []
        steps = 0
        while True:
            loop.quiesce()
            if task.done():
                break
            pend = srv.pending
            if not pend:
                break
            opts = []
            for i in range(min(len(pend), 3)):
                for v in srv.variants(pend[i]):
                    opts.append((i, v))
            if len(pend) >= 2 and pend[0].type in (5, 6) and pend[1].type in (5, 6):
                opts.append((0, 'both'))
            k = chooser.choose(len(opts), label='reply')
            i, v = opts[k]
            req = pend[i]
            trace.append('%s#%d:%s%s' % (req.name, req.id, v, '' if i == 0 else '@%d' % i))
            if v == 'both':
                srv.answer(0, 'ok')
                srv.answer(0, 'ok')
            else:
                if v in ('fail', 'perm') or (v == 'eof' and req.type == 5 and
                                             req.f['offset'] < len(srv.files.get(b'/src', b''))):
                    faults.append((req.name, v))
                srv.answer(i, v)
            steps += 1
            if steps > 2000:
                raise Livelock('too many replies')
        viol = []
        if not task.done():
            viol.append(('hang', 'operation still pending with no outstanding request; trace=%s' % trace[-6:]))
            exc = None
        else:
            exc = task.exception()
        ok = task.done() and exc is None
        if exc is not None and not isinstance(exc, (asyncssh.SFTPError, OSError)):
            viol.append(('unexpected-exception', repr(exc)))
        if ok:
            expect = result.get('expect', src)
            dest = result.get('dest')
            premature = [f for f in faults if f[1] == 'eof']
            hard = [f for f in faults if f[1] != 'eof']
            short_src = cfg.get('stat_size') is not None and cfg['stat_size'] > size
            if hard:
                viol.append(('success-despite-failed-block', 'requests %r were answered with an error but the '
                             'operation returned normally' % (hard,)))
            elif (premature or short_src) and not sparse and op in ('get', 'copy'):
                if dest != expect:
                    viol.append(('success-despite-early-eof', 'non-sparse transfer: source ended before its '
                                 'announced size, operation returned normally with %d of %d bytes'
                                 % (len(dest or b''), len(expect))))
            elif op == 'fread' and cfg['range'][1] >= 0 and cfg['range'][1] <= min(cfg['b'], cfg.get('max_read') or cfg['b']) and \
                    dest and expect.startswith(dest):
                # read(n) promises "up to n bytes": a request small enough to go out as one READ may come back as
                # short as the server answered it (reads to the end of the file and longer reads are reassembled)
                pass
            elif not premature and not short_src and dest != expect:
                first = next((i for i in range(min(len(dest), len(expect))) if dest[i] != expect[i]),
                             min(len(dest), len(expect)))
                viol.append(('corrupt-result', 'operation returned normally but destination differs from '
                             'source: %d vs %d bytes, first difference at offset %d' % (len(dest), len(expect), first)))
            if op == 'get' and result.get('progress') and not premature and not short_src and not hard:
                last = result['progress'][-1]
                if last[0] != last[1] and not sparse:
                    viol.append(('progress-inconsistent', repr(result['progress'][-3:])))
        lexc = loop.unretrieved()
        if lexc:
            viol.append(('loop-exception', repr(lexc[0].get('exception') or lexc[0].get('message'))[:200]))
        return {'viol': viol, 'trace': trace, 'ok': ok, 'exc': type(exc).__name__ if exc else None, 'steps': steps}
    except Livelock as exc:
        return {'viol': [('livelock', str(exc))], 'trace': trace, 'ok': False, 'exc': 'Livelock', 'steps': 0}
    finally:
        asyncio.wait = _real_wait
        P.done(loop)


def worker(job):
    cfg, bound = job
    acc = core.Acc()
    name = cfg_name(cfg)

    def check(obs, ch):
        acc.add(core.digest((name, tuple(obs['trace']), obs['ok'], obs['exc'])), transitions=obs['steps'],
                sample={'config': name, 'replies': obs['trace'][-8:], 'returned_normally': obs['ok']}
                if len(ch.labels()) == 2 else None)
        acc.count('outcome:%s' % ('ok' if obs['ok'] else obs['exc']))
        for k, d in obs['viol']:
            acc.violation('sftp:%s:%s' % (k, cfg['op'] + ('-nonsparse' if not cfg.get('sparse', True) else '')),
                          '%s ; config=%s replies=%s' % (d, name, ' '.join(obs['trace'])[-500:]),
                          {'cfg': cfg, 'choices': ch.choices})
    core.explore_dfs(lambda ch: run(cfg, ch), bound, check)
    return acc


def cfg_name(cfg):
    return ','.join('%s=%s' % (k, cfg[k]) for k in sorted(cfg))


def sizes_for(b, r):
    return sorted({0, 1, b - 1, b, b + 1, r * b - 1, r * b, r * b + 1, 2 * r * b + 1})


def jobs(tier):
    js = []
    bound = 2 if tier == 'quick' else 3
    for b in (4, 8):
        for r in (1, 2, 3):
            for size in sizes_for(b, r):
                for sparse in (True, False):
                    for op in ('get', 'put', 'copy'):
                        for order in (('asc', 'desc') if r > 1 and size > b else ('asc',)):
                            bb = bound if (tier == 'thorough' or b == 4) else bound - 1
                            js.append((dict(op=op, size=size, b=b, r=r, sparse=sparse, wait_order=order), bb))
    # bound 2 on a core subset in quick
    if tier == 'quick':
        for size in (9, 17):
            for sparse in (True, False):
                js.append((dict(op='get', size=size, b=4, r=2, sparse=sparse), 2))
                js.append((dict(op='copy', size=size, b=4, r=2, sparse=sparse), 2))
    # sparse files: every hole layout of a 4-block file
    for mask in range(16):
        extents = [(k * 4, 4) for k in range(4) if mask & (1 << k)]
        for op in ('get', 'copy', 'put'):
            for ranges in (True, False):
                js.append((dict(op=op, size=16, b=4, r=2, sparse=True, extents=extents, ranges=ranges), 1))
    # many extents with a capped ranges reply (server says "not at end")
    js.append((dict(op='get', size=40, b=4, r=2, sparse=True, extents=[(k * 8, 4) for k in range(5)], ranges_cap=2), bound))
    js.append((dict(op='copy', size=40, b=4, r=2, sparse=True, extents=[(k * 8, 4) for k in range(5)], ranges_cap=2), bound))
    # source shorter than its announced size
    for sparse in (True, False):
        for op in ('get', 'copy'):
            js.append((dict(op=op, size=10, b=4, r=2, sparse=sparse, stat_size=14), bound))
            js.append((dict(op=op, size=8, b=4, r=2, sparse=sparse, stat_size=9), bound))
    # a server that may answer a READ inside the file with a DATA packet carrying nothing (neither data nor EOF)
    for size in (9, 13, 17):
        for op in ('get', 'copy', 'fread'):
            for sparse in ((True, False) if op != 'fread' else (True,)):
                c = dict(op=op, size=size, b=4, r=2, sparse=sparse, empty_reads=True)
                if op == 'fread':
                    c['range'] = (0, -1)
                js.append((c, bound))
    # a server that announces a read limit below the block size the application asked for, and answers longer
    # reads short
    for b, lim in ((8, 4), (8, 3), (16, 4)):
        for rng in ((0, -1), (0, lim + 1), (0, b), (1, b - 1), (0, lim), (2, 2 * b + 1)):
            js.append((dict(op='fread', size=3 * b + 2, b=b, r=2, range=rng, max_read=lim), bound if b == 8 else 1))
        for op in ('get', 'copy'):
            js.append((dict(op=op, size=2 * b + 3, b=b, r=2, sparse=False, max_read=lim), 1))
    # file object reads / writes
    for b in (4, 8):
        for r in (1, 2, 3):
            for rng in ((0, -1), (0, 3 * b + 1), (b - 1, 2 * b + 2), (1, 1), (5 * b, 4), (2, 0)):
                js.append((dict(op='fread', size=3 * b + 2, b=b, r=r, range=rng), bound))
            js.append((dict(op='fwrite', size=0, b=b, r=r, initial=6, writes=[(0, 2 * b + 1), (b, 3)]), bound))
            js.append((dict(op='fwrite', size=0, b=b, r=r, initial=6, writes=[(10, b + 1)]), bound))
            js.append((dict(op='fwrite', size=0, b=b, r=r, initial=5, mode='ab', writes=[(0, b + 2), (0, 3)]), bound))
            js.append((dict(op='fwrite', size=0, b=b, r=r, initial=5, mode='wb', writes=[(0, 2 * b), (2 * b, 3)]), bound))
    return js


# ------------------------------------------------------------------ end to end (real server, real files)
def e2e_worker(job):
    """real SFTPClient <-> real asyncssh SFTPServer over a full SSH connection on the virtual loop;
    sparse files on tmpfs with n data extents of one page each"""
    nextents, trailing_hole, op, sparse = job
    acc = core.Acc()
    page = 4096
    root = os.path.join(SCRATCH, 'e2e-%d' % os.getpid())
    shutil.rmtree(root, ignore_errors=True)
    os.makedirs(os.path.join(root, 'srv'))
    size = (2 * nextents - (0 if trailing_hole else 1)) * page
    data = bytearray(size)
    for k in range(nextents):
        data[2 * k * page:(2 * k + 1) * page] = content(page, k)

    def make(path):
        with open(path, 'wb') as f:
            for k in range(nextents):
                f.seek(2 * k * page)
                f.write(content(page, k))
            f.truncate(size)
    loop = P.fresh(0)
    viol = []
    try:
        pair = P.Pair(loop, sopts=dict(sftp_factory=lambda chan: asyncssh.SFTPServer(chan, chroot=os.path.join(root, 'srv'))))
        pair.handshake()
        out = {}

        async def body():
            async with pair.c.start_sftp_client() as sftp:
                if op == 'get':
                    make(os.path.join(root, 'srv', 'f'))
                    await sftp.get('f', os.path.join(root, 'out'), sparse=sparse)
                    out['dest'] = open(os.path.join(root, 'out'), 'rb').read()
                elif op == 'put':
                    make(os.path.join(root, 'in'))
                    await sftp.put(os.path.join(root, 'in'), 'g', sparse=sparse)
                    out['dest'] = open(os.path.join(root, 'srv', 'g'), 'rb').read()
                else:
                    make(os.path.join(root, 'srv', 'f'))
                    await sftp.copy('f', 'h', sparse=sparse)
                    out['dest'] = open(os.path.join(root, 'srv', 'h'), 'rb').read()
        t = loop.create_task(body())
        loop.flush_all(horizon=2000000)
        if not t.done():
            viol.append(('hang', 'end-to-end %s did not finish' % op))
        elif t.exception() is not None:
            viol.append(('e2e-failed', repr(t.exception())))
        elif out['dest'] != bytes(data):
            viol.append(('corrupt-result', 'end-to-end %s of a %d-byte file with %d data extents%s: destination has '
                         '%d bytes, equal=%s' % (op, size, nextents, ' and a trailing hole' if trailing_hole else '',
                                                 len(out['dest']), out['dest'] == bytes(data))))
        if loop.unretrieved():
            viol.append(('loop-exception', repr(loop.exc_log[0].get('exception'))[:200]))
    except Livelock as exc:
        viol.append(('livelock', str(exc)))
    finally:
        P.done(loop)
        shutil.rmtree(root, ignore_errors=True)
    acc.add(core.digest(job), transitions=1, sample={'end_to_end': {'extents': nextents, 'trailing_hole': trailing_hole,
                                                                       'op': op, 'sparse': sparse}} if nextents == 129 else None)
    for k, d in viol:
        acc.violation('sftp:%s:e2e-%s' % (k, op), d, {'e2e': list(job)})
    return acc


# ------------------------------------------------------------------ end to end over every protocol version onto existing destinations
def e2e_versions_worker(job):
    """real client <-> real server with SFTP version v negotiated; the destination does not exist, or exists
    and is shorter / equally long / longer than what is written (leftovers of an earlier transfer)"""
    acc = core.Acc()
    root = os.path.join(SCRATCH, 'e2v-%d' % os.getpid())
    for item in job:
        v, op, old_len = item[:3]
        src_len, opt = (item[3], item[4]) if len(item) > 3 else (3000, 'plain')
        kw = {}
        progress = []
        if 'progress' in opt:
            kw['progress_handler'] = lambda sp, dp, done, total: progress.append((done, total))
        if 'nonsparse' in opt:
            kw['sparse'] = False
        if 'blocks' in opt:
            kw.update(block_size=1024, max_requests=3)
        shutil.rmtree(root, ignore_errors=True)
        os.makedirs(os.path.join(root, 'srv'))
        os.makedirs(os.path.join(root, 'loc'))
        src = content(src_len, v)
        old = content(old_len, 9)[:old_len] if old_len is not None else None
        loop = P.fresh(0)
        viol = []
        try:
            pair = P.Pair(loop, sopts=dict(sftp_factory=lambda chan: asyncssh.SFTPServer(chan, chroot=os.path.join(root, 'srv')),
                                           sftp_version=v))
            pair.handshake()
            out = {}

            def put(path, data):
                if data is not None:
                    with open(path, 'wb') as f:
                        f.write(data)

            async def body():
                async with pair.c.start_sftp_client(sftp_version=v) as sftp:
                    out['v'] = sftp.version
                    sd, ld = os.path.join(root, 'srv'), os.path.join(root, 'loc')
                    if op == 'put':
                        put(os.path.join(ld, 'in'), src)
                        put(os.path.join(sd, 'dst'), old)
                        await sftp.put(os.path.join(ld, 'in'), 'dst', **kw)
                        out['want'], out['got'] = src, open(os.path.join(sd, 'dst'), 'rb').read()
                    elif op == 'get':
                        put(os.path.join(sd, 'f'), src)
                        put(os.path.join(ld, 'dst'), old)
                        await sftp.get('f', os.path.join(ld, 'dst'), **kw)
                        out['want'], out['got'] = src, open(os.path.join(ld, 'dst'), 'rb').read()
                    elif op == 'copy':
                        put(os.path.join(sd, 'f'), src)
                        put(os.path.join(sd, 'dst'), old)
                        await sftp.copy('f', 'dst', **kw)
                        out['want'], out['got'] = src, open(os.path.join(sd, 'dst'), 'rb').read()
                    elif op in ('open-wb', 'open-w'):
                        put(os.path.join(sd, 'dst'), old)
                        async with sftp.open('dst', 'wb' if op == 'open-wb' else 'w', encoding=None) as f:
                            await f.write(src)
                        out['want'], out['got'] = src, open(os.path.join(sd, 'dst'), 'rb').read()
                    elif op == 'open-r+b':
                        put(os.path.join(sd, 'dst'), old or b'')
                        async with sftp.open('dst', 'r+b') as f:
                            await f.write(src[:100], 50)
                        base = bytearray(old or b'')
                        if len(base) < 150:
                            base.extend(bytes(150 - len(base)))
                        base[50:150] = src[:100]
                        out['want'], out['got'] = bytes(base), open(os.path.join(sd, 'dst'), 'rb').read()
                    elif op == 'open-ab':
                        put(os.path.join(sd, 'dst'), old)
                        async with sftp.open('dst', 'ab') as f:
                            await f.write(src[:100])
                        out['want'], out['got'] = (old or b'') + src[:100], open(os.path.join(sd, 'dst'), 'rb').read()
                    elif op == 'open-text':
                        # text mode (the default for mode 'w'): consecutive writes of strings with multi-byte
                        # characters continue where the previous one ended -- in bytes, not characters
                        put(os.path.join(sd, 'dst'), old)
                        parts = ['h\u00e9llo \u20ac ', 'w\u00f6rld \U0001d11e', ' end\n']
                        async with sftp.open('dst', 'w') as f:
                            for p in parts:
                                await f.write(p)
                        out['want'], out['got'] = ''.join(parts).encode('utf-8'), open(os.path.join(sd, 'dst'), 'rb').read()
                    elif op == 'open-text-seek':
                        put(os.path.join(sd, 'dst'), b'x' * 40)
                        async with sftp.open('dst', 'r+') as f:
                            await f.seek(4)
                            await f.write('\u00e9\u00e9')
                            await f.write('ZZ')
                            back = await f.read(6, 0)
                        want = bytearray(b'x' * 40)
                        want[4:8] = '\u00e9\u00e9'.encode()
                        want[8:10] = b'ZZ'
                        out['want'], out['got'] = bytes(want), open(os.path.join(sd, 'dst'), 'rb').read()
                        if back != 'xxxx\u00e9':
                            out['got'] = b'read-back:' + repr(back).encode()
                    elif op == 'open-text-read':
                        text = 'a\u00e9b\u20acc\U0001d11ed\n' * 3
                        put(os.path.join(sd, 'dst'), text.encode('utf-8'))
                        async with sftp.open('dst', 'r') as f:
                            got = await f.read()
                        out['want'], out['got'] = text.encode('utf-8'), got.encode('utf-8') if isinstance(got, str) else got
                    elif op == 'open-xb':
                        put(os.path.join(sd, 'dst'), old)
                        try:
                            async with sftp.open('dst', 'xb') as f:
                                await f.write(src[:100])
                            out['want'] = src[:100] if old is None else b'<must refuse>'
                        except asyncssh.SFTPError:
                            out['want'] = old if old is not None else b'<must succeed>'
                        out['got'] = open(os.path.join(sd, 'dst'), 'rb').read() if os.path.exists(os.path.join(sd, 'dst')) else None
            t = loop.create_task(body())
            loop.flush_all(horizon=2000000)
            if not t.done():
                viol.append(('hang', 'did not finish'))
            elif t.exception() is not None:
                viol.append(('e2e-failed', repr(t.exception())[:200]))
            else:
                if out.get('v') != v:
                    viol.append(('version-not-negotiated', 'asked for %d, got %r' % (v, out.get('v'))))
                if out['got'] != out['want']:
                    g, w = out['got'] or b'', out['want']
                    viol.append(('corrupt-result', 'SFTP v%d %s onto a destination of %s bytes: destination has %d bytes, expected %d; '
                                 'equal prefix %d' % (v, op, old_len, len(g), len(w),
                                                      next((i for i, (a, b) in enumerate(zip(g, w)) if a != b), min(len(g), len(w))))))
                if 'progress' in opt and not viol and (not progress or progress[-1] != (src_len, src_len)):
                    viol.append(('progress-misreported', 'last progress report %r for a %d-byte transfer' % (progress[-1:] , src_len)))
            if loop.unretrieved():
                viol.append(('loop-exception', repr(loop.exc_log[0].get('exception'))[:200]))
        except Livelock as exc:
            viol.append(('livelock', str(exc)))
        finally:
            P.done(loop)
        acc.add(core.digest(('e2v',) + tuple(item)), transitions=1,
                sample={'sftp_version': v, 'operation': op, 'existing_destination_bytes': old_len} if v == 6 and op == 'put' and old_len == 5000 else None)
        for k, d in viol:
            acc.violation('sftp:%s:v%d-%s%s' % (k, v, op, '' if opt == 'plain' else '-' + opt), d + ('' if len(item) == 3 else ' ; source %d bytes, options %s' % (src_len, opt)), {'e2v': list(item)})
    shutil.rmtree(root, ignore_errors=True)
    return acc


def e2v_jobs():
    cases = [(v, op, old) for v in (3, 4, 5, 6) for op in ('put', 'get', 'copy', 'open-wb', 'open-w', 'open-r+b', 'open-ab', 'open-xb', 'open-text', 'open-text-seek', 'open-text-read')
             for old in (None, 0, 100, 3000, 5000)]
    # transfer options x source sizes (empty, one byte, several blocks) onto absent / empty / longer destinations
    cases += [(v, op, old, n, opt) for v in (3, 6) for op in ('put', 'get', 'copy') for old in (None, 0, 2160)
              for n in (0, 1, 3000, 70000) for opt in ('progress', 'nonsparse', 'progress+nonsparse', 'blocks', 'progress+blocks')]
    return [cases[i::16] for i in range(16)]


def e2e_jobs(tier):
    ns = [1, 2, 127, 128, 129] + ([257, 300] if tier == 'thorough' else [])
    return [(n, th, op, sp) for n in ns for th in (False, True) for op in ('get', 'put', 'copy')
            for sp in ((True, False) if n <= 2 else (True,))]


# ------------------------------------------------------------------ end to end: trees, globs and symbolic links
TREE_SIZES = [0, 1, 2, 3, 7, 5000, 40000]


def tree_worker(job):
    """A directory tree (files of several sizes, a subdirectory, symbolic links to files whose target path is
    shorter and longer than the file they name) transferred by get/put/copy with recurse=True, by mget/mput/mcopy
    with a pattern, and by naming a link directly; follow_symlinks on and off; SFTP versions 3 and 6.  Every regular
    file at the destination has exactly the bytes of its source (a followed link: of the file it names); an
    unfollowed link arrives as a link; nothing is missing."""
    acc = core.Acc()
    for case in job:
        op, how, follow, version = case
        root = os.path.join(SCRATCH, 'tree-%d' % os.getpid())
        shutil.rmtree(root, ignore_errors=True)
        srvroot = os.path.join(root, 'srv')
        os.makedirs(srvroot)
        src_on_server = op in ('get', 'copy')
        base = srvroot if src_on_server else os.path.join(root, 'local')
        tree = os.path.join(base, 'tree')
        os.makedirs(os.path.join(tree, 'sub'))
        files = {}
        for i, n in enumerate(TREE_SIZES):
            rel = ('f%d' % i) if i % 2 == 0 else ('sub/g%d' % i)
            with open(os.path.join(tree, rel), 'wb') as f:
                f.write(content(n, i))
            files[rel] = content(n, i)
        links = {}
        for i, n in enumerate(TREE_SIZES):
            rel = ('f%d' % i) if i % 2 == 0 else ('sub/g%d' % i)
            # links live at the top of the tree: target text 2..6 characters, named file 0..40000 bytes
            os.symlink(rel, os.path.join(tree, 'l%d' % i))
            links['l%d' % i] = rel
        os.symlink('../../tree/f6', os.path.join(tree, 'sub', 'up-and-down'))     # through the tree's parent
        links['sub/up-and-down'] = '../../tree/f6'
        os.symlink('../f0', os.path.join(tree, 'sub', 'to-empty'))                     # 5 chars -> 0 bytes
        links['sub/to-empty'] = '../f0'
        loop = P.fresh(0)
        viol = []
        try:
            pair = P.Pair(loop, sopts=dict(sftp_factory=lambda chan: asyncssh.SFTPServer(chan, chroot=srvroot), sftp_version=version))
            pair.handshake()
            dst_on_server = op in ('put', 'copy')
            dbase = srvroot if dst_on_server else os.path.join(root, 'localdst')
            os.makedirs(os.path.join(dbase, 'dst'), exist_ok=True)

            async def body():
                async with pair.c.start_sftp_client(sftp_version=version) as sftp:
                    src = 'tree' if src_on_server else tree
                    dst = 'dst' if dst_on_server else os.path.join(dbase, 'dst')
                    fn = {'get': sftp.get, 'put': sftp.put, 'copy': sftp.copy}[op]
                    mfn = {'get': sftp.mget, 'put': sftp.mput, 'copy': sftp.mcopy}[op]
                    if how == 'recurse':
                        await fn(src, dst, recurse=True, follow_symlinks=follow)
                    elif how == 'glob':
                        await mfn(src + '/*', dst + '/tree', recurse=True, follow_symlinks=follow) if os.makedirs(os.path.join(dbase, 'dst', 'tree'), exist_ok=True) is None else None
                    else:
                        os.makedirs(os.path.join(dbase, 'dst', 'tree', 'sub'), exist_ok=True)
                        for lk in sorted(links):
                            await fn(src + '/' + lk, dst + '/tree/' + lk, follow_symlinks=follow)
            t = loop.create_task(body())
            loop.flush_all(horizon=2000000)
            out = os.path.join(dbase, 'dst', 'tree')
            if not t.done():
                viol.append(('hang', 'did not finish'))
            elif t.exception() is not None:
                viol.append(('e2e-failed', repr(t.exception())[:300]))
            else:
                for rel, data in files.items():
                    if how == 'named':
                        continue
                    p = os.path.join(out, rel)
                    if not os.path.isfile(p) or os.path.islink(p):
                        viol.append(('missing', '%s is not a regular file at the destination' % rel))
                    elif open(p, 'rb').read() != data:
                        viol.append(('corrupt-result', '%s: %d bytes at the destination, source has %d' % (rel, os.path.getsize(p), len(data))))
                for lk, target in links.items():
                    p = os.path.join(out, lk)
                    want = files[os.path.normpath(os.path.join('tree', os.path.dirname(lk), target))[len('tree/'):]]
                    if follow:
                        if os.path.islink(p) or not os.path.isfile(p):
                            viol.append(('link-not-followed', '%s should have arrived as a copy of the file it names' % lk))
                        elif open(p, 'rb').read() != want:
                            viol.append(('corrupt-result', 'followed link %s -> %s: %d bytes at the destination, the named file has %d'
                                         % (lk, target, os.path.getsize(p), len(want))))
                    else:
                        # (the target text is the confined server's business -- it hands out and stores root-relative
                        # targets -- and not part of this property)
                        if not os.path.islink(p):
                            viol.append(('link-not-preserved', '%s should have arrived as a symbolic link' % lk))
            if loop.unretrieved():
                viol.append(('loop-exception', repr(loop.exc_log[0].get('exception'))[:200]))
        except Livelock as exc:
            viol.append(('livelock', str(exc)))
        finally:
            P.done(loop)
            shutil.rmtree(root, ignore_errors=True)
        acc.add(core.digest(('tree',) + tuple(case)), transitions=len(files) + len(links),
                sample={'tree_transfer': {'op': op, 'how': how, 'follow_symlinks': follow, 'sftp_version': version}} if case == ('get', 'glob', True, 3) else None)
        for k, d in viol:
            acc.violation('sftp:%s:tree-%s-%s-%s' % (k, op, how, 'follow' if follow else 'nofollow'), '%s ; case=%r' % (d, case), {'tree': list(case)})
    return acc


def tree_jobs():
    cases = [(op, how, follow, v) for op in ('get', 'put', 'copy') for how in ('recurse', 'glob', 'named') for follow in (False, True) for v in (3, 6)]
    return [cases[i::12] for i in range(12)]


# ------------------------------------------------------------------ end to end: remote_copy with offsets
def remote_copy_worker(job):
    """SFTPClient.remote_copy (the copy-data extension) between two open remote files of more than one server copy
    block: source offset / length (0 = to the end) / destination offset from a grid around block multiples; the
    destination, pre-filled, has exactly the copied range at the place asked for and everything else untouched"""
    from asyncssh.sftp import _COPY_DATA_BLOCK_SIZE as BLK
    acc = core.Acc()
    root = os.path.join(SCRATCH, 'rcopy-%d' % os.getpid())
    for case in job:
        so, ln, do, size_blocks = case
        shutil.rmtree(root, ignore_errors=True)
        os.makedirs(root)
        n = size_blocks * BLK + 100
        src = content(n, 3)
        pre = bytes([0xaa]) * (n + 2 * BLK)
        with open(os.path.join(root, 'f'), 'wb') as f:
            f.write(src)
        with open(os.path.join(root, 'dst'), 'wb') as f:
            f.write(pre)
        piece = src[so:] if ln == 0 else src[so:so + ln]
        want = bytearray(pre)
        if len(want) < do + len(piece):
            want.extend(bytes(do + len(piece) - len(want)))
        want[do:do + len(piece)] = piece
        loop = P.fresh(0)
        viol = []
        try:
            pair = P.Pair(loop, sopts=dict(sftp_factory=lambda chan: asyncssh.SFTPServer(chan, chroot=root)))
            pair.handshake()

            async def body():
                async with pair.c.start_sftp_client() as sftp:
                    async with sftp.open('f', 'rb') as fs, sftp.open('dst', 'r+b') as fd:
                        await sftp.remote_copy(fs, fd, so, ln, do)
            t = loop.create_task(body())
            loop.flush_all(horizon=2000000)
            if not t.done():
                viol.append(('hang', 'remote_copy did not finish'))
            elif t.exception() is not None:
                viol.append(('e2e-failed', repr(t.exception())[:200]))
            else:
                got = open(os.path.join(root, 'dst'), 'rb').read()
                if got != bytes(want):
                    first = next((i for i, (a, b) in enumerate(zip(got, want)) if a != b), min(len(got), len(want)))
                    viol.append(('corrupt-result', 'remote_copy(src_offset=%d, length=%d, dst_offset=%d) of a %d-byte file: destination has %d bytes, expected %d; first difference at %d'
                                 % (so, ln, do, n, len(got), len(want), first)))
            if loop.unretrieved():
                viol.append(('loop-exception', repr(loop.exc_log[0].get('exception'))[:200]))
        except Livelock as exc:
            viol.append(('livelock', str(exc)))
        finally:
            P.done(loop)
        acc.add(core.digest(('rcopy',) + tuple(case)), transitions=1,
                sample={'remote_copy': {'src_offset': so, 'length': ln, 'dst_offset': do, 'file_blocks': size_blocks}} if case == (BLK, 0, 5, 3) else None)
        for k, d in viol:
            acc.violation('sftp:%s:remote-copy' % k, d, {'rcopy': list(case)})
    shutil.rmtree(root, ignore_errors=True)
    return acc


def remote_copy_jobs():
    from asyncssh.sftp import _COPY_DATA_BLOCK_SIZE as BLK
    cases = [(so, ln, do, 3) for so in (0, 7, BLK, BLK + 1) for ln in (0, 100, BLK, BLK + 1, 2 * BLK + 50) for do in (0, 5, BLK, 2 * BLK + 3)]
    cases += [(0, 0, 0, 1), (10, 0, 0, 1), (0, 0, 10, 1)]
    return [cases[i::16] for i in range(16)]


def main(tier, seed):
    t0 = core.now()
    cfg = dict(op='get', size=17, b=4, r=2, sparse=False)
    a = run(cfg, core.Chooser([0, 0, 3]), seed)
    b = run(cfg, core.Chooser([0, 0, 3]), seed)
    if a != b:
        print('HARNESS-NONDETERMINISM')
        return 2
    base = run(cfg, core.Chooser([]))
    if base['viol'] or not base['ok']:
        print('HARNESS-ERROR: baseline get failed: %r' % (base,))
        return 2
    js = jobs(tier)
    acc = core.pmap(worker, core.rotate(js, seed), chunksize=4)
    acc.merge(core.pmap(e2e_worker, core.rotate(e2e_jobs(tier), seed)))
    acc.merge(core.pmap(e2e_versions_worker, e2v_jobs()))
    acc.merge(core.pmap(tree_worker, tree_jobs()))
    acc.merge(core.pmap(remote_copy_worker, remote_copy_jobs()))
    shutil.rmtree(SCRATCH, ignore_errors=True)
    rule = ('operations get/put/copy (sparse and non-sparse), SFTPClientFile.read(size, offset) and write '
            '(r+b, wb, append) x block size {4,8} x max_requests {1,2,3} x sizes around block and request-window '
            'multiples x every hole layout of a 4-block file with and without the ranges extension; at each '
            'point the explorer answers any of the 3 oldest outstanding requests in full / 1 byte / half / '
            'FAILURE / PERMISSION_DENIED / premature EOF, or two at once under both asyncio.wait orders; '
            'deviation-bounded DFS; oracle = model file store; plus end-to-end get/put/copy of tmpfs sparse files '
            'with 1..129 (thorough 300) page-sized data extents through a real asyncssh SFTP server; put/get/copy and '
            'open in wb/w/r+b/ab/xb and text mode (multi-byte characters, consecutive writes, seek) under SFTP versions 3-6 onto destinations that are absent, empty, shorter, '
            'equal or longer; get/put/copy of 0, 1, 3000 and 70000 bytes with a progress handler, sparse off, small blocks (v3, v6) onto absent, empty and longer destinations; a tree with files of 7 sizes, a subdirectory and 9 symbolic links (target text shorter and longer than '
            'the named file) by get/put/copy recurse, by mget/mput/mcopy pattern and link by link, follow_symlinks on/off, versions 3 and 6')
    return core.finish(PROP, tier, seed, 'model_checking', acc, t0, rule,
                       {'jobs': len(js), 'deviation_bound': '2 (1 for block size 8)' if tier == 'quick' else 3},
                       assumptions=['SFTP v3 framing; the SSH layer below the SFTP client is replaced by an '
                                    'in-memory reader/writer (covered end-to-end in C09/C14)'])


def replay(rep):
    r = rep['replay']
    if 'e2v' in r:
        acc = e2e_versions_worker([tuple(r['e2v'])])
        print(json.dumps(acc.violations, indent=1, default=repr))
        return 1 if acc.violations else 0
    if 'rcopy' in r:
        acc = remote_copy_worker([tuple(r['rcopy'])])
        print(json.dumps(acc.violations, indent=1, default=repr))
        return 1 if acc.violations else 0
    if 'tree' in r:
        acc = tree_worker([tuple(r['tree'])])
        print(json.dumps(acc.violations, indent=1, default=repr))
        return 1 if acc.violations else 0
    if 'e2e' in r:
        acc = e2e_worker(tuple(r['e2e']))
        print(json.dumps(acc.violations, indent=1, default=repr))
        return 1 if acc.violations else 0
    obs = run(r['cfg'], core.Chooser(r['choices']))
    print(json.dumps({'cfg': r['cfg'], 'replies': obs['trace'], 'violations': obs['viol']}, indent=1, default=repr))
    if obs['viol']:
        print('VIOLATION property=%s replay=(given)' % PROP)
        return 1
    return 0
