"""C11  Re-keying is invisible to applications and really changes keys.

Harness A: real client <-> real server, byte/time triggered re-exchanges on either or
both sides in a busy two-way session (ping-pong data on one channel, a second channel
opened mid-stream); deviation-bounded DFS over packet delivery order (deviations are
allowed wherever a re-exchange is in progress or a KEXINIT is in flight, so simultaneous
KEXINIT is reachable).  Harness B: the independent refpeer re-keys with different
algorithms at several message boundaries and checks the new keys.
"""

import json

import asyncssh

import core
import pair as P
import refpeer as R
import rpharness as H
from vloop import EOF, Livelock

PROP = 'C11'
KEX_OK = set([1, 2, 3, 4, 20, 21]) | set(range(30, 50))


def chunk(side, k, n):
    return bytes(((k * 37 + i * 3 + (7 if side == 'c' else 11)) % 251) for i in range(n))


class PingPong(P.RecSession):
    def __init__(self, side, cfg):
        P.RecSession.__init__(self, side)
        self.side, self.cfg = side, cfg
        self.sent = 0
        self.rcvd = 0

    def _send_next(self, count=1):
        for _ in range(count):
            if self.sent < self.cfg['nchunks'] and self.chan is not None:
                self.chan.write(chunk(self.side, self.sent, self.cfg['chunk']))
                self.sent += 1

    def exec_requested(self, command):
        self.command = command
        return P.RecSession.exec_requested(self, command)

    def session_started(self):
        P.RecSession.session_started(self)
        if getattr(self, 'command', None) == 'second':
            self.chan.write(b'second-output')
            self.chan.exit(0)
            return
        self._send_next(self.cfg.get('burst', 3))

    def data_received(self, data, datatype):
        P.RecSession.data_received(self, data, datatype)
        total = len(self.got())
        while (self.rcvd + 1) * self.cfg['chunk'] <= total:
            self.rcvd += 1
            self._send_next(1)
            hook = self.cfg.get('_on_chunk')
            if hook:
                hook(self.side, self.rcvd)


def expected(side, cfg):
    return b''.join(chunk(side, k, cfg['chunk']) for k in range(cfg['nchunks']))


def run(cfg, chooser, seed=0):
    cfg = dict(cfg)
    loop = P.fresh(seed)
    P.install_wire_labels()
    state = {'second': None, 'advanced': False}
    try:
        env = {'session_factory': lambda: PingPong('s', cfg)}
        sopts = dict(encoding=None)
        copts = {}
        for side, opts in (('s', sopts), ('c', copts)):
            if cfg['side'] in (side, 'both'):
                if cfg.get('rekey_bytes'):
                    opts['rekey_bytes'] = cfg['rekey_bytes']
                if cfg.get('rekey_seconds'):
                    opts['rekey_seconds'] = cfg['rekey_seconds']
        pair = P.Pair(loop, sopts=sopts, copts=copts, env=env)
        pair.handshake()
        sid = (pair.c._session_id, pair.s._session_id)
        csess = PingPong('c', cfg)
        tasks = {}

        def on_chunk(side, k):
            if side == 'c' and k == cfg.get('second_at', 10 ** 9) and state['second'] is None:
                state['second'] = loop.create_task(pair.c.run('second', check=False, encoding=None))
            if cfg.get('advance_at') == k and side == 'c' and not state['advanced']:
                state['advanced'] = True
                loop._vtime += cfg.get('rekey_seconds', 0) + 1
        cfg['_on_chunk'] = on_chunk
        tasks['open'] = loop.create_task(pair.c.create_session(lambda: csess, encoding=None))
        steps = 0
        trace = []
        while True:
            loop.quiesce()
            opts = [(n, t) for n, t in (('cs', pair.st), ('sc', pair.ct)) if t in loop.deliverable()]
            if not opts:
                break
            if len(opts) == 2:
                kexish = (not pair.c._kex_complete or not pair.s._kex_complete or
                          any(c is not EOF and c.label == 20 for t in (pair.st, pair.ct) for c in t.peer.outq))
                if kexish:
                    # canonical default alternates directions; the alternative costs one deviation
                    first = 0 if (steps % 2 == 0) else 1
                    k = chooser.choose(2, label='order')
                    pick = opts[first if k == 0 else 1 - first]
                else:
                    pick = opts[steps % 2]
            else:
                pick = opts[0]
            trace.append(pick[0])
            P.deliver_packet(loop, pick[1])
            steps += 1
            if steps > 20000:
                raise Livelock('too many deliveries')
        viol = []
        ss = env.get('server_sessions', [])
        srv = ss[0] if ss else None
        if pair.c._transport is None or pair.s._transport is None:
            viol.append(('connection-lost', 'client=%r server=%r' % (
                getattr(pair.client_owner, 'lost_exc', None), getattr(pair.server_owner, 'lost_exc', None))))
        if csess.got() != expected('s', cfg):
            viol.append(('data-mismatch', 'client received %d bytes of %d (prefix ok: %s)' % (
                len(csess.got()), len(expected('s', cfg)), expected('s', cfg).startswith(csess.got()))))
        if srv is None or srv.got() != expected('c', cfg):
            viol.append(('data-mismatch', 'server received %d bytes of %d' % (
                len(srv.got()) if srv else -1, len(expected('c', cfg)))))
        if cfg.get('second_at') is not None and cfg['second_at'] <= cfg['nchunks']:
            t = state['second']
            if t is None or not t.done():
                viol.append(('request-lost', 'second session request never completed'))
            elif t.exception() is not None:
                viol.append(('request-failed', repr(t.exception())))
            elif t.result().stdout != b'second-output' or t.result().exit_status != 0:
                viol.append(('request-reply-wrong', repr((t.result().stdout, t.result().exit_status))))
        if (pair.c._session_id, pair.s._session_id) != sid:
            viol.append(('session-id-changed', ''))
        nrekey = 0
        for name, tr in (('client', pair.ct), ('server', pair.st)):
            in_kex = False
            seen_first = False
            for c in tr.writes:
                lab = c.label
                if lab == 'raw' or lab is None:
                    continue
                if lab == 20:
                    if in_kex:
                        viol.append(('double-kexinit', '%s sent KEXINIT twice in one exchange' % name))
                    in_kex = True
                    if seen_first:
                        nrekey += 1
                    seen_first = True
                elif lab == 21:
                    in_kex = False
                elif in_kex and lab not in KEX_OK:
                    viol.append(('non-kex-message-during-exchange',
                                 '%s emitted message type %s between its KEXINIT and its NEWKEYS' % (name, lab)))
                    break
        exc = loop.unretrieved()
        if exc:
            viol.append(('loop-exception', repr(exc[0].get('exception') or exc[0].get('message'))[:200]))
        return {'viol': viol, 'steps': steps, 'rekeys': nrekey, 'trace': trace}
    except Livelock as exc:
        return {'viol': [('livelock', str(exc))], 'steps': 0, 'rekeys': 0, 'trace': []}
    finally:
        P.done(loop)


def worker(job):
    cfg, bound, prefix = job
    acc = core.Acc()
    name = cfg['name']

    def check(obs, ch):
        acc.add(core.digest((name, tuple(ch.choices))), nontrivial=obs['rekeys'] > 0, transitions=obs['steps'],
                sample={'config': name, 'rekeys_started': obs['rekeys'], 'deviations_at': [i for i, c in enumerate(ch.choices) if c]}
                if len(ch.labels()) == 2 else None)
        acc.count('rekeys', obs['rekeys'])
        for k, d in obs['viol']:
            acc.violation('rekey:%s:%s' % (k, name), '%s ; deviations at choice points %r'
                          % (d, [i for i, c in enumerate(ch.choices) if c]),
                          {'kind': 'A', 'cfg': {k2: v for k2, v in cfg.items() if not k2.startswith('_')},
                           'choices': ch.choices})
    core.explore_dfs(lambda ch: run(cfg, ch), bound, check, root_prefix=prefix)
    return acc


def configs(tier):
    out = []

    def add(name, **kw):
        c = dict(name=name, side='c', nchunks=10, chunk=40, burst=3)
        c.update(kw)
        out.append(c)
    add('client-bytes-1pkt', side='c', rekey_bytes=64)
    add('server-bytes-1pkt', side='s', rekey_bytes=64)
    add('both-bytes-small', side='both', rekey_bytes=200)
    add('both-bytes-2nd-session', side='both', rekey_bytes=300, second_at=3)
    add('client-bytes-1k-2nd-session', side='c', rekey_bytes=1024, nchunks=16, chunk=100, second_at=5)
    add('client-time', side='c', rekey_seconds=10, advance_at=3, second_at=4)
    add('both-time', side='both', rekey_seconds=10, advance_at=4)
    if tier == 'thorough':
        add('both-bytes-long', side='both', rekey_bytes=500, nchunks=30, chunk=64, second_at=8)
        add('server-time-2nd', side='s', rekey_seconds=5, advance_at=2, second_at=3)
    return out


def jobs(tier):
    js = []
    for cfg in configs(tier):
        bound = 4 if tier == 'thorough' else 3
        if bound == 1:
            js.append((cfg, 1, ()))
        else:
            ch = core.Chooser([])
            run(cfg, ch)
            js.append((cfg, 1, ()))
            for i in range(len(ch.trace)):
                js.append((cfg, bound, tuple([0] * i + [1])))
    return js


# ------------------------------------------------------------------ harness B: refpeer re-keys
def refpeer_rekey(role, when, c1, c2, initiator):
    """returns (violations, info).  c1/c2 = (cipher, mac) before/after the re-exchange"""
    viol = []
    algs = dict(encryption_algs=[c1[0], c2[0]], mac_algs=[m for m in (c1[1], c2[1]) if m] or ())
    comp = lambda c: c[2] if len(c) > 2 else 'none'
    if comp(c1) != 'none' or comp(c2) != 'none':
        algs['compression_algs'] = [comp(c1), comp(c2)]
    data_a = bytes(range(200)) * 3
    data_b = bytes(range(50, 250)) * 2
    if role == 'server':
        env = {}

        def on_start(sess):
            sess.chan.write(data_a)
        env['session_factory'] = lambda: P.RecSession('srv', on_start=on_start)
        so = dict(algs)
        if initiator == 'asyncssh':
            so['rekey_bytes'] = 256
        w = H.SrvWorld(env=env, sopts=so, rp_kw=dict(ciphers=[c1[0]], macs=[c1[1] or 'hmac-sha1'], comps=[comp(c1)]))
    else:
        co = dict(algs)
        if initiator == 'asyncssh':
            co['rekey_bytes'] = 256
        w = H.CliWorld(copts=co, rp_kw=dict(ciphers=[c1[0]], macs=[c1[1] or 'hmac-sha1'], comps=[comp(c1)]))
    rp = w.rp
    try:
        def rekey_now():
            rp.ciphers_cs = rp.ciphers_sc = [c2[0]]
            rp.macs_cs = rp.macs_sc = [c2[1] or 'hmac-sha1']
            rp.comps_cs = rp.comps_sc = [comp(c2)]
            if initiator == 'refpeer':
                rp.send_kexinit()
            w.flush()
        if role == 'server':
            w.kex()
            sid = rp.session_id
            rp.ciphers_cs = rp.ciphers_sc = [c2[0]]
            rp.macs_cs = rp.macs_sc = [c2[1] or 'hmac-sha1']
            rp.comps_cs = rp.comps_sc = [comp(c2)]
            rp.send(rp.service_request())
            w.flush()
            if when == 'pre-auth':
                # RFC 4253 allows a re-exchange at any time after the first one, also before authentication is done
                rekey_now()
            rp.send(rp.password_request('user', 'pw'))
            w.flush()
            if when == 'after-auth':
                rekey_now()
            remote, _, _ = w.open_session(request=None, window=2 ** 20)
            if when == 'after-open':
                rekey_now()
            rp.send_app(rp.channel_request(remote, 'shell', True))
            w.flush()
            if when == 'mid-data':
                rekey_now()
            rp.send_app(rp.channel_data(remote, data_b))
            w.flush()
            if initiator == 'asyncssh':
                # make the server exceed its byte limit by asking it to send more
                for sess in env.get('server_sessions', []):
                    sess.chan.write(data_a)
                w.flush()
            got = b''.join(R.Reader(p, 5).string() for t, p in rp.inbox if t == R.MSG_CHANNEL_DATA)
            exp = data_a * (2 if initiator == 'asyncssh' else 1)
            sess = env.get('server_sessions', [None])[0]
            if got != exp:
                viol.append(('data-mismatch', 'refpeer decoded %d bytes, expected %d' % (len(got), len(exp))))
            if sess is None or sess.got() != data_b:
                viol.append(('data-mismatch', 'server app got %d bytes, refpeer sent %d' % (
                    len(sess.got()) if sess else -1, len(data_b))))
            conn = w.conn
        else:
            w.login()
            sid = rp.session_id
            rp.ciphers_cs = rp.ciphers_sc = [c2[0]]
            rp.macs_cs = rp.macs_sc = [c2[1] or 'hmac-sha1']
            rp.comps_cs = rp.comps_sc = [comp(c2)]
            if when == 'after-auth':
                rekey_now()
            chan, sess = w.run(w.conn.create_session(lambda: P.RecSession('cli'), encoding=None))
            if when == 'after-open':
                rekey_now()
            chan.write(data_a)
            w.flush()
            if when == 'mid-data':
                rekey_now()
            sender = w.chan_opens[0][1]
            rp.send_app(rp.channel_data(sender, data_b))
            chan.write(data_a)
            w.flush()
            got = b''.join(R.Reader(p, 5).string() for t, p in rp.inbox if t == R.MSG_CHANNEL_DATA)
            if got != data_a * 2:
                viol.append(('data-mismatch', 'refpeer decoded %d bytes, expected %d' % (len(got), 2 * len(data_a))))
            if sess.got() != data_b:
                viol.append(('data-mismatch', 'client app got %d bytes of %d' % (len(sess.got()), len(data_b))))
            conn = w.conn
        if w.proto.error:
            viol.append(('refpeer-reject', str(w.proto.error)))
        if rp.kex_done < 2:
            viol.append(('no-rekey', 'only %d exchange(s) completed (%s-initiated)' % (rp.kex_done, initiator)))
        else:
            if rp.session_id != sid or conn._session_id != sid:
                viol.append(('session-id-changed', ''))
            sends = [k for k in rp.keys_history if k[0] == 'recv']
            if len(sends) >= 2 and sends[-1][2:] == sends[-2][2:]:
                viol.append(('keys-not-fresh', 'keys protecting asyncssh output are identical before and after NEWKEYS'))
            if rp.negotiated.get('enc_cs') != c2[0]:
                viol.append(('algorithm-not-renegotiated', repr(rp.negotiated)))
        if conn._transport is None:
            viol.append(('connection-lost', repr(getattr(w.owner, 'lost_exc', None))))
        exc = w.loop.unretrieved()
        if exc:
            viol.append(('loop-exception', repr(exc[0].get('exception') or exc[0].get('message'))[:200]))
    except (R.RefError, Livelock) as exc:
        viol.append(('refpeer-reject', str(exc)))
    except asyncssh.Error as exc:
        # the application's own call failed: the endpoint under test gave up on a conforming peer
        viol.append(('connection-lost', repr(exc)[:200]))
    finally:
        w.close()
    return viol


def b_worker(job):
    acc = core.Acc()
    for role, when, c1, c2, initiator in job:
        viol = refpeer_rekey(role, when, c1, c2, initiator)
        acc.add(core.digest((role, when, c1, c2, initiator)), transitions=1,
                sample={'refpeer_rekey': {'role_under_test': role, 'when': when, 'before': c1, 'after': c2,
                                          'initiator': initiator}} if c1 != c2 and when == 'mid-data' else None)
        for k, d in viol:
            acc.violation('rekeyB:%s:%s:%s:%s' % (k, role, initiator, when), '%s (%r -> %r)' % (d, c1, c2),
                          {'kind': 'B', 'job': [role, when, list(c1), list(c2), initiator]})
    return acc


def b_jobs():
    suites = [('aes128-ctr', 'hmac-sha2-256'), ('aes256-gcm@openssh.com', None),
              ('chacha20-poly1305@openssh.com', None), ('aes128-cbc', 'hmac-sha1-etm@openssh.com'),
              # with compression: a re-exchange starts fresh compression contexts in both directions
              ('aes128-ctr', 'hmac-sha2-256', 'zlib@openssh.com'), ('chacha20-poly1305@openssh.com', None, 'zlib')]
    jobs = []
    for role in ('server', 'client'):
        for initiator in ('refpeer', 'asyncssh'):
            for when in ('pre-auth', 'after-auth', 'after-open', 'mid-data'):
                if when == 'pre-auth' and (role != 'server' or initiator != 'refpeer'):
                    continue
                for c1 in suites:
                    for c2 in suites:
                        jobs.append((role, when, c1, c2, initiator))
    return [jobs[i::32] for i in range(32)]


# ------------------------------------------------------------------ harness C: NEWKEYS (and key exchange messages) with no exchange behind them
def stray_run(role, suite, strict, after_rekeys, msg):
    """after `after_rekeys` genuine re-exchanges the independent peer sends a NEWKEYS (or a stale kex message)
    that no exchange called for: it must end the connection -- accepting it would put the old keys back in
    force (and, with strict kex, restart the sequence number under them)"""
    algs = dict(encryption_algs=[suite[0]], mac_algs=[suite[1]] if suite[1] else ())
    kw = dict(ciphers=[suite[0]], macs=[suite[1] or 'hmac-sha1'], strict=strict)
    if role == 'server':
        w = H.SrvWorld(sopts=algs, rp_kw=kw)
    else:
        w = H.CliWorld(copts=algs, rp_kw=kw)
    viol = []
    try:
        rp = w.rp
        if role == 'server':
            w.kex().auth()
        else:
            w.login()
        for _ in range(after_rekeys):
            rp.send_kexinit()
            w.flush()
        n = rp.kex_done
        if n != 1 + after_rekeys:
            viol.append(('no-rekey', 'exchanges completed: %d' % n))
        payload = {'newkeys': R.byte(R.MSG_NEWKEYS), 'kex-init-msg': R.byte(30) + R.string(bytes(32)),
                   'kex-reply-msg': R.byte(31) + R.string(b'x') + R.string(bytes(32)) + R.string(b'y')}[msg]
        R.RefPeer.send(rp, payload)
        w.flush()
        # the peer keeps talking under the keys it has: an ignore message, then a real request
        R.RefPeer.send(rp, R.byte(2) + R.string(b'still here'))
        w.flush()
        conn = w.conn
        if conn._transport is not None:
            viol.append(('stray-%s-accepted' % msg, 'the connection is still up after a %s that no key exchange called for '
                         '(%d exchanges completed before it, strict kex %s)' % (msg, n, strict)))
        exc = w.loop.unretrieved()
        if exc:
            viol.append(('loop-exception', repr(exc[0].get('exception') or exc[0].get('message'))[:200]))
    except (R.RefError, Livelock) as exc:
        viol.append(('refpeer-reject', str(exc)))
    except asyncssh.Error as exc:
        # the application's own call failed: the endpoint under test gave up on a conforming peer
        viol.append(('connection-lost', repr(exc)[:200]))
    finally:
        w.close()
    return viol


def c_worker(job):
    acc = core.Acc()
    for case in job:
        viol = stray_run(*case)
        acc.add(core.digest(('stray', case)), transitions=2, sample={'stray': list(case)} if case[3] == 1 and case[4] == 'newkeys' and case[2] else None)
        for k, d in viol:
            acc.violation('rekeyC:%s:%s' % (k, case[0]), '%s ; suite %r' % (d, case[1]), {'kind': 'C', 'job': [case[0], list(case[1]), case[2], case[3], case[4]]})
    return acc


def c_jobs():
    suites = [('aes128-ctr', 'hmac-sha2-256'), ('aes256-gcm@openssh.com', None), ('chacha20-poly1305@openssh.com', None)]
    cases = [(role, su, strict, n, msg) for role in ('server', 'client') for su in suites for strict in (True, False)
             for n in (0, 1, 2) for msg in ('newkeys', 'kex-init-msg', 'kex-reply-msg')]
    return [cases[i::16] for i in range(16)]


def main(tier, seed):
    t0 = core.now()
    cfg0 = configs(tier)[2]
    a = run(cfg0, core.Chooser([0, 1, 0, 1]), seed)
    b = run(cfg0, core.Chooser([0, 1, 0, 1]), seed)
    if a != b:
        print('HARNESS-NONDETERMINISM')
        return 2
    base = run(configs(tier)[0], core.Chooser([]))
    if base['rekeys'] < 1:
        print('HARNESS-ERROR: baseline did not re-key: %r' % (base,))
        return 2
    js = jobs(tier)
    acc = core.pmap(worker, core.rotate(js, seed), chunksize=2)
    n_a = acc.evaluations
    acc.merge(core.pmap(b_worker, b_jobs()))
    acc.merge(core.pmap(c_worker, c_jobs()))
    rule = ('A: configurations {byte limit of ~1 packet / small / 1 kB, time limit with the virtual clock} x '
            '{client, server, both}, ping-pong data both ways on one channel plus a second session opened '
            'mid-stream; every packet delivery order with <= bound deviations, deviations allowed while an '
            'exchange is in progress or a KEXINIT is in flight; B: refpeer or asyncssh initiates a re-exchange '
            'after auth / after channel open / mid-data while the algorithms change between 4 suites (16 '
            'pairs), both roles; C: after 0-2 genuine re-exchanges the peer sends a NEWKEYS or a key exchange message '
            'that no exchange called for: the connection must end.  non-trivial = execution in which at least one re-exchange started')
    return core.finish(PROP, tier, seed, 'model_checking', acc, t0, rule,
                       {'A_execs': n_a, 'B_execs': acc.evaluations - n_a,
                        'deviation_bound': 3 if tier == 'quick' else 4,
                        'rekeys_started_total': acc.counters.get('rekeys', 0)})


def replay(rep):
    r = rep['replay']
    if r.get('kind') == 'C':
        j = r['job']
        acc = c_worker([[(j[0], tuple(j[1]), j[2], j[3], j[4])]])
        print(json.dumps(acc.violations, indent=1, default=repr))
        if acc.violations:
            print('VIOLATION property=%s replay=(given)' % PROP)
        return 1 if acc.violations else 0
    if r['kind'] == 'A':
        obs = run(r['cfg'], core.Chooser(r['choices']))
        v = obs['viol']
    else:
        j = r['job']
        v = refpeer_rekey(j[0], j[1], tuple(j[2]), tuple(j[3]), j[4])
    print(json.dumps({'replay': r, 'violations': v}, indent=1, default=repr)[:3000])
    if v:
        print('VIOLATION property=%s replay=(given)' % PROP)
        return 1
    return 0
