"""C04  Client only talks to a server whose host key it trusts.

Exhaustive enumeration of (known_hosts text x target x server credential x clock)
through real handshakes on the virtual loop; an independent acceptance predicate
says accept/reject; on reject no USERAUTH_REQUEST may ever leave the client.
Lying servers (present a trusted blob they hold no key for) are played by refpeer.
"""

import base64
import fnmatch
import hashlib
import hmac
import ipaddress
import itertools
import json
import os
import shutil

import asyncssh
from cryptography.hazmat.primitives import serialization
from cryptography.hazmat.primitives.asymmetric import ed25519

import core
import pair as P
import refpeer as R
import rpharness as H
from vloop import Livelock

PROP = 'C04'
HOST, ADDR = 'h.example', '10.0.0.5'
NOW = 1_700_000_000 + 1000          # determ epoch + initial virtual clock


def K(name):
    return P.key('c04-' + name)


def pub_line(name):
    return K(name).export_public_key('openssh').decode().strip()


# ------------------------------------------------------------------ reference predicate
def pat_match(pat, name):
    return fnmatch.fnmatchcase(name, pat.replace('[', '[[]')) if name else False


def line_matches(patterns, hostform, addrform, addr):
    pos = neg = False
    for p in patterns.split(','):
        negate = p.startswith('!')
        if negate:
            p = p[1:]
        if p.startswith('|1|'):
            _, _, salt, hsh = p.split('|')
            m = False
            for n in (hostform, addrform):
                if n and hmac.new(base64.b64decode(salt), n.encode(), hashlib.sha1).digest() == base64.b64decode(hsh):
                    m = True
        elif '/' in p:
            try:
                m = bool(addr) and ipaddress.ip_address(addr) in ipaddress.ip_network(p)
            except ValueError:
                m = False
        else:
            m = pat_match(p, hostform) or pat_match(p, addrform)
        if m and negate:
            neg = True
        elif m:
            pos = True
    return pos and not neg


def lookup(lines, host, addr, port):
    def collect(with_port):
        hf = '[%s]:%d' % (host, port) if with_port else host
        af = '[%s]:%d' % (addr, port) if with_port else addr
        out = {'': set(), '@cert-authority': set(), '@revoked': set()}
        for marker, pats, key in lines:
            if line_matches(pats, hf, af, None if with_port else addr):
                out[marker].add(key)
        return out
    r = collect(port != 22)
    if port != 22 and not (r[''] or r['@cert-authority']):
        r = collect(False)
    return r


def accept(lines, port, cred, plain_only_excluded=False, cb=(False, False)):
    """cb = (application callback accepts unlisted host keys, ... unlisted CA keys): the callbacks are part
    of the client's trust configuration, but a @revoked entry always wins"""
    r = lookup(lines, HOST, ADDR, port)
    kind = cred[0]
    if kind == 'key':
        return (cred[1] in r[''] or cb[0]) and cred[1] not in r['@revoked']
    # ('cert', subject, ca, ctype, after, before, principals, tampered)
    _, subj, ca, ctype, after, before, principals, tampered = cred
    if not plain_only_excluded and (subj in r[''] or cb[0]) and subj not in r['@revoked']:
        return True         # a server holding (key, certificate) may prove the plain key instead
    if tampered:
        return False
    if not (ca in r['@cert-authority'] or cb[1]) or ca in r['@revoked']:
        return False
    if ctype != 'host':
        return False
    if not after <= NOW < before:
        return False
    if principals and HOST not in principals:
        return False
    return True


# ------------------------------------------------------------------ enumeration
def hashed(name):
    salt = b'0123456789abcdefghij'
    return '|1|%s|%s' % (base64.b64encode(salt).decode(),
                         base64.b64encode(hmac.new(salt, name.encode(), hashlib.sha1).digest()).decode())


PATTERNS = [HOST, 'other.example', '*.example', '!h.example,*.example', ADDR, '10.0.0.0/8', '11.0.0.0/8',
            '[h.example]:2222', '[*.example]:2222', hashed(HOST), hashed('[h.example]:2222'), HOST + ',' + ADDR,
            '*', '!%s,*' % ADDR, '?.example']
MARKERS = ['', '@cert-authority', '@revoked']
KEYS = ['k1', 'k2', 'ca1', 'ca2']


def credentials():
    far = 2 ** 64 - 1
    cs = [('key', 'k1'), ('key', 'k2'),
          ('cert', 'k1', 'ca1', 'host', 0, far, (HOST,), False),
          ('cert', 'k1', 'ca1', 'host', NOW - 100, NOW, (HOST,), False),            # expires exactly now
          ('cert', 'k1', 'ca1', 'host', NOW - 100, NOW + 1, (HOST,), False),
          ('cert', 'k1', 'ca1', 'host', NOW, NOW + 100, (HOST,), False),            # valid from exactly now
          ('cert', 'k1', 'ca1', 'host', NOW + 1, NOW + 100, (HOST,), False),
          ('cert', 'k1', 'ca1', 'host', 0, far, ('other.example',), False),
          ('cert', 'k1', 'ca1', 'host', 0, far, (), False),
          ('cert', 'k1', 'ca1', 'host', 0, far, ('x', HOST), False),
          # principals naming the address the connection lands on (or a wildcard text), not the host asked for
          ('cert', 'k1', 'ca1', 'host', 0, far, (ADDR,), False),
          ('cert', 'k1', 'ca1', 'host', 0, far, ('other.example', ADDR), False),
          ('cert', 'k1', 'ca1', 'host', 0, far, ('*.example',), False),
          ('cert', 'k1', 'ca1', 'user', 0, far, (HOST,), False),
          ('cert', 'k1', 'ca2', 'host', 0, far, (HOST,), False),
          ('cert', 'k2', 'ca1', 'host', 0, far, (HOST,), False),
          ('cert', 'k1', 'ca1', 'host', 0, far, (HOST,), True)]
    return cs


_certs = {}


def make_cert(cred):
    c = _certs.get(cred)
    if c is None:
        _, subj, ca, ctype, after, before, principals, tampered = cred
        gen = K(ca).generate_host_certificate if ctype == 'host' else K(ca).generate_user_certificate
        c = gen(K(subj), 'id-' + subj, principals=list(principals), valid_after=after, valid_before=before)
        if tampered:
            # alter the key id inside the signed body after signing (re-parse fails => cannot be built
            # through the API; build a server that presents the altered blob instead)
            c = ('tampered', c)
        _certs[cred] = c
    return c


def text_of(lines):
    return ''.join('%s%s %s\n' % (m + ' ' if m else '', p, pub_line(k)) for m, p, k in lines)


def connect_once(lines, port, cred, seed=0, kh=None, host=HOST, addr=ADDR, cb=None, config=None):
    """returns observation dict"""
    loop = P.fresh(seed)
    P.install_wire_labels()
    try:
        extra = {}
        if cb is not None:
            class CbClient(P.RecClient):
                def validate_host_public_key(self, host, addr, port, key):
                    return cb[0]

                def validate_host_ca_key(self, host, addr, port, key):
                    return cb[1]
            extra['client_factory'] = CbClient
        text = kh if kh is not None else text_of(lines).encode()
        if cred[0] == 'key':
            hk = [K(cred[1])]
        else:
            cert = make_cert(cred)
            if isinstance(cert, tuple):
                return connect_lying(lines, port, 'tampered-cert', cred, loop)
            hk = [(K(cred[1]), cert)]
        if config is not None:
            # the trust data is whatever the configuration file names: no known_hosts argument at all
            extra.update(config=[config])
            text = ()
        pair = P.Pair(loop, sopts=dict(server_host_keys=hk),
                      copts=dict(known_hosts=text, host=host, port=port, **extra),
                      caddr=('10.0.0.9', 40001), saddr=(addr, port))
        loop.flush_all()
        w = pair.copt.waiter
        obs = {
            'connected': bool(w.done() and not w.cancelled() and w.exception() is None),
            'exc': type(w.exception()).__name__ if w.done() and not w.cancelled() and w.exception() else None,
            'userauth_sent': any(c.label == 50 for c in pair.ct.writes),
            'service_sent': any(c.label == 5 for c in pair.ct.writes),
            'server_saw_auth': any(e[0] == 'begin_auth' for e in (pair.server_owner.log if pair.server_owner else [])),
            'loop_exc': [repr(x.get('exception') or x.get('message'))[:200] for x in loop.unretrieved()],
        }
        return obs
    finally:
        P.done(loop)


def connect_lying(lines, port, how, cred, loop=None):
    """refpeer server that presents a blob it cannot sign for"""
    own_loop = loop is None
    text = text_of(lines).encode()
    w = H.CliWorld(copts=dict(known_hosts=text, host=HOST, port=port))
    try:
        rp = w.rp
        if how == 'tampered-cert':
            cert = make_cert(cred)[1]
            blob = bytearray(cert.public_data)
            idx = blob.find(b'id-')
            blob[idx + 3] ^= 1
            rp.fake_hostkey_blob = bytes(blob)
            # signs with the right subject key so only the CA signature over the body is wrong
            rp.hostkey = ed25519.Ed25519PrivateKey.from_private_bytes(_raw_private(K(cred[1])))
        elif how == 'blob-of-other-key':
            rp.fake_hostkey_blob = K(cred[1]).public_data        # trusted blob, refpeer signs with its own key
        elif how == 'cert-without-key':
            rp.fake_hostkey_blob = make_cert(cred).public_data
        elif how == 'garbage-sig':
            rp.fake_hostkey_blob = K(cred[1]).public_data
            rp.hostkey = _GarbageSigner()
        if how in ('tampered-cert', 'cert-without-key'):
            rp.hostkey_algs = ['ssh-ed25519-cert-v01@openssh.com']
        w.start()
        w.flush()
        wt = w.copt.waiter
        exc = type(wt.exception()).__name__ if wt.done() and not wt.cancelled() and wt.exception() else None
        if exc is None and w.proto.error is not None and 'no common algorithm' in str(w.proto.error):
            # the client offers no algorithm this (certificate-only) server can use: the exchange
            # cannot even start; a real server would answer with a key exchange failure
            exc = 'KeyExchangeFailed'
        return {
            'connected': bool(wt.done() and not wt.cancelled() and wt.exception() is None),
            'exc': exc,
            'userauth_sent': R.MSG_USERAUTH_REQUEST in rp.types(),
            'service_sent': R.MSG_SERVICE_REQUEST in rp.types(),
            'server_saw_auth': R.MSG_USERAUTH_REQUEST in rp.types(),
            'loop_exc': [repr(x.get('exception') or x.get('message'))[:200] for x in w.loop.unretrieved()],
        }
    finally:
        w.close()


class _GarbageSigner:
    def sign(self, data):
        return bytes(64)

    def public_key(self):
        raise RuntimeError


def _raw_private(key):
    from cryptography.hazmat.primitives.serialization import load_ssh_private_key
    pk = load_ssh_private_key(key.export_private_key('openssh'), None)
    return pk.private_bytes(serialization.Encoding.Raw, serialization.PrivateFormat.Raw,
                            serialization.NoEncryption())


def judge(lines, port, cred, obs, expect=None, cb=(False, False)):
    v = []
    exp = accept(lines, port, cred, cb=cb) if expect is None else expect
    if obs['loop_exc']:
        v.append(('loop-exception', obs['loop_exc'][0]))
    if exp and not obs['connected'] and cred[0] == 'key' and port == 22 and not any(cb):
        # (sanity only; C04 itself does not demand that a trusted server is accepted)
        v.append(('trusted-server-rejected', 'predicate accepts, connect failed with %s' % obs['exc']))
    if not exp:
        if obs['connected']:
            v.append(('untrusted-server-accepted', 'predicate rejects but the connection was established'))
        else:
            if obs['exc'] not in ('HostKeyNotVerifiable', 'KeyExchangeFailed'):
                v.append(('wrong-error', 'connect failed with %s' % obs['exc']))
        if obs['userauth_sent'] or obs['server_saw_auth']:
            v.append(('credentials-sent-to-untrusted-server', 'a USERAUTH_REQUEST left the client'))
    return v


def numeric_involved(lines):
    """does any line carry a bare address or CIDR atom (negated or not)?"""
    for _m, pats, _k in lines:
        for atom in pats.split(','):
            a = atom.lstrip('!')
            if a.startswith('|') or a.startswith('['):
                continue
            try:
                ipaddress.ip_network(a, strict=False)
                return True
            except ValueError:
                pass
    return False


def worker(job):
    files, ports, creds = job
    acc = core.Acc()
    for lines in files:
        for port in ports:
            for cred in creds:
                try:
                    obs = connect_once(lines, port, cred)
                    viol = judge(lines, port, cred, obs)
                    if port != 22 and numeric_involved(lines):
                        # how bare address / CIDR atoms (asyncssh matches them numerically) combine with the
                        # [host]:port form is not documented anywhere: hygiene only, as in C17
                        viol = [v for v in viol if v[0] in ('loop-exception',)]
                        acc.count('not-compared:address-atom-with-port')
                    out = (obs['connected'], obs['exc'])
                except Livelock as exc:
                    viol, out = [('livelock', str(exc))], 'livelock'
                acc.add(core.digest((lines, port, cred, out)), transitions=1,
                        sample={'known_hosts': text_of(lines)[:160], 'port': port, 'credential': cred[:4],
                                'connected': out[0]} if len(lines) == 2 and cred[0] == 'cert' and out != 'livelock' and out[0] else None)
                acc.count('accepted' if out != 'livelock' and out[0] else 'rejected')
                for k, det in viol:
                    acc.violation('trust:%s:%s:%s' % (k, cred[0] + ('/' + cred[3] if cred[0] == 'cert' else ''),
                                                      '+'.join('%s%s' % (m, '') for m, _, _ in lines) or 'plain'),
                                  '%s ; known_hosts=%r port=%d cred=%r' % (det, text_of(lines)[:300], port, cred),
                                  {'kind': 'real', 'lines': [list(l) for l in lines], 'port': port, 'cred': list(cred)})
    return acc


def callback_worker(job):
    """clients whose application callbacks (validate_host_public_key / validate_host_ca_key) accept
    keys that known_hosts does not list: a listed-or-accepted key is usable, a @revoked one never is"""
    acc = core.Acc()
    creds = credentials()
    cs = [creds[0], creds[1], creds[2], creds[3], creds[10], creds[11], creds[13]]
    for lines in job:
        for cb in ((True, False), (False, True), (True, True)):
            for cred in cs:
                try:
                    obs = connect_once(lines, 22, cred, cb=cb)
                    viol = judge(lines, 22, cred, obs, cb=cb)
                    out = (obs['connected'], obs['exc'])
                except Livelock as exc:
                    viol, out = [('livelock', str(exc))], 'livelock'
                acc.add(core.digest(('cb', lines, cb, cred, out)), transitions=1,
                        sample={'known_hosts': text_of(lines)[:160], 'callbacks_accept(key,ca)': list(cb), 'credential': cred[:4],
                                'connected': out[0]} if lines and lines[0][0] == '@revoked' and cb[0] and cred[0] == 'key' and out != 'livelock' else None)
                acc.count('cb-accepted' if out != 'livelock' and out[0] else 'cb-rejected')
                for k, det in viol:
                    acc.violation('trust:%s:callback:%s:%s' % (k, cred[0] + ('/' + cred[3] if cred[0] == 'cert' else ''),
                                                               '+'.join(m for m, _, _ in lines) or 'plain'),
                                  '%s ; known_hosts=%r callbacks accept (key, ca)=%r cred=%r' % (det, text_of(lines)[:300], cb, cred),
                                  {'kind': 'cb', 'lines': [list(l) for l in lines], 'cb': list(cb), 'cred': list(cred)})
    return acc


def shared_worker(job):
    """one SSHKnownHosts object used for two connections in a row: the second outcome must equal the
    outcome with a freshly parsed object (no state may leak between lookups)"""
    acc = core.Acc()
    targets = [(HOST, ADDR), (HOST, '10.0.0.6'), ('other.example', ADDR)]
    for lines in job:
        text = text_of(lines)
        for (h1, a1), (h2, a2) in itertools.product(targets, repeat=2):
            for c1, c2 in itertools.product([('key', 'k1'), ('key', 'k2')], repeat=2):
                shared = asyncssh.import_known_hosts(text)
                connect_once(lines, 22, c1, kh=shared, host=h1, addr=a1)
                second = connect_once(lines, 22, c2, kh=shared, host=h2, addr=a2)
                fresh = connect_once(lines, 22, c2, kh=asyncssh.import_known_hosts(text), host=h2, addr=a2)
                acc.add(core.digest((lines, h1, a1, h2, a2, c1, c2, second['connected'])), transitions=3,
                        sample={'shared_known_hosts': text[:120], 'first': [h1, a1], 'second': [h2, a2],
                                'second_connected': second['connected']} if second['connected'] and (h1, a1) != (h2, a2) else None)
                if second['connected'] != fresh['connected'] or second['exc'] != fresh['exc']:
                    acc.violation('trust:state-leak-between-lookups:%s' % ('accepted' if second['connected'] else 'rejected'),
                                  'known_hosts %r: after a connection to %s@%s the connection to %s@%s with %r gave '
                                  '%r/%r, a fresh object gives %r/%r' % (text, h1, a1, h2, a2, c2, second['connected'],
                                                                           second['exc'], fresh['connected'], fresh['exc']),
                                  {'kind': 'shared', 'lines': [list(l) for l in lines]})
    return acc


def forms_worker(job):
    """the same trust data handed over in the other forms the option accepts -- one file name, a list of
    file names (lines spread over the files, each file with or without a final newline), a loaded
    SSHKnownHosts object, a callable -- must decide every connection exactly like the in-memory text"""
    import tempfile
    acc = core.Acc()
    tmp = tempfile.mkdtemp(prefix='asyncssh-verif-c04-', dir='/dev/shm')
    try:
        for lines in job:
            text = text_of(lines)
            for cred in (('key', 'k1'), ('key', 'k2')):
                ref = connect_once(lines, 22, cred)
                forms = []
                for nl1 in ('\n', ''):
                    for nl2 in ('\n', ''):
                        paths = []
                        for i, (ln, nl) in enumerate(zip(lines, (nl1, nl2))):
                            p = os.path.join(tmp, 'kh%d' % i)
                            with open(p, 'w') as f:
                                f.write(text_of((ln,)).rstrip('\n') + nl)
                            paths.append(p)
                        forms.append(('list-of-files nl=%r,%r' % (nl1, nl2), list(paths)))
                single = os.path.join(tmp, 'single')
                with open(single, 'w') as f:
                    f.write(text.rstrip('\n'))
                forms.append(('one-file-no-final-newline', single))
                forms.append(('object', asyncssh.import_known_hosts(text)))
                forms.append(('callable', lambda h, a, p, _t=text: asyncssh.import_known_hosts(_t).match(h, a, p)))
                for label, kh in forms:
                    if kh is None:
                        continue
                    try:
                        obs = connect_once(lines, 22, cred, kh=kh)
                    except Exception as exc:        # pylint: disable=broad-except
                        obs = {'connected': None, 'exc': repr(exc)[:100], 'userauth_sent': None}
                    acc.add(core.digest(('form', lines, cred, label, obs['connected'])), transitions=1,
                            sample={'known_hosts_form': label, 'lines': text[:120], 'connected': obs['connected']}
                            if label.startswith('list') and lines[1][0] == '@revoked' and not obs['connected'] and ref['connected'] is False and cred[1] == lines[1][2] else None)
                    if (obs['connected'], obs['exc'], obs['userauth_sent']) != (ref['connected'], ref['exc'], ref['userauth_sent']):
                        acc.violation('trust:form-changes-decision:%s:%s' % (label.split(' ')[0], 'accepted' if obs['connected'] else 'rejected'),
                                      'known_hosts %r given as %s: connected=%r exc=%r; as in-memory text: connected=%r exc=%r (server key %s)'
                                      % (text, label, obs['connected'], obs['exc'], ref['connected'], ref['exc'], cred[1]),
                                      {'kind': 'forms', 'lines': [list(l) for l in lines]})
    finally:
        shutil.rmtree(tmp, ignore_errors=True)
    return acc


# ------------------------------------------------------------------ trust data named by the client configuration file
CFG_SCOPES = ('Host h.example', 'Host *', 'Host other.example', 'Match host h.example')
CFG_OPTS = ('UserKnownHostsFile', 'GlobalKnownHostsFile')
CFG_VALS = ('good', 'bad', 'none')


def cfgtrust_programs():
    blocks = [(sc, o, v) for sc in CFG_SCOPES for o in CFG_OPTS for v in CFG_VALS]
    progs = []
    for final in CFG_VALS:
        last = ('Host *', 'UserKnownHostsFile', final)
        progs.append((last,))
        for b1 in blocks:
            progs.append((b1, last))
            for b2 in blocks:
                progs.append((b1, b2, last))
    return progs


def cfgtrust_worker(job):
    """no known_hosts argument: the files come from UserKnownHostsFile / GlobalKnownHostsFile of an OpenSSH
    client configuration of 1-3 blocks (specific Host, Host *, another host, Match host) with values {a file
    listing the server's key, a file listing another key, none}.  Each option takes the first value obtained from
    a matching block; the connection is usable iff one of the effective files lists the key the server proved.
    (An effective "UserKnownHostsFile none" means "no host key checking" in asyncssh: counted, not judged.)"""
    import tempfile
    acc = core.Acc()
    tmp = tempfile.mkdtemp(prefix='asyncssh-verif-c04cfg-', dir='/dev/shm')
    try:
        files = {'good': os.path.join(tmp, 'kh_good'), 'bad': os.path.join(tmp, 'kh_bad')}
        with open(files['good'], 'w') as f:
            f.write(text_of((('', HOST, 'k1'),)))
        with open(files['bad'], 'w') as f:
            f.write(text_of((('', HOST, 'k2'),)))
        cfg = os.path.join(tmp, 'config')
        for prog in job:
            with open(cfg, 'w') as f:
                for sc, o, v in prog:
                    f.write('%s\n  %s %s\n' % (sc, o, files.get(v, 'none')))
            eff = {}
            for sc, o, v in prog:
                if sc != 'Host other.example' and o not in eff:
                    eff[o] = v
            effective = [v for v in (eff.get('UserKnownHostsFile'), eff.get('GlobalKnownHostsFile')) if v in ('good', 'bad')]
            rep = {'kind': 'cfgtrust', 'prog': [list(b) for b in prog]}
            try:
                obs = connect_once((), 22, ('key', 'k1'), config=cfg)
            except Exception as exc:        # pylint: disable=broad-except
                acc.violation('trust:harness:cfgtrust', repr(exc)[:200], rep)
                continue
            acc.add(core.digest(('cfgtrust', prog, obs['connected'], obs['exc'])), transitions=1,
                    sample={'config': open(cfg).read().replace(tmp, ''), 'connected': obs['connected'], 'error': obs['exc']}
                    if len(prog) == 2 and prog[0][2] == 'bad' and prog[1][2] == 'none' and prog[0][0] == 'Host h.example' and prog[0][1] == 'UserKnownHostsFile' else None)
            if not effective or eff.get('UserKnownHostsFile') == 'none':
                # "UserKnownHostsFile none" switches host key checking off in asyncssh whatever the global file
                # says (docs/changes.rst, release notes): the library's documented choice, not judged here
                acc.count('cfgtrust:checking-disabled-by-configuration')
                continue
            want = 'good' in effective
            desc = '; '.join('%s: %s %s' % b for b in prog)
            if obs['connected'] and not want:
                acc.violation('trust:untrusted-server-accepted:cfgtrust', 'configuration [%s] names only files that do not list the server key, yet the connection was established' % desc, rep)
            if not want and obs['userauth_sent']:
                acc.violation('trust:credentials-sent-to-untrusted-server:cfgtrust', 'configuration [%s]' % desc, rep)
            if want and not obs['connected']:
                acc.violation('trust:trusted-server-rejected:cfgtrust', 'configuration [%s]: %s' % (desc, obs['exc']), rep)
            if obs['loop_exc']:
                acc.violation('trust:loop-exception:cfgtrust', obs['loop_exc'][0], rep)
    finally:
        shutil.rmtree(tmp, ignore_errors=True)
    return acc


# ------------------------------------------------------------------ connections tunneled through a jump host
def tunnel_cases():
    pats = ['target.example', 'jump.example', '@JUMPADDR', '@TARGETADDR', '*', 'jump.example,@JUMPADDR', 'target.example,@TARGETADDR']
    out = []
    for presented in ('KT', 'KJ'):
        for p1 in pats:
            for k1 in ('KT', 'KJ'):
                for m1 in ('', '@revoked'):
                    out.append((presented, ((m1, p1, k1),)))
                    for p2 in ('target.example', '@JUMPADDR'):
                        for k2 in ('KT', 'KJ'):
                            out.append((presented, ((m1, p1, k1), ('', p2, k2))))
    return out


def tunnel_run(case):
    """client -> jump host -> target: the target's host key is looked up for the target's *name* only (its address
    is not known to the client; the jump host's address certainly is not the target's).  A key listed for the
    jump host's name or address must not vouch for the target."""
    presented, lines = case
    loop = P.fresh(0)
    P.install_wire_labels()
    keys = {'KT': P.key('c04-target'), 'KJ': P.key('c04-jump')}
    log = []
    try:
        class Srv(P.RecServer):
            def connection_requested(self, dest_host, dest_port, orig_host, orig_port):
                return True

        class Target(P.RecServer):
            def validate_password(self, username, password):
                log.append(('password', username, password))
                return True

        async def setup():
            j = await asyncssh.listen('jump.example', 22, server_factory=lambda: Srv({}), server_host_keys=[keys['KJ']], keepalive_interval=0)
            t = await asyncssh.listen('target.example', 22, server_factory=lambda: Target({}), server_host_keys=[keys[presented]], keepalive_interval=0)
            return j, t
        st = loop.create_task(setup())
        loop.flush_all()
        st.result()
        import hashlib

        def fake_addr(name):
            h = hashlib.sha256(name.encode()).digest()
            return '10.%d.%d.%d' % (h[0], h[1], h[2] or 1)
        sub = {'@JUMPADDR': fake_addr('jump.example'), '@TARGETADDR': fake_addr('target.example')}
        text = ''
        for m, p, k in lines:
            pp = ','.join(sub.get(x, x) for x in p.split(','))
            text += '%s%s %s\n' % (m + ' ' if m else '', pp, keys[k].export_public_key('openssh').decode().strip())
        out = {}

        async def go():
            jc = await asyncssh.connect('jump.example', 22, known_hosts=None, username='u', password='pw', client_keys=None,
                                        agent_path=None, config=None, kex_algs=['curve25519-sha256'])
            try:
                tc = await asyncssh.connect('target.example', 22, tunnel=jc, known_hosts=text.encode(), username='alice', password='secret',
                                            client_keys=None, agent_path=None, config=None, kex_algs=['curve25519-sha256'])
                out['peer'] = tc.get_extra_info('peername')
                tc.close()
                return 'connected'
            except (asyncssh.Error, OSError) as exc:
                return type(exc).__name__
            finally:
                jc.close()
        t = loop.create_task(go())
        loop.flush_all(horizon=100000)
        res = t.result() if t.done() and not t.exception() else ('pending' if not t.done() else repr(t.exception()))
        return res, list(log), out.get('peer'), text, loop.unretrieved()
    finally:
        P.done(loop)


def tunnel_worker(job):
    acc = core.Acc()
    for case in job:
        presented, lines = case
        try:
            res, log, peer, text, lexc = tunnel_run(case)
        except Exception as exc:            # pylint: disable=broad-except
            acc.violation('trust:harness:tunnel', repr(exc), {'kind': 'tunnel', 'case': repr(case)})
            continue
        trusted = revoked = False
        for m, p, k in lines:
            names = p.split(',')
            if k == presented and ('target.example' in names or '*' in names):
                if m == '@revoked':
                    revoked = True
                else:
                    trusted = True
        want = trusted and not revoked
        acc.add(core.digest(('tunnel', case, res)), transitions=2,
                sample={'tunneled_target_presents': presented, 'known_hosts': text[:200].replace(chr(10), ' | '), 'result': res}
                if presented == 'KJ' and any('@JUMPADDR' in l[1] for l in lines) and len(lines) == 1 and lines[0][0] == '' and lines[0][2] == 'KJ' else None)
        rep = {'kind': 'tunnel', 'case': [presented, [list(l) for l in lines]]}
        if res == 'connected' and not want:
            acc.violation('trust:untrusted-server-accepted:tunnel', 'the tunneled target presented %s; known_hosts %r vouches for it only through the jump '
                          'host (or not at all), yet the connection was established (client sees peer %r)' % (presented, text, peer), rep)
        if not want and log:
            acc.violation('trust:credentials-sent-to-untrusted-server:tunnel', 'the target received %r' % (log,), rep)
        if want and res != 'connected':
            acc.violation('trust:trusted-server-rejected:tunnel', 'known_hosts %r, target presents %s: %s' % (text, presented, res), rep)
        if res not in ('connected', 'HostKeyNotVerifiable', 'KeyExchangeFailed'):
            acc.violation('trust:wrong-error:tunnel', res, rep)
        if lexc:
            acc.violation('trust:loop-exception:tunnel', repr(lexc[0].get('exception'))[:200], rep)
    return acc


def rekey_hostkey_case(how):
    """after a good login the server starts a re-exchange and proves a different host key: an unlisted one,
    a revoked one, or (control) the same trusted one"""
    lines = (('', HOST, 'k1'), ('@revoked', '*', 'k2'))
    text = text_of(lines).encode()
    w = H.CliWorld(copts=dict(known_hosts=text, host=HOST, port=22))
    try:
        rp = w.rp
        rp.hostkey = ed25519.Ed25519PrivateKey.from_private_bytes(_raw_private(K('k1')))
        w.login()
        name = {'rekey-unlisted-key': 'ca2', 'rekey-revoked-key': 'k2', 'rekey-same-key': 'k1'}[how]
        rp.hostkey = ed25519.Ed25519PrivateKey.from_private_bytes(_raw_private(K(name)))
        n = rp.kex_done
        rp.send_kexinit()
        w.flush()
        t = w.loop.create_task(w.conn.open_session('x', encoding=None))
        w.flush()
        if t.done() and not t.cancelled():
            t.exception()
        up = w.conn._transport is not None
        owner = w.owner
        return {'up': up, 'rekeyed': rp.kex_done > n, 'exc': type(owner.lost_exc).__name__ if owner is not None and owner.lost else None,
                'loop_exc': [repr(x.get('exception') or x.get('message'))[:200] for x in w.loop.unretrieved()]}
    finally:
        w.close()


def rekey_hostkey_worker(_job):
    acc = core.Acc()
    for how in ('rekey-same-key', 'rekey-unlisted-key', 'rekey-revoked-key'):
        try:
            obs = rekey_hostkey_case(how)
        except (Livelock, R.RefError) as exc:
            acc.violation('trust:harness:%s' % how, repr(exc), {'kind': 'rekey', 'how': how})
            continue
        acc.add(core.digest((how, obs['up'], obs['exc'])), transitions=2, sample={'re-exchange': how, 'connection_up': obs['up'], 'client_error': obs['exc']})
        if how == 'rekey-same-key':
            if not obs['up'] or not obs['rekeyed']:
                acc.violation('trust:trusted-server-rejected:rekey', repr(obs), {'kind': 'rekey', 'how': how})
        elif obs['up'] or obs['rekeyed']:
            acc.violation('trust:untrusted-server-accepted:%s' % how, 'the re-exchange with a host key the configuration does not accept '
                          'completed (connection up=%s, client error %s)' % (obs['up'], obs['exc']), {'kind': 'rekey', 'how': how})
        elif obs['exc'] not in ('HostKeyNotVerifiable', 'KeyExchangeFailed'):
            acc.violation('trust:wrong-error:%s' % how, 'client ended with %s' % obs['exc'], {'kind': 'rekey', 'how': how})
        if obs['loop_exc']:
            acc.violation('trust:loop-exception:%s' % how, obs['loop_exc'][0], {'kind': 'rekey', 'how': how})
    return acc


def lying_worker(job):
    acc = core.Acc()
    for how, lines, cred in job:
        obs = connect_lying(lines, 22, how, cred)
        viol = judge(lines, 22, cred, obs, expect=False)
        acc.add(core.digest((how, lines, obs['connected'], obs['exc'])), transitions=1,
                sample={'lying_server': how, 'client_error': obs['exc']})
        for k, det in viol:
            acc.violation('trust:%s:lying:%s' % (k, how), det, {'kind': 'lying', 'how': how,
                                                                'lines': [list(l) for l in lines], 'cred': list(cred)})
    return acc


def files(tier):
    one = [((m, p, k),) for m in MARKERS for p in PATTERNS for k in KEYS]
    second_p = [HOST, '*', 'other.example'] if tier == 'quick' else PATTERNS
    two = []
    for a in one:
        for m in MARKERS:
            for p in second_p:
                for k in KEYS:
                    two.append((a[0], (m, p, k)))
                    if tier == 'thorough':
                        two.append(((m, p, k), a[0]))
    return one, two


def main(tier, seed):
    t0 = core.now()
    creds = credentials()
    one, two = files(tier)
    a = connect_once(one[0], 22, creds[0], seed)
    b = connect_once(one[0], 22, creds[0], seed)
    if a != b:
        print('HARNESS-NONDETERMINISM')
        return 2
    jobs = []
    for i in range(0, len(one), 6):
        jobs.append((one[i:i + 6], (22, 2222), creds))
    c2 = [creds[0], creds[2], creds[11]] if tier == 'quick' else creds
    step = 40
    for i in range(0, len(two), step):
        jobs.append((two[i:i + step], (22,) if tier == 'quick' else (22, 2222), c2))
    # non-default port: a [host]:port line together with a plain line (the port form wins whenever it names a
    # trusted key or CA; only then does the plain name not count)
    portp = ['[h.example]:2222', '[*.example]:2222', hashed('[h.example]:2222')]
    pfiles = [((m1, p1, k1), (m2, p2, k2)) for m1 in MARKERS for p1 in portp for k1 in KEYS
              for m2 in MARKERS for p2 in (HOST, '*') for k2 in KEYS]
    pfiles += [(b, a) for a, b in pfiles[::5]]
    for i in range(0, len(pfiles), 40):
        jobs.append((pfiles[i:i + 40], (2222,), c2))
    acc = core.pmap(worker, core.rotate(jobs, seed))
    full = ('cert', 'k1', 'ca1', 'host', 0, 2 ** 64 - 1, (HOST,), False)
    lying = [[('blob-of-other-key', (('', HOST, 'k1'),), ('key', 'k1')),
              ('garbage-sig', (('', HOST, 'k1'),), ('key', 'k1')),
              ('cert-without-key', (('@cert-authority', HOST, 'ca1'),), full),
              ('tampered-cert', (('@cert-authority', HOST, 'ca1'),), full[:-1] + (True,)),
              ('blob-of-other-key', (('', '*', 'k1'), ('', '*', 'k2')), ('key', 'k2'))]]
    acc.merge(core.pmap(lying_worker, lying))
    acc.merge(core.pmap(rekey_hostkey_worker, [0]))
    tc = tunnel_cases()
    acc.merge(core.pmap(tunnel_worker, [tc[i::32] for i in range(32)]))
    ffiles = [((m1, p1, k1), (m2, p2, k2)) for m1 in MARKERS for p1 in (HOST, '*') for k1 in ('k1', 'k2')
              for m2 in MARKERS for p2 in (HOST, '*') for k2 in ('k1', 'k2')]
    acc.merge(core.pmap(forms_worker, [ffiles[i::32] for i in range(32)]))
    cprogs = cfgtrust_programs()
    acc.merge(core.pmap(cfgtrust_worker, [cprogs[i::32] for i in range(32)]))
    sp = [HOST, ADDR, '10.0.0.6', 'other.example', '*']
    sfiles = [(('', p1, k1), ('', p2, k2)) for p1 in sp for k1 in ('k1', 'k2') for p2 in sp for k2 in ('k1', 'k2')]
    acc.merge(core.pmap(shared_worker, [sfiles[i::32] for i in range(32)]))
    cp = [HOST, '*', 'other.example']
    cone = [()] + [((m, p, k),) for m in MARKERS for p in cp for k in KEYS]
    ctwo = [(a[0], (m, p, k)) for a in cone[1:] for m in MARKERS[1:] for p in (cp if tier == 'thorough' else cp[:2]) for k in KEYS]
    cfiles = cone + ctwo
    acc.merge(core.pmap(callback_worker, [cfiles[i::32] for i in range(32)]))
    rule = ('known_hosts files of 1 line (15 pattern forms x 3 markers x 4 keys) for ports 22 and 2222 and '
            'of 2 lines (second line over a reduced pattern set in quick) x server credential (2 plain keys, '
            '12 host/user certificates: validity windows at the exact boundaries of the virtual clock, '
            'principal sets, wrong type, other CA, altered body) through a real handshake; independent '
            'predicate decides; lying servers via refpeer; a re-exchange in which the server proves another (unlisted, revoked) key; connections tunneled through a jump host with known_hosts lines for the names and addresses of both hosts; 144 two-line files handed over as one file, lists of files with and without final newlines, object, callable; %d files of 0-2 lines x application callbacks accepting '
            'unlisted host keys / CA keys / both x 7 credentials; %d client configurations of 1-3 blocks naming the known_hosts files (UserKnownHostsFile / GlobalKnownHostsFile x 4 block scopes x {file listing the key, file listing another key, none}), no known_hosts argument' % (len(cfiles), len(cprogs)))
    return core.finish(PROP, tier, seed, 'model_checking', acc, t0, rule,
                       {'one_line_files': len(one), 'two_line_files': len(two), 'credentials': len(creds)},
                       assumptions=['bare address / CIDR atoms combined with a non-default port are not judged (undocumented '
                                    'interplay of numeric matching with the [host]:port form; same rule as C17)',
                                    'the predicate encodes the property wording (listed non-revoked key, or host '
                                    'certificate of a trusted non-revoked CA, valid now, covering the host); a '
                                    '@revoked subject key inside an otherwise valid certificate is not part of it',
                                    'X.509 host certificates and GSS not driven'])


def replay(rep):
    r = rep['replay']
    lines = tuple(tuple(l) for l in r.get('lines', []))
    cred = tuple(tuple(x) if isinstance(x, list) else x for x in r.get('cred', []))
    if r['kind'] == 'shared':
        acc = shared_worker([lines])
        print(json.dumps(acc.violations[:3], indent=1, default=repr))
        return 1 if acc.violations else 0
    cred = None if 'cred' not in r else r['cred']
    if r['kind'] == 'tunnel':
        acc = tunnel_worker([(r['case'][0], tuple(tuple(l) for l in r['case'][1]))])
        print(json.dumps(acc.violations[:3], indent=1, default=repr))
        return 1 if acc.violations else 0
    if r['kind'] == 'cfgtrust':
        acc = cfgtrust_worker([tuple(tuple(b) for b in r['prog'])])
    elif r['kind'] == 'forms':
        acc = forms_worker([tuple(tuple(l) for l in r['lines'])])
        print(json.dumps(acc.violations[:3], indent=1, default=repr))
        return 1 if acc.violations else 0
    if r['kind'] == 'rekey':
        acc = rekey_hostkey_worker(0)
        print(json.dumps(acc.violations[:3], indent=1, default=repr))
        return 1 if acc.violations else 0
    if r['kind'] == 'cb':
        cred = tuple(tuple(x) if isinstance(x, list) else x for x in cred)
        obs = connect_once(lines, 22, cred, cb=tuple(r['cb']))
        v = judge(lines, 22, cred, obs, cb=tuple(r['cb']))
    elif r['kind'] == 'lying':
        obs = connect_lying(lines, 22, r['how'], cred)
        v = judge(lines, 22, cred, obs, expect=False)
    else:
        obs = connect_once(lines, r['port'], cred)
        v = judge(lines, r['port'], cred, obs)
    print(json.dumps({'known_hosts': text_of(lines), 'observation': obs, 'violations': v}, indent=1, default=repr))
    if v:
        print('VIOLATION property=%s replay=(given)' % PROP)
        return 1
    return 0
