"""C05 converse: a real asyncssh client presenting a valid credential is admitted.

Scenarios: password, local key, OpenSSH user certificate, agent-held key (asyncssh's
SSHAgentClient against an in-process agent model on the virtual network), each run to
quiescence with all events delivered, for several key types.
"""

import asyncio
import struct

import asyncssh

import core
import pair as P


class AgentModel(asyncio.Protocol):
    """Minimal ssh-agent: REQUEST_IDENTITIES (11) and SIGN_REQUEST (13)"""

    def __init__(self, keys, refuse=()):
        self.keys = keys
        self.refuse = set(refuse)      # public blobs of keys the agent lists but will not sign with (removed, locked, denied)
        self.buf = b''
        self.t = None
        self.signs = 0

    def connection_made(self, transport):
        self.t = transport

    def data_received(self, data):
        self.buf += data
        while len(self.buf) >= 4:
            n = struct.unpack('>I', self.buf[:4])[0]
            if len(self.buf) < 4 + n:
                return
            msg, self.buf = self.buf[4:4 + n], self.buf[4 + n:]
            self.reply(msg)

    def reply(self, msg):
        def s(b):
            return struct.pack('>I', len(b)) + b
        t = msg[0]
        if t == 11:
            out = bytes([12]) + struct.pack('>I', len(self.keys))
            for k in self.keys:
                out += s(k.public_data) + s(b'agent key')
        elif t == 13:
            pos = 1
            n = struct.unpack('>I', msg[pos:pos + 4])[0]
            blob = msg[pos + 4:pos + 4 + n]
            pos += 4 + n
            n = struct.unpack('>I', msg[pos:pos + 4])[0]
            data = msg[pos + 4:pos + 4 + n]
            pos += 4 + n
            flags = struct.unpack('>I', msg[pos:pos + 4])[0]
            out = bytes([5])
            for k in self.keys:
                if k.public_data == blob and blob not in self.refuse:
                    alg = k.sig_algorithms[0]
                    if k.algorithm == b'ssh-rsa':
                        alg = b'rsa-sha2-512' if flags & 4 else b'rsa-sha2-256' if flags & 2 else b'ssh-rsa'
                    self.signs += 1
                    out = bytes([14]) + s(k.sign(data, alg))
        else:
            out = bytes([5])
        self.t.write(s(out))

    def eof_received(self):
        return False

    def connection_lost(self, exc):
        pass


def scenario(name, keyalg):
    """returns (copts, server authorized_keys text or None, setup(loop))"""
    ukey = P.key('user-' + keyalg, keyalg)
    pub = ukey.export_public_key('openssh').decode()
    if name == 'password':
        return dict(password='pw', preferred_auth='password'), None, None
    if name == 'localkey':
        return dict(client_keys=[ukey], password=None, preferred_auth='publickey'), pub, None
    if name == 'cert':
        ca = P.key('userca', 'ssh-ed25519')
        cert = ca.generate_user_certificate(ukey, 'user-cert', principals=['user'])
        line = 'cert-authority ' + ca.export_public_key('openssh').decode()
        return dict(client_keys=[(ukey, cert)], password=None,
                    preferred_auth='publickey'), line, None
    if name == 'agent':
        def setup(loop):
            agent = AgentModel([ukey])
            loop.listeners['/vagent'] = __import__('vloop').VServer(
                loop, lambda: agent, ['/vagent'], path='/vagent')
            return agent
        return dict(agent_path='/vagent', client_keys=(), password=None,
                    preferred_auth='publickey'), pub, setup
    raise ValueError(name)


def run_one(name, keyalg):
    loop = P.fresh(0)
    try:
        copts, authkeys, setup = scenario(name, keyalg)
        extra = setup(loop) if setup else None
        sopts = {}
        if authkeys:
            sopts['authorized_client_keys'] = asyncssh.import_authorized_keys(authkeys)
        pair = P.Pair(loop, sopts=sopts, copts=copts, env={'password': 'pw'})
        loop.flush_all()
        w = pair.copt.waiter
        ok = w.done() and not w.cancelled() and w.exception() is None
        detail = None if ok else repr(w.exception() if w.done() else 'pending')
        srv_user = pair.s.get_extra_info('username')
        if ok and srv_user != 'user':
            ok, detail = False, 'server username %r' % (srv_user,)
        if ok and name == 'agent' and extra.signs < 1:
            ok, detail = False, 'agent never asked to sign'
        if loop.unretrieved():
            ok, detail = False, 'loop exception %r' % (loop.exc_log[0],)
        return ok, detail
    finally:
        P.done(loop)



# ------------------------------------------------------------------ method matrix: what the server offers x what the client holds
KBD_MODES = [None, 'pw-prompt', 'code-prompt', 'two-prompts', 'no-echo-pw-prompt', 'pw-then-empty-round']


def matrix_cases():
    out = []
    for kbd in KBD_MODES:
        for srv_pw in (True, False):
            for srv_pk in (True, False):
                if not (kbd or srv_pw or srv_pk):
                    continue
                for cli_pw in (True, False):
                    for cli_keys in ('none', 'good', 'wrong', 'wrong+good'):
                        for order in (None, 'password,keyboard-interactive,publickey', 'keyboard-interactive,password,publickey'):
                            out.append((kbd, srv_pw, srv_pk, cli_pw, cli_keys, order))
                            # the same with a client that refuses logins in which it proved nothing (disable_trivial_auth)
                            out.append((kbd, srv_pw, srv_pk, cli_pw, cli_keys, order, True))
    return out


def matrix_run(case):
    kbd, srv_pw, srv_pk, cli_pw, cli_keys, order = case[:6]
    dta = len(case) > 6 and case[6]
    good, wrong = P.key('user-ssh-ed25519', 'ssh-ed25519'), P.key('user-wrong', 'ssh-ed25519')
    log = []

    class Srv(P.RecServer):
        def password_auth_supported(self):
            return srv_pw

        def validate_password(self, username, password):
            log.append('password')
            return password == 'pw'

        def kbdint_auth_supported(self):
            return bool(kbd)

        def get_kbdint_challenge(self, username, lang, submethods):
            log.append('kbdint-challenge')
            prompts = {'pw-prompt': [('Password:', False)], 'no-echo-pw-prompt': [('Enter your password: ', False)],
                       'code-prompt': [('Verification code:', True)], 'two-prompts': [('Password:', False), ('Token:', True)],
                       'pw-then-empty-round': [('Password:', False)]}[kbd]
            return '', '', '', prompts

        def validate_kbdint_response(self, username, responses):
            log.append('kbdint-response')
            if kbd in ('pw-prompt', 'no-echo-pw-prompt'):
                return list(responses) == ['pw']
            if kbd == 'pw-then-empty-round':
                # PAM style: the accepted answer is followed by one more round that asks nothing (a message only)
                if list(responses) == ['pw'] and not getattr(self, '_round2', False):
                    self._round2 = True
                    return 'Last login: yesterday', '', '', []
                return getattr(self, '_round2', False) and list(responses) == []
            return False

        def public_key_auth_supported(self):
            return srv_pk
    loop = P.fresh(0)
    try:
        env = {}
        holder = {}

        def mk():
            holder['o'] = Srv(env)
            return holder['o']
        sopts = dict(server_factory=mk)
        if srv_pk:
            sopts['authorized_client_keys'] = asyncssh.import_authorized_keys(good.export_public_key('openssh').decode())
        keys = {'none': None, 'good': [good], 'wrong': [wrong], 'wrong+good': [wrong, good]}[cli_keys]
        copts = dict(password='pw' if cli_pw else None, client_keys=keys)
        if dta:
            copts['disable_trivial_auth'] = True
        # order None: the library's own default order (the harness default is password only)
        copts['preferred_auth'] = order or 'publickey,keyboard-interactive,password'
        pair = P.Pair(loop, sopts=sopts, copts=copts, env=env)
        if order is None:
            pass
        loop.flush_all()
        w = pair.copt.waiter
        ok = bool(w.done() and not w.cancelled() and w.exception() is None)
        detail = None if ok else repr(w.exception() if w.done() else 'pending')
        exc = loop.unretrieved()
        return ok, detail, list(log), exc
    finally:
        P.done(loop)


def matrix_worker(job):
    acc = core.Acc()
    for case in job:
        kbd, srv_pw, srv_pk, cli_pw, cli_keys, order = case[:6]
        want = (srv_pk and 'good' in cli_keys) or (srv_pw and cli_pw) or (kbd in ('pw-prompt', 'no-echo-pw-prompt', 'pw-then-empty-round') and cli_pw)
        try:
            ok, detail, log, exc = matrix_run(case)
        except Exception as e:              # pylint: disable=broad-except
            ok, detail, log, exc = None, repr(e), [], []
        acc.add(core.digest(('matrix', case, ok)), transitions=1,
                sample={'server_offers': {'kbdint': kbd, 'password': srv_pw, 'publickey': srv_pk}, 'client_holds': {'password': cli_pw, 'keys': cli_keys},
                        'preferred_auth': order, 'admitted': ok, 'server_saw': log} if kbd == 'code-prompt' and srv_pw and cli_pw and not srv_pk and cli_keys == 'none' else None)
        rep = {'kind': 'matrix', 'case': list(case)}
        if ok is None:
            acc.violation('auth:harness:real-client-matrix', detail, rep)
        elif want and not ok:
            acc.violation('auth:valid-credential-rejected:real-client:kbd=%s,pw=%s,pk=%s' % (kbd, srv_pw, srv_pk),
                          'client holds password=%s keys=%s (preferred_auth=%r) and the server offers a method it is valid for, but connect failed: %s; server saw %r'
                          % (cli_pw, cli_keys, order, detail, log), rep)
        elif ok and not want:
            acc.violation('auth:granted-without-credential:real-client:kbd=%s,pw=%s,pk=%s' % (kbd, srv_pw, srv_pk),
                          'client holds password=%s keys=%s: admitted although no method accepts them; server saw %r' % (cli_pw, cli_keys, log), rep)
        if exc:
            acc.violation('auth:loop-exception:real-client-matrix', repr(exc[0].get('exception'))[:200], rep)
    return acc


# ------------------------------------------------------------------ several identities: agent keys that sign or refuse, local keys
def identity_cases():
    agents = [(('A1', 'sign'),), (('A1', 'refuse'),), (('A1', 'refuse'), ('A2', 'sign')), (('A1', 'sign'), ('A2', 'refuse')),
              (('A1', 'refuse'), ('A2', 'refuse')), ()]
    out = []
    for ag in agents:
        for local in ((), ('L1',), ('L1', 'L2')):
            if not ag and not local:
                continue
            names = ['A1', 'A2', 'L1', 'L2']
            for mask in range(16):
                out.append((ag, local, tuple(n for i, n in enumerate(names) if mask >> i & 1)))
    return out


def identity_worker(job):
    """a real client holding several identities -- keys in an agent that signs with some and refuses others
    (SSH_AGENT_FAILURE), plus local keys -- against a server that authorizes a subset: the client is admitted
    iff one identity it can actually sign with is authorized"""
    acc = core.Acc()
    for ag, local, authorized in job:
        rep = {'kind': 'identity', 'case': [[list(a) for a in ag], list(local), list(authorized)]}
        loop = P.fresh(0)
        try:
            keys = {n: P.key('id-' + n, 'ssh-ed25519') for n in ('A1', 'A2', 'L1', 'L2')}
            copts = dict(password=None, preferred_auth='publickey', client_keys=[keys[n] for n in local] or ())
            agent = None
            if ag:
                agent = AgentModel([keys[n] for n, _b in ag], refuse=[keys[n].public_data for n, b in ag if b == 'refuse'])
                loop.listeners['/vagent'] = __import__('vloop').VServer(loop, lambda: agent, ['/vagent'], path='/vagent')
                copts['agent_path'] = '/vagent'
            text = ''.join(keys[n].export_public_key('openssh').decode() for n in authorized) or P.key('id-nobody', 'ssh-ed25519').export_public_key('openssh').decode()
            sopts = dict(authorized_client_keys=asyncssh.import_authorized_keys(text))
            pair = P.Pair(loop, sopts=sopts, copts=copts, env={'password': 'pw'})
            loop.flush_all()
            w = pair.copt.waiter
            ok = w.done() and not w.cancelled() and w.exception() is None
            exc = type(w.exception()).__name__ if w.done() and not w.cancelled() and w.exception() else None
            usable = [n for n, b in ag if b == 'sign'] + list(local)
            want = any(n in authorized for n in usable)
            acc.add(core.digest(('identity', ag, local, authorized, ok)), transitions=len(ag) + len(local) + 1,
                    sample={'agent': [list(a) for a in ag], 'local_keys': list(local), 'authorized': list(authorized), 'admitted': ok}
                    if ag == (('A1', 'refuse'), ('A2', 'sign')) and authorized == ('A1', 'A2') and not local else None)
            if want and not ok:
                acc.violation('auth:valid-credential-rejected:identities', 'agent %r local keys %r, server authorizes %r: %s' % (ag, local, authorized, exc), rep)
            if ok and not want:
                acc.violation('auth:granted-without-credential:identities', 'agent %r local keys %r, server authorizes %r' % (ag, local, authorized), rep)
            if not w.done():
                acc.violation('auth:hang:identities', 'connect() pending: agent %r local %r authorized %r' % (ag, local, authorized), rep)
            lexc = loop.unretrieved()
            if lexc:
                acc.violation('auth:loop-exception:identities', repr(lexc[0].get('exception') or lexc[0].get('message'))[:200], rep)
        finally:
            P.done(loop)
    return acc


def run(only=None):
    acc = core.Acc()
    algs = ['ssh-ed25519', 'ecdsa-sha2-nistp256', 'ssh-rsa']
    for name in ('password', 'localkey', 'cert', 'agent'):
        for alg in (algs if name != 'password' else ['-']):
            label = '%s/%s' % (name, alg)
            if only and only != label:
                continue
            ok, detail = run_one(name, alg if alg != '-' else 'ssh-ed25519')
            acc.add(core.digest(('converse', label, ok)), transitions=1,
                    sample={'converse': label, 'admitted': ok})
            if not ok:
                acc.violation('auth:valid-credential-rejected:real-client:%s' % label, detail,
                              {'kind': 'converse', 'name': label})
    if not only:
        cases = matrix_cases()
        acc.merge(core.pmap(matrix_worker, [cases[i::16] for i in range(16)]))
        ic = identity_cases()
        acc.merge(core.pmap(identity_worker, [ic[i::16] for i in range(16)]))
    return acc
