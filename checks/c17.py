"""C17  Trust-file lookups follow the documented matching rules.

Bounded-exhaustive enumeration of known_hosts files x queries and authorized_keys option
strings x clients against a reference model written from sshd(8)/ssh-keygen(1) plus the
extensions asyncssh documents (CIDR, address matching, port fallback); `ssh-keygen -F` as a
second implementation on the subset it supports; damaged key fields must be skipped without
affecting other lines.
"""

import base64
import fnmatch
import hashlib
import hmac
import ipaddress
import itertools
import json
import os
import shutil
import subprocess

import asyncssh

import core
import pair as P

PROP = 'C17'
SSH_KEYGEN = shutil.which('ssh-keygen')
SCRATCH = '/dev/shm/asyncssh-verif-c17-%d' % os.getpid()       # unique per check run (workers are forked later)


def K(n):
    return P.key('c17-' + n)


def PK(n):
    return asyncssh.import_public_key(K(n).export_public_key())


def pub(n):
    return K(n).export_public_key('openssh').decode().split()[:2]


def hashed(name, salt=b'saltsaltsaltsaltsalt'):
    return '|1|%s|%s' % (base64.b64encode(salt).decode(),
                         base64.b64encode(hmac.new(salt, name.encode(), hashlib.sha1).digest()).decode())


# ------------------------------------------------------------------ reference model: known_hosts
def wild(pat, name):
    if not name:
        return False
    return fnmatch.fnmatchcase(name, pat.replace('[', '[[]'))


def atom_matches(atom, hname, aname, addr):
    """does one (non-negated) pattern atom match the host-name form / address-name form"""
    if atom.startswith('|1|'):
        _, _, salt, hsh = atom.split('|')
        for n in (hname, aname):
            if n and hmac.new(base64.b64decode(salt), n.encode(), hashlib.sha1).digest() == base64.b64decode(hsh):
                return True
        return False
    try:
        net = ipaddress.ip_network(atom)
        return bool(addr) and ipaddress.ip_address(addr) in net
    except ValueError:
        pass
    return wild(atom, hname) or wild(atom, aname)


def line_matches(patterns, hname, aname, addr):
    pos = neg = False
    for atom in patterns.split(','):
        negate = atom.startswith('!')
        a = atom[1:] if negate else atom
        if atom_matches(a, hname, aname, addr):
            if negate:
                neg = True
            else:
                pos = True
    return pos and not neg


def model_lookup(lines, host, addr, port):
    def collect(with_port):
        hn = ('[%s]:%d' % (host, port) if host else '') if with_port else host
        an = ('[%s]:%d' % (addr, port) if addr else '') if with_port else addr
        out = {'': set(), 'cert-authority': set(), 'revoked': set()}
        for marker, pats, key in lines:
            if key is None:
                continue
            if line_matches(pats, hn, an, numeric):
                out[marker].add(key)
        return out
    with_port = port is not None and port != 22
    if not addr:
        try:
            ipaddress.ip_address(host)
            numeric = host          # a host given as an address literal is also matched numerically
        except ValueError:
            numeric = ''
    else:
        numeric = addr
    r = collect(with_port)
    if with_port and not (r[''] or r['cert-authority']):
        r = collect(False)
    return r


def kh_text(lines):
    out = ''
    for marker, pats, key in lines:
        data = ' '.join(pub(key)) if key and not key.startswith('RAW:') else (key[4:] if key else '')
        out += '%s%s %s\n' % ('@' + marker + ' ' if marker else '', pats, data)
    return out


ATOMS = ['a', 'b', 'a*', '?', '*', '!a', '!b*', '!*', '10.0.0.1', '10.0.0.0/8', '!10.0.0.0/8', '[a]:2222', '[*]:2222',
         '![a]:2222', 'x[1]', '!10.0.0.1', '10.0.0.*', '!10.0.*', '1?.0.0.1']


def pattern_lists(maxlen):
    out = [hashed('a'), hashed('[a]:2222'), hashed('10.0.0.1')]
    for n in range(1, maxlen + 1):
        for t in itertools.permutations(ATOMS, n):
            out.append(','.join(t))
    return out


def queries():
    qs = []
    for host in ('a', 'b', 'ab', 'x[1]'):
        for addr in ('', '10.0.0.1', '11.0.0.1', '::1'):
            for port in (None, 22, 2222):
                qs.append((host, addr, port))
    qs += [('', '10.0.0.1', None), ('10.0.0.1', '', None), ('10.0.0.1', '10.0.0.1', 2222)]
    return qs


def cidr_involved(lines):
    for _m, pats, _k in lines:
        for atom in pats.split(','):
            a = atom.lstrip('!')
            if a.startswith('|') or a.startswith('['):
                continue
            try:
                ipaddress.ip_network(a)
                if '/' not in a:
                    return True     # a bare address atom
            except ValueError:
                pass
    return False


def kh_worker(job):
    files = job
    acc = core.Acc()
    qs = queries()
    names = {K(n).public_data: n for n in ('k1', 'k2', 'k3')}
    for lines in files:
        text = kh_text(lines)
        try:
            kh = asyncssh.import_known_hosts(text)
        except Exception as exc:            # pylint: disable=broad-except
            acc.violation('lookup:import-failed', '%r for %r' % (exc, text), {'kind': 'kh', 'lines': [list(l) for l in lines]})
            continue
        numeric = cidr_involved(lines)
        for host, addr, port in qs:
            if numeric and port == 2222:
                # a bare numeric address as a pattern with a non-default port: not documented (exact and pattern
                # lines differ), not compared; address ranges (a.b.c.d/n) are compared for every port
                continue
            want = model_lookup(lines, host, addr, port)
            try:
                r = kh.match(host, addr, port if port != 22 else None)
                got = {'': {names[k.public_data] for k in r[0]}, 'cert-authority': {names[k.public_data] for k in r[1]},
                       'revoked': {names[k.public_data] for k in r[2]}}
            except Exception as exc:        # pylint: disable=broad-except
                got = 'raised %r' % (exc,)
            acc.evaluations += 1
            acc.transitions += 1
            if got != want:
                # revoked set is only compared when something trusted matched (the fallback discards it otherwise)
                if isinstance(got, dict) and got[''] == want[''] and got['cert-authority'] == want['cert-authority'] and \
                        not (got[''] or got['cert-authority']):
                    continue
                acc.violation('lookup:known-hosts-mismatch:%s' % ('+'.join(sorted({a.lstrip('!')[:1] for _m, p, _k in lines for a in p.split(',')}))[:20]),
                              'known_hosts %r query host=%r addr=%r port=%r: asyncssh %r, model %r' % (text, host, addr, port, got, want),
                              {'kind': 'kh', 'lines': [list(l) for l in lines], 'query': [host, addr, port]})
        acc.digests.add(core.digest(lines))
        if len(acc.samples) < 2 and len(lines) == 2:
            acc.samples.append({'known_hosts': text[:200], 'queries': len(qs)})
    return acc


def kh_files(tier):
    pls = pattern_lists(2 if tier == 'quick' else 2)
    markers = ['', 'cert-authority', 'revoked']
    one = [((m, p, 'k1'),) for m in markers for p in pls]
    second = [(m, p, k) for m in markers for p in (['a', '*', '!a,*', '[a]:2222', '10.0.0.0/8', 'b', hashed('a')] if tier == 'quick'
                                                    else pls[:60]) for k in ('k1', 'k2')]
    two = [(a[0], b) for a in one for b in second]
    if tier == 'quick':
        two = two[::3]
    return one, two


def keygen_worker(job):
    """ssh-keygen -F as a second implementation (names, wildcards, negation, hashed, [host]:port)"""
    files = job
    acc = core.Acc()
    if not SSH_KEYGEN:
        return acc
    tmp = os.path.join(SCRATCH, 'kg-%d' % os.getpid())
    os.makedirs(tmp, exist_ok=True)
    names = {K(n).public_data: n for n in ('k1', 'k2', 'k3')}
    blob2name = {pub(n)[1]: n for n in ('k1', 'k2', 'k3')}
    for lines in files:
        text = kh_text(lines)
        pth = os.path.join(tmp, 'kh')
        with open(pth, 'w') as f:
            f.write(text)
        kh = asyncssh.import_known_hosts(text)
        for host, port in (('a', None), ('b', None), ('ab', None), ('a', 2222), ('x[1]', None)):
            q = host if port is None else '[%s]:%d' % (host, port)
            r = subprocess.run([SSH_KEYGEN, '-F', q, '-f', pth], capture_output=True, text=True)
            found = {'': set(), 'cert-authority': set(), 'revoked': set()}
            for ln in r.stdout.splitlines():
                if ln.startswith('#') or not ln.strip():
                    continue
                parts = ln.split()
                marker = ''
                if parts[0].startswith('@'):
                    marker = parts[0][1:]
                    parts = parts[1:]
                found[marker].add(blob2name.get(parts[2], '?'))
            rr = kh._match(host, '', port)       # first pass only: ssh-keygen -F has no port fallback
            got = {'': {names[k.public_data] for k in rr[0]}, 'cert-authority': {names[k.public_data] for k in rr[1]},
                   'revoked': {names[k.public_data] for k in rr[2]}}
            acc.add(core.digest((lines, q)), transitions=1, sample={'ssh-keygen -F': q, 'file': text[:120]} if len(acc.samples) < 1 else None)
            if got != found:
                acc.violation('lookup:differs-from-ssh-keygen-F', 'known_hosts %r query %s: asyncssh %r, ssh-keygen -F %r'
                              % (text, q, got, found), {'kind': 'keygen', 'lines': [list(l) for l in lines]})
    shutil.rmtree(tmp, ignore_errors=True)
    return acc


# ------------------------------------------------------------------ damaged key fields
def damaged_fields():
    import struct

    def s(b):
        return struct.pack('>I', len(b)) + b

    def mp(n):
        if n == 0:
            return s(b'')
        b = n.to_bytes((n.bit_length() // 8) + 1, 'big', signed=True)
        return s(b)
    good = pub('k1')
    rsa_bad = [s(b'ssh-rsa') + mp(65537) + mp(0), s(b'ssh-rsa') + mp(4) + mp(2 ** 2047 + 1), s(b'ssh-rsa') + mp(-3) + mp(2 ** 2047 + 1),
               s(b'ssh-rsa') + mp(65537)]
    ec_bad = [s(b'ecdsa-sha2-nistp256') + s(b'nistp256') + s(b'\x04' + bytes(64)), s(b'ecdsa-sha2-nistp256') + s(b'nistp256') + s(b''),
              s(b'ecdsa-sha2-nistp256') + s(b'nistp384') + s(b'\x04' + bytes(64)), s(b'ecdsa-sha2-nistp256') + s(b'\xff\xfe') + s(b'\x04' + bytes(64))]
    dsa_bad = [s(b'ssh-dss') + mp(0) + mp(1) + mp(2) + mp(3)]
    ed_bad = [s(b'ssh-ed25519') + s(bytes(31)), s(b'ssh-ed25519') + s(bytes(33)), s(b'ssh-ed25519')]
    out = [('bad-base64', 'ssh-ed25519 !!!notbase64!!!'), ('truncated', 'ssh-ed25519 ' + good[1][:20]),
           ('unknown-alg', 'ssh-foo ' + good[1]), ('alg-mismatch', 'ssh-rsa ' + good[1]), ('no-blob', 'ssh-ed25519'),
           ('garbage', 'this is not a key')]
    for i, b in enumerate(rsa_bad):
        out.append(('rsa-impossible-%d' % i, 'ssh-rsa ' + base64.b64encode(b).decode()))
    for i, b in enumerate(ec_bad):
        out.append(('ec-impossible-%d' % i, 'ecdsa-sha2-nistp256 ' + base64.b64encode(b).decode()))
    for i, b in enumerate(dsa_bad):
        out.append(('dsa-impossible-%d' % i, 'ssh-dss ' + base64.b64encode(b).decode()))
    for i, b in enumerate(ed_bad):
        out.append(('ed-impossible-%d' % i, 'ssh-ed25519 ' + base64.b64encode(b).decode()))
    return out


def damaged_worker(_job):
    acc = core.Acc()
    names = {K(n).public_data: n for n in ('k1', 'k2', 'k3')}
    markers = ('', 'cert-authority', 'revoked')
    for label, field in damaged_fields():
      for bm, m1, m2, sep in itertools.product(markers, markers, markers, ('', '# comment\n\n')):
        # the damaged line carries each marker in turn; a marker belongs to its own line only
        good1 = (m1, 'a', 'k1')
        good2 = (m2, '*', 'k2')
        bad = (bm, 'a', 'RAW:' + field)
        if sep and not bm:
            continue
        for order in ([bad, good1, good2], [good1, bad, good2], [good1, good2, bad]):
            text = sep.join(kh_text([l]) for l in order)
            ref = kh_text([l for l in order if l is not bad])
            try:
                same, err = True, None
                for q in (('a', '10.0.0.1', None), ('a', '', 2222), ('b', '', None)):
                    r = asyncssh.import_known_hosts(text).match(*q)
                    r0 = asyncssh.import_known_hosts(ref).match(*q)
                    if [sorted(names[k.public_data] for k in x) for x in r[:3]] != [sorted(names[k.public_data] for k in x) for x in r0[:3]]:
                        same = False
                        err = 'query %r: %r, without the damaged line %r' % (q, [sorted(names[k.public_data] for k in x) for x in r[:3]],
                                                                            [sorted(names[k.public_data] for k in x) for x in r0[:3]])
                        break
            except Exception as exc:        # pylint: disable=broad-except
                same, err = False, repr(exc)
            acc.add(core.digest(('kh-damaged', label, bm, m1, m2, sep, order.index(bad))), transitions=3,
                    sample={'damaged_line': field[:60], 'its_marker': bm, 'position': order.index(bad)}
                    if label == 'rsa-impossible-0' and bm == 'revoked' and not m1 and not m2 and not sep and order.index(bad) == 0 else None)
            if not same:
                acc.violation('lookup:damaged-line-not-skipped:known_hosts:%s%s' % (label.rsplit('-', 1)[0], ':marked' if bm else ''),
                              'line %r (marker %r) at position %d of %r: %s' % (field[:80], bm, order.index(bad), text[:300], err or 'result differs from file without it'),
                              {'kind': 'damaged', 'label': label})
            if m1 or m2 == 'revoked' or sep or bm == 'revoked':
                continue
            # authorized_keys
            ak = ''.join(('%s %s\n' % (('cert-authority,no-pty' if l[0] else 'no-pty'), l[2][4:] if l[2].startswith('RAW:') else ' '.join(pub(l[2]))))
                         for l in order)
            akref = ''.join(('%s %s\n' % (('cert-authority,no-pty' if l[0] else 'no-pty'), ' '.join(pub(l[2])))) for l in order if l is not bad)
            try:
                a = asyncssh.import_authorized_keys(ak)
                a0 = asyncssh.import_authorized_keys(akref)
                same = (a.validate(PK('k1'), 'h', '10.0.0.1') == a0.validate(PK('k1'), 'h', '10.0.0.1') and
                        a.validate(PK('k2'), 'h', '10.0.0.1', ['p'], ca=True) == a0.validate(PK('k2'), 'h', '10.0.0.1', ['p'], ca=True) and
                        a0.validate(PK('k1'), 'h', '10.0.0.1') is not None)
                err = None
            except Exception as exc:        # pylint: disable=broad-except
                same, err = False, repr(exc)
            acc.add(core.digest(('ak-damaged', label, order.index(bad))), transitions=1)
            if not same:
                acc.violation('lookup:damaged-line-not-skipped:authorized_keys:%s' % label.rsplit('-', 1)[0],
                              'line %r at position %d: %s' % (field[:80], order.index(bad), err or 'result differs'),
                              {'kind': 'damaged', 'label': label})
    return acc


# ------------------------------------------------------------------ authorized_keys options
def dequote_model(optstr):
    """OpenSSH option tokenizer: comma separated, double-quoted values, \\" is an escaped quote"""
    opts = []
    cur = ''
    i = 0
    quoted = False
    while i < len(optstr):
        ch = optstr[i]
        if ch == '\\' and i + 1 < len(optstr) and optstr[i + 1] == '"':
            cur += '"'
            i += 2
            continue
        if ch == '"':
            quoted = not quoted
        elif ch == ',' and not quoted:
            opts.append(cur)
            cur = ''
        else:
            cur += ch
        i += 1
    opts.append(cur)
    return opts


def ak_model(optstr, client_host, client_addr, principals, ca):
    """returns expected (accept, command, env, permitopen, flags) for one entry"""
    opts = dequote_model(optstr) if optstr else []
    d = {'from': [], 'principals': [], 'command': None, 'environment': {}, 'permitopen': set(), 'flags': set(), 'other': {}}
    for o in opts:
        if '=' in o:
            n, v = o.split('=', 1)
            if n == 'from':
                d['from'].append(v)
            elif n == 'principals':
                d['principals'].append(v)
            elif n == 'command':
                d['command'] = v
            elif n == 'environment':
                a, b = v.split('=', 1)
                d['environment'][a] = b
            elif n == 'permitopen':
                h, p = v.rsplit(':', 1)
                if h.startswith('[') and h.endswith(']'):
                    h = h[1:-1]
                d['permitopen'].add((h, None if p == '*' else int(p)))
            else:
                d['other'].setdefault(n, []).append(v)
        else:
            d['flags'].add(o)
    is_ca = 'cert-authority' in d['flags']
    if is_ca != ca:
        return None
    for pl in d['from']:
        if not line_matches(pl, client_host, client_addr, client_addr):
            return None
    if ca and principals is not None:
        for pl in d['principals']:
            ok = False
            for pr in principals:
                pos = neg = False
                for atom in pl.split(','):
                    ng = atom.startswith('!')
                    a = atom[1:] if ng else atom
                    if wild(a, pr):
                        if ng:
                            neg = True
                        else:
                            pos = True
                if pos and not neg:
                    ok = True
            if not ok:
                return None
    return d


OPT_ATOMS = ['no-pty', 'no-port-forwarding', 'cert-authority', 'command="echo hi"', 'command="a,b c"', 'command="say \\"hi\\""',
             'environment="A=1"', 'environment="B=x,y"', 'from="h.example"', 'from="*.example,!bad.example"', 'from="10.0.0.0/8"',
             'from="!10.0.0.1,*"', 'permitopen="localhost:80"', 'permitopen="[::1]:*"', 'principals="alice,b*"', 'principals="!root,*"',
             'unknown-flag', 'x-opt="v 1"', 'from="11.0.0.0/8"', 'from="10.0.0.*"', 'from="*,!10.0.0.*"']


def ak_worker(job):
    combos = job
    acc = core.Acc()
    clients = [('h.example', '10.0.0.1'), ('bad.example', '10.0.0.2'), ('other.org', '11.0.0.1'), ('10.0.0.1', '10.0.0.1')]
    princs = [None, ['alice'], ['root'], ['bob', 'carol'], [], ()]     # an empty list: a certificate that names no principal
    key = asyncssh.import_public_key(K('k1').export_public_key())
    blob = ' '.join(pub('k1'))
    for combo in combos:
        optstr = ','.join(combo)
        text = (optstr + ' ' if optstr else '') + blob + '\n'
        try:
            ak = asyncssh.import_authorized_keys(text)
        except Exception as exc:        # pylint: disable=broad-except
            acc.violation('lookup:authorized-keys-import-failed', '%r: %r' % (text[:120], exc), {'kind': 'ak', 'combo': list(combo)})
            continue
        for (ch, ca_), pr in itertools.product(clients, princs):
            for ca in (False, True):
                if not ca and pr is not None:
                    continue        # certificate principals are only passed for CA lookups
                want = ak_model(optstr, ch, ca_, pr, ca)
                try:
                    got = ak.validate(key, ch, ca_, pr, ca=ca)
                except Exception as exc:        # pylint: disable=broad-except
                    got = 'raised %r' % (exc,)
                acc.evaluations += 1
                acc.transitions += 1
                ok = (got is None) == (want is None) and not isinstance(got, str)
                detail = None
                if ok and want is not None:
                    g = got
                    if g.get('command') != want['command']:
                        ok, detail = False, 'command %r vs %r' % (g.get('command'), want['command'])
                    elif dict(g.get('environment', {})) != want['environment']:
                        ok, detail = False, 'environment %r vs %r' % (g.get('environment'), want['environment'])
                    elif set(g.get('permitopen', set())) != want['permitopen']:
                        ok, detail = False, 'permitopen %r vs %r' % (g.get('permitopen'), want['permitopen'])
                    else:
                        for fl in want['flags']:
                            if g.get(fl) is not True:
                                ok, detail = False, 'flag %s missing' % fl
                        for n, vs in want['other'].items():
                            if g.get(n) != vs:
                                ok, detail = False, 'option %s: %r vs %r' % (n, g.get(n), vs)
                if not ok:
                    acc.violation('lookup:authorized-keys-mismatch:%s' % ('selection' if detail is None else 'options'),
                                  'options %r client=%s/%s principals=%r ca=%s: asyncssh %s, model %s (%s)'
                                  % (optstr, ch, ca_, pr, ca, 'None' if got is None else ('entry' if not isinstance(got, str) else got),
                                     'None' if want is None else 'entry', detail),
                                  {'kind': 'ak', 'combo': list(combo)})
        acc.digests.add(core.digest(combo))
        if len(acc.samples) < 1 and len(combo) == 3:
            acc.samples.append({'authorized_keys_options': optstr})
    return acc


# ------------------------------------------------------------------ the same key on several lines
AKM_OPTS = ['', 'from="10.0.0.0/8"', 'from="h.example"', 'from="!10.0.0.1,*"', 'no-pty', 'cert-authority', 'cert-authority,principals="alice"',
            'cert-authority,principals="b*"', 'cert-authority,from="11.0.0.0/8"', 'cert-authority,principals="alice",from="10.0.0.0/8"']


def ak_multi_worker(job):
    """Files in which one key (or CA key) stands on two or three lines with different restrictions, other keys in
    between: the lookup returns the FIRST line (in file order) whose key and options all match -- a line that does
    not admit this client must not hide a later one that does.  Each line carries its own environment="L=<n>"
    so the line selected can be told."""
    acc = core.Acc()
    clients = [('h.example', '10.0.0.1'), ('other.org', '11.0.0.1'), ('bad.example', '10.0.0.2')]
    princs = [None, ['alice'], ['bob'], []]
    key = asyncssh.import_public_key(K('k1').export_public_key())
    blob1, blob2 = ' '.join(pub('k1')), ' '.join(pub('k2'))
    for opts in job:
        lines = []
        for i, o in enumerate(opts):
            tag = 'environment="L=%d"' % i
            lines.append(((o + ',' + tag) if o else tag) + ' ' + blob1)
            if i == 0:
                lines.append('environment="L=other" ' + blob2)
        text = '\n'.join(lines) + '\n'
        try:
            ak = asyncssh.import_authorized_keys(text)
        except Exception as exc:        # pylint: disable=broad-except
            acc.violation('lookup:authorized-keys-import-failed', '%r: %r' % (text[:200], exc), {'kind': 'akm', 'opts': list(opts)})
            continue
        for (ch, ca_), pr in itertools.product(clients, princs):
            for ca in (False, True):
                if not ca and pr is not None:
                    continue
                want = None
                for i, o in enumerate(opts):
                    if ak_model(o, ch, ca_, pr, ca) is not None:
                        want = str(i)
                        break
                try:
                    got = ak.validate(key, ch, ca_, pr, ca=ca)
                    got = None if got is None else dict(got.get('environment', {})).get('L')
                except Exception as exc:        # pylint: disable=broad-except
                    got = 'raised %r' % (exc,)
                acc.evaluations += 1
                acc.transitions += 1
                if got != want:
                    acc.violation('lookup:authorized-keys-mismatch:line-selected', 'lines %r client=%s/%s principals=%r ca=%s: asyncssh selects line %s, the rules select line %s'
                                  % (list(opts), ch, ca_, pr, ca, got, want), {'kind': 'akm', 'opts': list(opts)})
        acc.digests.add(core.digest(('akm', opts)))
        if len(acc.samples) < 1 and len(opts) == 2 and opts[0].startswith('from') and opts[1] == '':
            acc.samples.append({'authorized_keys_lines_for_one_key': list(opts)})
    return acc


def ak_multi_jobs(tier):
    cases = list(itertools.product(AKM_OPTS, repeat=2))
    if tier == 'thorough':
        cases += list(itertools.product(AKM_OPTS, repeat=3))
    else:
        cases += list(itertools.product(AKM_OPTS, repeat=3))[::7]
    return [cases[i::32] for i in range(32)]


def main(tier, seed):
    t0 = core.now()
    os.makedirs(SCRATCH, exist_ok=True)
    one, two = kh_files(tier)
    files = one + two
    acc = core.pmap(kh_worker, core.rotate([files[i::64] for i in range(64)], seed))
    n_kh = acc.evaluations
    kg = [f for f in one if not cidr_involved(f) and '10.0.0' not in f[0][1]][::3] + \
        [f for f in two if not cidr_involved(f) and '10.0.0' not in f[0][1] + f[1][1]][::40]
    acc.merge(core.pmap(keygen_worker, [kg[i::16] for i in range(16)]))
    acc.merge(core.pmap(damaged_worker, [0]))
    combos = [()] + [(a,) for a in OPT_ATOMS] + list(itertools.permutations(OPT_ATOMS, 2))
    if tier == 'thorough':
        combos += list(itertools.combinations(OPT_ATOMS, 3))
    else:
        combos += list(itertools.combinations(OPT_ATOMS, 3))[::5]
    acc.merge(core.pmap(ak_worker, [combos[i::32] for i in range(32)]))
    acc.merge(core.pmap(ak_multi_worker, ak_multi_jobs(tier)))
    shutil.rmtree(SCRATCH, ignore_errors=True)
    rule = ('known_hosts: every host pattern list of 1-2 atoms over a 16-atom alphabet (names, wildcards, negation, '
            'addresses, CIDR, [host]:port, bracketed names) + 3 hashed forms x 3 markers, 1-line files and 2-line '
            'files x 51 (host, addr, port) queries vs the reference model; ssh-keygen -F on the name/port/hashed/'
            'wildcard/negation subset; 19 damaged key fields (bad base64, truncated, unknown/mismatched algorithm, '
            'well-framed impossible RSA/EC/DSA/Ed parameters) placed before/between/after good lines in both file '
            'types; authorized_keys: option lists of 0-3 atoms over 19 option atoms (quoting, escaped quotes, repeated '
            'from/principals/environment/permitopen, no-*, cert-authority, unknown) x 4 clients x 6 principal sets (incl. a certificate naming none); '
            'one key or CA key on 2-3 lines with different from=/principals= restrictions and another key in between: the first line '
            'in file order that admits the client is the one returned')
    return core.finish(PROP, tier, seed, 'exploration', acc, t0, rule,
                       {'known_hosts_files': len(files), 'known_hosts_lookups': n_kh, 'option_lists': len(combos)},
                       assumptions=['numeric address / CIDR patterns are only compared for the default port (their '
                                    'interaction with [addr]:port forms is not documented)',
                                    'when nothing trusted matches, the revoked set is not compared (the port fallback '
                                    'discards it)'])


def replay(rep):
    os.makedirs(SCRATCH, exist_ok=True)
    r = rep['replay']
    if r['kind'] == 'kh':
        acc = kh_worker([tuple(tuple(l) for l in r['lines'])])
    elif r['kind'] == 'keygen':
        acc = keygen_worker([tuple(tuple(l) for l in r['lines'])])
    elif r['kind'] == 'damaged':
        acc = damaged_worker(0)
    elif r['kind'] == 'akm':
        acc = ak_multi_worker([tuple(r['opts'])])
    else:
        acc = ak_worker([tuple(r['combo'])])
    print(json.dumps(acc.violations[:5], indent=1, default=repr))
    if acc.violations:
        print('VIOLATION property=%s replay=(given)' % PROP)
        return 1
    return 0
