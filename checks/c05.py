"""C05  Access is granted exactly when a credential check succeeded.

Deviation-bounded DFS over the completion schedules (application validator futures,
begin_auth futures, reload_config executor jobs, packet deliveries) of every
history of USERAUTH requests up to a bound, sent pipelined by the independent
refpeer client to a real asyncssh server.  Oracle: auth ground-truth model.
"""

import json
import os
import shutil

import asyncssh
from cryptography.hazmat.primitives import serialization
from cryptography.hazmat.primitives.asymmetric import ed25519

import core
import pair as P
import refpeer as R
import rpharness as H
from vloop import Livelock

PROP = 'C05'

PASSWORDS = {'alice': 'pa', 'bob': 'pb'}
_keys = {}


def ckey(name):
    """raw ed25519 client keys owned by refpeer (independent of asyncssh)"""
    k = _keys.get(name)
    if k is None:
        seed = {'ka': b'\x01' * 32, 'ka2': b'\x02' * 32, 'kb': b'\x03' * 32,
                'kx': b'\x04' * 32, 'ca': b'\x05' * 32}[name]
        k = ed25519.Ed25519PrivateKey.from_private_bytes(seed)
        _keys[name] = k
    return k


def pubblob(name):
    pub = ckey(name).public_key().public_bytes(serialization.Encoding.Raw,
                                               serialization.PublicFormat.Raw)
    return R.string('ssh-ed25519') + R.string(pub)


def openssh_line(name, options=''):
    import base64
    return (options + ' ' if options else '') + 'ssh-ed25519 ' + \
        base64.b64encode(pubblob(name)).decode() + ' ' + name + '\n'


# which key is authorised for which user and with which restrictions
AUTH_KEYS = {
    'alice': [('ka', 'command="forced-a",no-port-forwarding'), ('ka2', '')],
    'bob': [('kb', '')],
}


def restrictions_of(cred):
    """(forced command or None, port forwarding allowed) of an accepted credential"""
    kind = cred[0]
    if kind == 'cert':
        return (None, False)        # the hand-built certificate carries no permit-port-forwarding extension
    if kind == 'pk':
        _, user, keyname = cred[:3]
        for k, opts in AUTH_KEYS.get(user, []):
            if k == keyname:
                return ('forced-a' if 'command=' in opts else None,
                        'no-port-forwarding' not in opts)
    return (None, True)


class AuthServer(asyncssh.SSHServer):
    def __init__(self, env):
        self.env = env
        self.log = []
        self.pending = env.setdefault('pending', [])     # (label, future, result)
        self.conn = None
        self.lost_exc = 'n/a'

    def connection_made(self, conn):
        self.conn = conn

    def connection_lost(self, exc):
        self.lost_exc = exc
        self.log.append(('lost', type(exc).__name__ if exc else None))

    def _later(self, label, result):
        fut = self.conn._loop.create_future()
        self.pending.append([label, fut, result])
        return fut

    def begin_auth(self, username):
        self.log.append(('begin_auth', username))
        if self.env.get('cfgmode'):
            return True         # the authorized keys come from the sshd-style configuration file
        text = ''.join(openssh_line(k, o) for k, o in AUTH_KEYS.get(username, []))
        if username == 'alice':
            text += openssh_line('ca', 'cert-authority,principals="alice",no-pty')
        if text or not self.env.get('sparse_begin'):
            self.conn.set_authorized_keys(asyncssh.import_authorized_keys(text) if text else None)
        # sparse_begin: like the shipped example server, users without a keys file are simply left alone
        if self.env.get('async_begin'):
            return self._later(('begin', username), True)
        return True

    def auth_completed(self):
        self.log.append(('auth_completed', self.conn.get_extra_info('username')))

    def password_auth_supported(self):
        return True

    def validate_password(self, username, password):
        ok = PASSWORDS.get(username) == password
        self.log.append(('validate_password', username, password))
        return self._later(('pw', username, password), ok)

    def kbdint_auth_supported(self):
        return True

    def get_kbdint_challenge(self, username, lang, submethods):
        self.log.append(('kbdint_challenge', username))
        return 'title', 'instructions', 'en', [('Password:', False)]

    def validate_kbdint_response(self, username, responses):
        ok = list(responses) == [PASSWORDS.get(username)]
        self.log.append(('validate_kbdint', username, tuple(responses)))
        return self._later(('kbd', username, tuple(responses)), ok)

    def public_key_auth_supported(self):
        return True

    def validate_public_key(self, username, key):
        return False

    def session_requested(self):
        s = P.RecSession('srv')
        self.env.setdefault('server_sessions', []).append(s)
        return s

    def connection_requested(self, dest_host, dest_port, orig_host, orig_port):
        self.log.append(('connection_requested', dest_host, dest_port))
        return True


# ------------------------------------------------------------------ request alphabet
def build_request(rp, req):
    kind = req[0]
    user = req[1]
    if kind == 'none':
        return rp.userauth_request(user, 'none')
    if kind == 'pw':
        which = req[2]
        pw = {'right': PASSWORDS[user], 'wrong': 'nope', 'empty': '',
              'other': PASSWORDS['bob' if user == 'alice' else 'alice']}[which]
        return rp.password_request(user, pw)
    if kind == 'probe':
        return rp.userauth_request(user, 'publickey', R.boolean(False) +
                                   R.string('ssh-ed25519') + R.string(pubblob(req[2])))
    if kind == 'pk':
        # ('pk', user, key, variant)
        keyname, variant = req[2], req[3]
        signed_user = user
        sid = rp.session_id
        signer = keyname
        service = 'ssh-connection'
        if variant == 'wrong-sid':
            sid = bytes(len(sid))
        elif variant == 'other-user-signed':
            signed_user = 'bob' if user == 'alice' else 'alice'
        elif variant == 'other-signer':
            signer = 'kx'
        elif variant == 'wrong-service':
            service = 'ssh-userauth'
        body = R.boolean(True) + R.string('ssh-ed25519') + R.string(pubblob(keyname))
        signed = R.string(sid) + R.byte(R.MSG_USERAUTH_REQUEST) + R.string(signed_user) + \
            R.string(service) + R.string('publickey') + body
        sig = ckey(signer).sign(signed)
        sigblob = R.string(R.string('ssh-ed25519') + R.string(sig))
        if variant == 'empty-sig':
            sigblob = R.string(b'')
        elif variant == 'empty-inner-sig':
            sigblob = R.string(R.string('ssh-ed25519') + R.string(b''))
        elif variant == 'zero-sig':
            sigblob = R.string(R.string('ssh-ed25519') + R.string(bytes(64)))
        elif variant == 'no-sig-field':
            sigblob = b''
        elif variant == 'sig-alg-other':
            sigblob = R.string(R.string('ssh-rsa') + R.string(sig))
        return rp.userauth_request(user, 'publickey', body + sigblob)
    if kind == 'kbd':
        return rp.userauth_request(user, 'keyboard-interactive', R.string('') + R.string(''))
    if kind == 'kbdresp':
        which = req[2]
        if which == 'count':
            return R.byte(61) + R.u32(2) + R.string('x') + R.string('y')
        pw = PASSWORDS[user] if which == 'right' else 'nope'
        return R.byte(61) + R.u32(1) + R.string(pw)
    if kind == 'cert':
        import c16
        variant = req[2]
        far = 2 ** 64 - 1
        # no-principals: a certificate naming nobody does not meet the principals="alice" demanded by the CA line
        princ = [] if variant == 'no-principals' else ['alice'] if variant != 'wrong-principal' else ['carol']
        after, before = (0, far) if variant != 'expired' else (0, 1000)
        ca = _AsKey('ca') if variant != 'other-ca' else _AsKey('kx')
        blob = c16.build_cert(ca, _AsKey('ka2'), 1, princ, after, before)
        body = R.boolean(True) + R.string('ssh-ed25519-cert-v01@openssh.com') + R.string(blob)
        signed = R.string(rp.session_id) + R.byte(R.MSG_USERAUTH_REQUEST) + R.string(user) + \
            R.string('ssh-connection') + R.string('publickey') + body
        sig = ckey('ka2').sign(signed)
        return rp.userauth_request(user, 'publickey', body + R.string(R.string('ssh-ed25519') + R.string(sig)))
    if kind == 'trunc':
        full = rp.password_request(user, PASSWORDS[user])
        return full[:-1]
    if kind == 'trail':
        return rp.password_request(user, PASSWORDS[user]) + b'\0'
    if kind == 'open':
        return rp.channel_open_session(sender=7)
    raise ValueError(req)


class _AsKey:
    """adapter giving the raw refpeer keys the two attributes c16.build_cert uses"""

    def __init__(self, name):
        self.name = name
        self.public_data = pubblob(name)

    def export_private_key(self, _fmt):
        from cryptography.hazmat.primitives import serialization as ser
        return ckey(self.name).private_bytes(ser.Encoding.PEM, ser.PrivateFormat.OpenSSH, ser.NoEncryption())


def valid_users(hist):
    """set of users for whom the history contains a valid credential (sequential interpreter:
    a keyboard-interactive response belongs to the kbdint request still current when it arrives)"""
    out = set()
    cur_kbd = None
    for r in hist:
        r = tuple(r)
        u = valid_for(r)
        if u:
            out.add(u)
        if r[0] == 'kbd':
            cur_kbd = r[1]
        elif r[0] == 'kbdresp':
            # any response carrying U's correct answer while U's exchange is the latest request
            if cur_kbd is not None and cur_kbd == r[1] and r[2] == 'right':
                out.add(cur_kbd)
        elif r[0] not in ('open',):
            cur_kbd = None
    return out


def valid_for(req):
    """user for whom this request is a valid credential, or None"""
    kind = req[0]
    if kind == 'pw' and req[2] == 'right':
        return req[1]
    if kind == 'pk' and req[3] == 'good' and any(k == req[2] for k, _ in AUTH_KEYS.get(req[1], [])):
        return req[1]
    if kind == 'cert' and req[2] == 'good' and req[1] == 'alice':
        return 'alice'
    return None


def alphabet(level):
    users = ('alice', 'bob')
    a = []
    for u in users:
        a.append(('pw', u, 'right'))
        a.append(('pw', u, 'wrong'))
        a.append(('none', u))
        a.append(('probe', u, 'ka'))
        a.append(('pk', u, 'ka', 'good'))
    a.append(('open', '-'))
    if level >= 2:
        for u in users:
            a.append(('pw', u, 'other'))
            a.append(('pk', u, 'kb', 'good'))
            a.append(('pk', u, 'ka', 'wrong-sid'))
            a.append(('pk', u, 'ka', 'other-user-signed'))
            a.append(('pk', u, 'ka', 'other-signer'))
            a.append(('pk', u, 'ka', 'wrong-service'))
            a.append(('pk', u, 'ka2', 'good'))
            a.append(('probe', u, 'kb'))
        for var in ('empty-sig', 'empty-inner-sig', 'zero-sig', 'no-sig-field', 'sig-alg-other'):
            a.append(('pk', 'alice', 'ka', var))
        a.append(('pw', 'alice', 'empty'))
        for u in users:
            a.append(('kbd', u))
            a.append(('kbdresp', u, 'right'))
            a.append(('kbdresp', u, 'wrong'))
        a.append(('kbdresp', 'alice', 'count'))
        for var in ('good', 'expired', 'wrong-principal', 'other-ca', 'no-principals'):
            a.append(('cert', 'alice', var))
        a.append(('cert', 'bob', 'good'))
        a.append(('cert', 'bob', 'no-principals'))
        a.append(('trunc', 'alice'))
        a.append(('trail', 'alice'))
    return a


_cfg_paths = {}
SCRATCH = '/dev/shm/asyncssh-verif-c05-%d' % os.getpid()       # unique per check run (workers are forked later)


def config_for(mode):
    """sshd-style configuration that selects the authorized keys per user: AuthorizedKeysFile with %u, or
    Match User blocks.  The per-user files hold exactly what begin_auth() installs in the callback mode."""
    key = (mode, os.getpid())
    if key not in _cfg_paths:
        d = os.path.join(SCRATCH, '%d-%s' % (os.getpid(), mode.replace('%', '')))
        os.makedirs(os.path.join(d, 'keys'), exist_ok=True)
        for user in ('alice', 'bob'):
            text = ''.join(openssh_line(k, o) for k, o in AUTH_KEYS.get(user, []))
            if user == 'alice':
                text += openssh_line('ca', 'cert-authority,principals="alice",no-pty')
            with open(os.path.join(d, 'keys', user), 'w') as f:
                f.write(text)
        with open(os.path.join(d, 'sshd_config'), 'w') as f:
            if mode == 'cfg-%u':
                f.write('AuthorizedKeysFile %s/keys/%%u\n' % d)
            else:
                f.write('Match User alice\n  AuthorizedKeysFile %s/keys/alice\nMatch User bob\n  AuthorizedKeysFile %s/keys/bob\n' % (d, d))
        _cfg_paths[key] = os.path.join(d, 'sshd_config')
    return _cfg_paths[key]


# ------------------------------------------------------------------ one execution
def execute(hist, chooser, async_begin=False, seed=0):
    cfgmode = async_begin if isinstance(async_begin, str) and async_begin.startswith('cfg-') else None
    env = {'async_begin': async_begin is True, 'cfgmode': cfgmode, 'sparse_begin': async_begin == 'sparse'}
    sopts = dict(config=[config_for(cfgmode)]) if cfgmode else None
    w = H.SrvWorld(seed=seed, env=env, auto_executor=False, server_factory=AuthServer, sopts=sopts)
    rp, loop = w.rp, w.loop
    obs = {'events': []}
    try:
        w.start()
        # handshake with default scheduling (executor jobs none yet)
        _drain(w)
        if rp.kex_done < 1:
            raise R.RefError('kex failed')
        rp.send(rp.service_request())
        _drain(w)
        for req in hist:
            rp.send(build_request(rp, tuple(req)))
        steps = 0
        while True:
            loop.quiesce()
            # server -> refpeer deliveries are immediate (refpeer is passive)
            while w.rt in loop.deliverable():
                loop.deliver(w.rt)
                loop.quiesce()
            evs = []
            for i, p in enumerate(env.get('pending', [])):
                if not p[1].done():
                    evs.append(('cb', i))
            for j, _job in enumerate(loop.pending_jobs()):
                evs.append(('job', j))
            if w.st in loop.deliverable():
                evs.append(('pkt',))
            if not evs:
                break
            k = chooser.choose(len(evs), label=[e[0] for e in evs])
            ev = evs[k]
            obs['events'].append(ev[0] if ev[0] != 'cb' else env['pending'][ev[1]][0])
            if ev[0] == 'cb':
                p = env['pending'][ev[1]]
                p[1].set_result(p[2])
            elif ev[0] == 'job':
                loop.fire_job(ev[1])
            else:
                P.deliver_packet(loop, w.st)
            steps += 1
            if steps > 500:
                raise Livelock('auth schedule too long')
        obs['steps'] = steps
        return finish_obs(w, env, hist, obs)
    finally:
        w.close()


def _drain(w):
    w.loop.auto_executor = True
    try:
        while True:
            w.loop.quiesce()
            d = w.loop.deliverable()
            if d:
                w.loop.deliver(d[0])
            elif w.loop.pending_jobs():
                w.loop.fire_job(0)
            else:
                break
    finally:
        w.loop.auto_executor = False


def finish_obs(w, env, hist, obs):
    rp, loop, conn = w.rp, w.loop, w.conn
    owner = w.owner
    types = rp.types()
    n_success = types.count(R.MSG_USERAUTH_SUCCESS)
    completed = [e for e in owner.log if e[0] == 'auth_completed'] if owner else []
    obs['n_success'] = n_success
    obs['completed'] = completed
    obs['username'] = conn.get_extra_info('username')
    obs['auth_complete'] = bool(conn._auth_complete)
    obs['closed'] = w.server_closed()
    obs['lost'] = type(owner.lost_exc).__name__ if owner and owner.lost_exc != 'n/a' else None
    # wire order: OPEN_CONFIRMATION only after SUCCESS
    first_succ = types.index(R.MSG_USERAUTH_SUCCESS) if n_success else None
    confs = [i for i, t in enumerate(types) if t == R.MSG_CHANNEL_OPEN_CONFIRMATION]
    obs['conf_before_success'] = bool(confs and (first_succ is None or confs[0] < first_succ))
    obs['loop_exc'] = [repr(c.get('exception') or c.get('message')) for c in loop.unretrieved()]
    # post-auth probes of the restrictions actually enforced
    obs['forced'] = obs['fwd_attempt'] = None
    if n_success and not obs['closed']:
        loop.auto_executor = True
        n0 = len(rp.inbox)
        rp.send(rp.channel_open_session(sender=1))
        w.flush()
        conf = [p for t, p in rp.inbox[n0:] if t == R.MSG_CHANNEL_OPEN_CONFIRMATION]
        if conf:
            remote = R.Reader(conf[0], 5).u32()
            rp.send(rp.channel_request(remote, 'exec', True, R.string('probe-cmd')))
            w.flush()
            sess = env.get('server_sessions', [None])[-1]
            if sess is not None and sess.chan is not None:
                obs['forced'] = sess.chan.get_command()
        nlog = len(loop.connect_log)
        rp.send(R.byte(R.MSG_CHANNEL_OPEN) + R.string('direct-tcpip') + R.u32(2) + R.u32(2 ** 20) +
                R.u32(32768) + R.string('target.example') + R.u32(80) + R.string('1.2.3.4') +
                R.u32(1234))
        w.flush()
        obs['fwd_attempt'] = len(loop.connect_log) > nlog
    return obs


def judge(hist, obs):
    """Returns list of (kind, detail) violations of the property"""
    v = []
    hist = [tuple(r) for r in hist]
    authed = obs['n_success'] > 0 or obs['auth_complete'] or obs['completed']
    if obs['n_success'] > 1:
        v.append(('success-twice', '%d USERAUTH_SUCCESS on the wire' % obs['n_success']))
    if len(obs['completed']) > 1:
        v.append(('auth_completed-twice', repr(obs['completed'])))
    if obs['conf_before_success']:
        v.append(('channel-before-auth', 'CHANNEL_OPEN_CONFIRMATION before USERAUTH_SUCCESS'))
    if obs['loop_exc']:
        v.append(('loop-exception', obs['loop_exc'][0]))
    if authed:
        user = obs['username']
        if obs['completed'] and obs['completed'][0][1] != user:
            v.append(('username-mismatch', 'auth_completed saw %r, final %r'
                      % (obs['completed'][0][1], user)))
        cands = [r for r in hist if valid_for(r) == user]
        if not cands and user in valid_users(hist):
            cands = [('kbdint', user)]
        if not cands:
            v.append(('granted-without-credential',
                      'authenticated as %r but no request in the history is a valid '
                      'credential for that user; history=%r events=%r'
                      % (user, hist, obs['events'])))
        elif obs['forced'] is not None or obs['fwd_attempt'] is not None:
            allowed = {restrictions_of(c) for c in cands}
            if user in valid_users(hist):
                allowed.add((None, True))       # a keyboard-interactive credential carries no restrictions
            forced = None if obs['forced'] == 'probe-cmd' else obs['forced']
            got = (forced, bool(obs['fwd_attempt']))
            if obs['forced'] is not None and got not in allowed:
                v.append(('restrictions-differ',
                          'enforced (forced command, forwarding allowed)=%r but the valid '
                          'credentials for %r carry %r; history=%r'
                          % (got, user, sorted(allowed, key=repr), hist)))
    else:
        # converse for single-request histories: a valid credential is admitted
        if len(hist) == 1 and valid_for(hist[0]) and not obs['closed']:
            v.append(('valid-credential-rejected', repr(hist[0])))
        if len(hist) == 1 and valid_for(hist[0]) and obs['closed']:
            v.append(('valid-credential-rejected', '%r (connection closed: %s)'
                      % (hist[0], obs['lost'])))
    return v


# ------------------------------------------------------------------ worker
def explore_history(job):
    hist, bound, async_begin = job
    acc = core.Acc()

    def run(ch):
        return execute(hist, ch, async_begin)

    def check(obs, ch):
        key = (tuple(map(tuple, hist)), async_begin, obs['n_success'], obs['username'],
               obs['closed'], obs['forced'], obs['fwd_attempt'], tuple(map(str, obs['events'])))
        nontrivial = len(obs['events']) > 0
        acc.add(core.digest(key), nontrivial=nontrivial, transitions=obs.get('steps', 0),
                sample=({'history': hist, 'schedule': [str(e) for e in obs['events']],
                         'authenticated_as': obs['username'] if obs['n_success'] else None}
                        if len(ch.labels()) >= 1 else None))
        for kind, detail in judge(hist, obs):
            sig = 'auth:%s:%s' % (kind, _sig_hist(hist))
            acc.violation(sig, detail, {'hist': hist, 'choices': ch.choices,
                                        'async_begin': async_begin})
    try:
        n, pts, capped = core.explore_dfs(run, bound, check)
    except (R.RefError, Livelock) as exc:
        acc.violation('auth:harness-stall:%s' % _sig_hist(hist), repr(exc),
                      {'hist': hist, 'choices': [], 'async_begin': async_begin})
        return acc
    acc.count('schedules', n)
    return acc


def _sig_hist(hist):
    return ';'.join('/'.join(map(str, r)) for r in hist)


_CORE3 = set()


def histories(tier):
    a1 = alphabet(2)
    a_small = alphabet(1)
    hs = [[r] for r in a1]
    hs += [[r1, r2] for r1 in a1 for r2 in a1] if tier == 'thorough' else \
        [[r1, r2] for r1 in a_small for r2 in a1]
    core3 = [('pw', 'alice', 'right'), ('pw', 'bob', 'wrong'), ('probe', 'alice', 'ka'),
             ('pk', 'bob', 'ka', 'good'), ('none', 'bob'), ('open', '-'),
             ('pk', 'alice', 'ka', 'good'), ('pw', 'alice', 'wrong'), ('kbd', 'alice'), ('kbdresp', 'alice', 'right'),
             ('kbdresp', 'bob', 'right'), ('cert', 'alice', 'good'), ('kbd', 'bob')]
    hs += [[r1, r2, r3] for r1 in core3 for r2 in core3 for r3 in core3]
    _CORE3.update(core3)
    if tier == 'thorough':
        core4 = core3[:5]
        hs += [[a, b, c, d] for a in core4 for b in core4 for c in core4 for d in core4]
        # length 3 with the full alphabet at both ends
        hs += [[r1, r2, r3] for r1 in a1 for r2 in a_small for r3 in a1 if [r1, r2, r3] not in hs[:0]]
    return [[list(r) for r in h] for h in hs]


# ------------------------------------------------------------------ restrictions of the accepted credential: full option matrix
KEY_OPTS = ['command="forced"', 'no-pty', 'no-agent-forwarding', 'no-X11-forwarding', 'no-port-forwarding',
            'environment="A=1"', 'permitopen="target.example:80"']
FROM_OPTS = [None, 'from="127.0.0.1"', 'from="10.9.9.9"', 'from="!127.0.0.1,*"', 'from="127.0.0.0/8"']


def restrict_cases(tier):
    out = []
    for mask in range(1 << len(KEY_OPTS)):
        opts = [o for i, o in enumerate(KEY_OPTS) if mask >> i & 1]
        for frm in (FROM_OPTS if (tier == 'thorough' or mask in (0, 2, 127)) else FROM_OPTS[:1]):
            out.append(('key', tuple(opts + ([frm] if frm else [])), None))
    for pm in range(16):
        permits = dict(zip(('permit_x11_forwarding', 'permit_agent_forwarding', 'permit_port_forwarding', 'permit_pty'),
                           [bool(pm >> i & 1) for i in range(4)]))
        for force in (None, 'cert-forced'):
            for src in (None, ['127.0.0.0/8'], ['10.9.0.0/16']):
                for line_opts in ((), ('no-pty',), ('command="forced"', 'no-agent-forwarding')):
                    out.append(('cert', tuple(line_opts), (tuple(sorted(permits.items())), force, tuple(src) if src else None)))
    return out


def restrict_expect(case):
    kind, opts, cert = case
    o = set(opts)
    auth = not ({'from="10.9.9.9"', 'from="!127.0.0.1,*"'} & o)
    e = {'forced': 'forced' if 'command="forced"' in o else None, 'pty': 'no-pty' not in o, 'agent': 'no-agent-forwarding' not in o,
         'x11': 'no-X11-forwarding' not in o, 'fwd': 'no-port-forwarding' not in o, 'env_A': '1' if 'environment="A=1"' in o else None,
         'permitopen': 'permitopen="target.example:80"' in o}
    if kind == 'cert':
        permits, force, src = cert
        permits = dict(permits)
        if src and src[0].startswith('10.9'):
            auth = False
        if force:
            e['forced'] = force         # the certificate's command takes precedence
        e['pty'] = e['pty'] and permits['permit_pty']
        e['agent'] = e['agent'] and permits['permit_agent_forwarding']
        e['x11'] = e['x11'] and permits['permit_x11_forwarding']
        e['fwd'] = e['fwd'] and permits['permit_port_forwarding']
    e['auth'] = auth
    e['direct_target'] = e['fwd']
    e['direct_other'] = e['fwd'] and not e['permitopen']
    e['listen'] = e['fwd']
    return e


def restrict_run(case):
    kind, opts, cert = case
    ukey, ca = P.key('c05-ruser'), P.key('c05-rca')
    optstr = ','.join(opts)
    if kind == 'key':
        line = (optstr + ' ' if optstr else '') + ukey.export_public_key('openssh').decode()
        crt = None
    else:
        permits, force, src = cert
        crt = ca.generate_user_certificate(ukey, 'rid', principals=['carol'], force_command=force,
                                           source_address=list(src) if src else None, **dict(permits))
        line = 'cert-authority' + (',' + optstr if optstr else '') + ' ' + ca.export_public_key('openssh').decode()
    env = {}

    class Srv(P.RecServer):
        def password_auth_supported(self):
            return False

        def connection_requested(self, dest_host, dest_port, orig_host, orig_port):
            return True

        def server_requested(self, listen_host, listen_port):
            return True

        def session_requested(self):
            s = PtySession('srv')
            env.setdefault('server_sessions', []).append(s)
            return s

    class PtySession(P.RecSession):
        def pty_requested(self, term_type, term_size, term_modes):
            self._ev('pty', term_type)
            return True
    w = H.SrvWorld(env=env, server_factory=Srv, sopts=dict(authorized_client_keys=asyncssh.import_authorized_keys(line + '\n'),
                                                            x11_forwarding=True, agent_forwarding=True))
    rp = w.rp
    got = {}
    try:
        w.kex()
        rp.send(rp.service_request())
        w.flush()
        sk = c16_raw(ukey)
        if crt is None:
            alg, blob = 'ssh-ed25519', ukey.public_data
        else:
            alg, blob = 'ssh-ed25519-cert-v01@openssh.com', crt.public_data
        body = R.boolean(True) + R.string(alg) + R.string(blob)
        signed = R.string(rp.session_id) + R.byte(R.MSG_USERAUTH_REQUEST) + R.string('carol') + R.string('ssh-connection') + \
            R.string('publickey') + body
        rp.send(rp.userauth_request('carol', 'publickey', body + R.string(R.string('ssh-ed25519') + R.string(sk.sign(signed)))))
        w.flush()
        got['auth'] = R.MSG_USERAUTH_SUCCESS in rp.types()
        if not got['auth']:
            return got, w.loop.unretrieved()
        rp.send_dir.authed = rp.recv_dir.authed = True

        def reply_to(fn):
            n0 = len(rp.inbox)
            fn()
            w.flush()
            return [t for t, _p in rp.inbox[n0:] if t in (R.MSG_CHANNEL_SUCCESS, R.MSG_CHANNEL_FAILURE, 81, 82, 91, 92)]
        rp.send(rp.channel_open_session(sender=1))
        w.flush()
        conf = [p for t, p in rp.inbox if t == R.MSG_CHANNEL_OPEN_CONFIRMATION]
        remote = R.Reader(conf[0], 5).u32()
        got['pty'] = R.MSG_CHANNEL_SUCCESS in reply_to(lambda: rp.send(rp.channel_request(
            remote, 'pty-req', True, R.string('xterm') + R.u32(80) + R.u32(24) + R.u32(0) + R.u32(0) + R.string(b'\0'))))
        got['agent'] = R.MSG_CHANNEL_SUCCESS in reply_to(lambda: rp.send(rp.channel_request(remote, 'auth-agent-req@openssh.com', True)))
        got['x11'] = R.MSG_CHANNEL_SUCCESS in reply_to(lambda: rp.send(rp.channel_request(
            remote, 'x11-req', True, R.boolean(False) + R.string('MIT-MAGIC-COOKIE-1') + R.string('00' * 16) + R.u32(0))))
        rp.send(rp.channel_request(remote, 'env', True, R.string('B') + R.string('client')))
        w.flush()
        rp.send(rp.channel_request(remote, 'exec', True, R.string('probe-cmd')))
        w.flush()
        sess = env.get('server_sessions', [None])[-1]
        cmd = sess.chan.get_command() if sess is not None and sess.chan is not None else '?'
        got['forced'] = None if cmd == 'probe-cmd' else cmd
        got['env_A'] = sess.chan.get_environment().get('A') if sess is not None and sess.chan is not None else '?'

        def direct(host, port, sender):
            r = reply_to(lambda: rp.send(R.byte(R.MSG_CHANNEL_OPEN) + R.string('direct-tcpip') + R.u32(sender) + R.u32(2 ** 20) + R.u32(32768) +
                                         R.string(host) + R.u32(port) + R.string('1.2.3.4') + R.u32(1234)))
            n = len(w.loop.connect_log)
            return any((h, p) == (host, port) for _k, (h, p), _ok in w.loop.connect_log if _k == 'tcp')
        got['direct_target'] = direct('target.example', 80, 2)
        got['direct_other'] = direct('other.example', 81, 3)
        got['listen'] = 81 in reply_to(lambda: rp.send(R.byte(80) + R.string('tcpip-forward') + R.boolean(True) + R.string('127.0.0.1') + R.u32(18099)))
        return got, w.loop.unretrieved()
    finally:
        w.close()


def c16_raw(key):
    from cryptography.hazmat.primitives import serialization as ser
    return ser.load_ssh_private_key(key.export_private_key('openssh'), None)


def restrict_worker(job):
    acc = core.Acc()
    for case in job:
        want = restrict_expect(case)
        try:
            got, lexc = restrict_run(case)
        except (R.RefError, Livelock, IndexError) as exc:
            acc.violation('auth:harness:restrictions', repr(exc), {'kind': 'restrict', 'case': repr(case)})
            continue
        acc.add(core.digest(('restrict', case, tuple(sorted(got.items(), key=repr)))), transitions=len(got),
                sample={'credential': case[0], 'authorized_keys_options': list(case[1]), 'certificate': repr(case[2])[:120], 'enforced': got}
                if case[0] == 'cert' and case[1] and got.get('auth') and got.get('forced') == 'cert-forced' else None)
        rep = {'kind': 'restrict', 'case': [case[0], list(case[1]), repr(case[2])]}
        if got.get('auth') != want['auth']:
            acc.violation('auth:%s:restrictions' % ('granted-without-credential' if got.get('auth') else 'valid-credential-rejected'),
                          'credential %r: authenticated=%s, expected %s' % (case, got.get('auth'), want['auth']), rep)
            continue
        if not got.get('auth'):
            continue
        for k in ('forced', 'pty', 'agent', 'x11', 'env_A', 'direct_target', 'direct_other', 'listen'):
            if k == 'x11' and not got.get(k):
                continue        # granting X11 needs xauth, which is not installed here: only "never granted when forbidden"
            if got.get(k) != want[k]:
                acc.violation('auth:restriction-not-enforced:%s' % k, 'credential %r: %s is %r, the options say %r (all probes: %r)'
                              % (case, k, got.get(k), want[k], got), rep)
        if lexc:
            acc.violation('auth:loop-exception:restrictions', repr(lexc[0].get('exception'))[:200], rep)
    return acc


# converse with real asyncssh clients ------------------------------------------------
def converse():
    """A real asyncssh client with a valid credential is admitted (password, local key,
    certificate, agent-held key).  Returns Acc."""
    import converse_c05
    return converse_c05.run()


# ------------------------------------------------------------------ host-based authentication
HB_HOSTS = {'hosta': 'ka', 'hostb': 'kb'}           # known_client_hosts: which key belongs to which client host
HB_ALLOWED = {('alice', 'hostb', 'cu'), ('alice', 'peer.example', 'cu')}     # what the application accepts


class HostBasedServer(P.RecServer):
    def password_auth_supported(self):
        return False

    def host_based_auth_supported(self):
        return True

    def validate_host_based_user(self, username, client_host, client_username):
        self.log.append(('validate_host_based_user', username, client_host, client_username))
        return (username, client_host, client_username) in HB_ALLOWED


def hb_request(rp, req):
    """('hb', user, claimed host, credential, variant): credential = key name, or ('cert', subject key, principals)"""
    import c16
    _, user, claimed, cred, variant = req
    if isinstance(cred, tuple):
        blob = c16.build_cert(_AsKey('ca'), _AsKey(cred[1]), 2, list(cred[2]), 0, 2 ** 64 - 1)
        alg, signer = 'ssh-ed25519-cert-v01@openssh.com', cred[1]
    else:
        blob, alg, signer = pubblob(cred), 'ssh-ed25519', cred
    sid = rp.session_id if variant != 'wrong-sid' else bytes(len(rp.session_id))
    body = R.string(alg) + R.string(blob) + R.string(claimed + '.') + R.string('cu')
    signed = R.string(sid) + R.byte(R.MSG_USERAUTH_REQUEST) + R.string(user) + R.string('ssh-connection') + R.string('hostbased') + body
    if variant == 'other-signer':
        signer = 'kx'
    sig = ckey(signer).sign(signed)
    return rp.userauth_request(user, 'hostbased', body + R.string(R.string('ssh-ed25519') + R.string(sig)))


def hb_admits(req, trust):
    """the rule: the key (or a certificate of a trusted CA whose principals name that host) must be the one listed for
    the host the request is judged as -- the name the client claims when the server trusts it, else the name its
    address resolves to -- the signature must verify over this session, and the application must accept (user,
    claimed host, client user)"""
    _, user, claimed, cred, variant = req
    judged = claimed if trust else 'peer.example'
    if variant != 'ok':
        return False
    if isinstance(cred, tuple):
        ok_key = judged in ('hosta', 'hostb', 'peer.example') and (not cred[2] or judged in cred[2])
    else:
        ok_key = HB_HOSTS.get(judged) == cred or (judged == 'peer.example' and cred == 'kp')
    return ok_key and (user, claimed, 'cu') in HB_ALLOWED


def hb_alphabet():
    creds = ['ka', 'kb', 'kx', 'kp', ('cert', 'kx', ('hosta',)), ('cert', 'kx', ('hostb',)), ('cert', 'kx', ('peer.example',)), ('cert', 'kx', ())]
    out = []
    for claimed in ('hosta', 'hostb', 'peer.example'):
        for cred in creds:
            out.append(('hb', 'alice', claimed, cred, 'ok'))
    out += [('hb', 'alice', 'hostb', 'kb', 'wrong-sid'), ('hb', 'alice', 'hostb', 'kb', 'other-signer'), ('hb', 'bob', 'hostb', 'kb', 'ok')]
    return out


def hb_run(trust, hist):
    if 'kp' not in _keys:
        _keys['kp'] = ed25519.Ed25519PrivateKey.from_private_bytes(b'\x06' * 32)
    import base64
    line = lambda names, k, marker='': '%s%s ssh-ed25519 %s\n' % (marker, names, base64.b64encode(pubblob(k)).decode())
    known = line('hosta', 'ka') + line('hostb', 'kb') + line('peer.example', 'kp') + line('hosta,hostb,peer.example', 'ca', '@cert-authority ')
    env = {'session_factory': lambda: P.RecSession('srv')}
    w = H.SrvWorld(env=env, server_factory=HostBasedServer,
                   sopts=dict(known_client_hosts=asyncssh.import_known_hosts(known), trust_client_host=trust, host_based_auth=True))
    w.loop.resolver['peer.example'] = '127.0.0.1'       # what the client's address resolves to
    rp = w.rp
    viol, admitted_at = [], None
    try:
        w.kex()
        rp.send(rp.service_request())
        w.flush()
        for i, req in enumerate(hist):
            if w.server_closed() or w.conn._auth_complete:
                break
            rp.send(hb_request(rp, req))
            w.flush()
            if w.conn._auth_complete and admitted_at is None:
                admitted_at = i
        want_at = next((i for i, r in enumerate(hist) if hb_admits(r, trust)), None)
        if admitted_at is not None and (want_at is None or admitted_at < want_at):
            viol.append(('admitted-without-valid-credential', 'request %d %r was accepted (trust_client_host=%s); user=%r' % (
                admitted_at, hist[admitted_at], trust, w.conn.get_extra_info('username'))))
        elif want_at is not None and admitted_at != want_at and not w.server_closed():
            viol.append(('valid-credential-refused', 'request %d %r should have been accepted (trust_client_host=%s), admitted at %r' % (
                want_at, hist[want_at], trust, admitted_at)))
        if admitted_at is not None and w.conn.get_extra_info('username') != hist[admitted_at][1]:
            viol.append(('authenticated-as-other-user', repr(w.conn.get_extra_info('username'))))
        if w.loop.unretrieved():
            viol.append(('loop-exception', repr(w.loop.exc_log[0].get('exception'))[:200]))
    except Livelock as exc:
        viol.append(('livelock', str(exc)))
    except R.RefError as exc:
        viol.append(('refpeer-reject', str(exc)))
    finally:
        w.close()
    return viol


def hb_worker(job):
    acc = core.Acc()
    for trust, hist in job:
        viol = hb_run(trust, hist)
        acc.add(core.digest(('hb', trust, hist)), transitions=len(hist),
                sample={'host_based': {'trust_client_host': trust, 'requests': [list(map(str, r[1:])) for r in hist]}} if len(hist) == 2 and hist[0][3] == 'ka' and hist[1][3] == 'ka' and trust and hist[1][2] == 'hostb' else None)
        for k, d in viol:
            acc.violation('auth:hostbased:%s:trust=%s:%s' % (k, trust, '+'.join('%s/%s' % (r[2], r[3] if isinstance(r[3], str) else 'cert-' + ','.join(r[3][2])) for r in hist)),
                          d, {'kind': 'hostbased', 'trust': trust, 'hist': [list(r[:3]) + [list(r[3]) if isinstance(r[3], tuple) else r[3], r[4]] for r in hist]})
    return acc


def hb_jobs(tier):
    al = hb_alphabet()
    hists = [(a,) for a in al] + [(a, b) for a in al for b in al]
    if tier == 'thorough':
        sub = [a for a in al if a[4] == 'ok' and a[1] == 'alice' and a[3] in ('ka', 'kb', 'kx', ('cert', 'kx', ('hosta',)), ('cert', 'kx', ('hostb',)))]
        hists += [(a, b, c) for a in sub for b in sub for c in sub]
    cases = [(t, h) for t in (True, False) for h in hists]
    return [cases[i::32] for i in range(32)]


def main(tier, seed):
    t0 = core.now()
    bound = 3 if tier == 'quick' else 5
    hs = histories(tier)
    jobs = [(h, bound if len(h) < 3 or (tier == 'thorough' and len(h) == 3 and all(tuple(r) in _CORE3 for r in h)) else min(bound, 2), False) for h in hs]
    jobs += [(h, 2 if tier == 'quick' else 4, True) for h in hs if len(h) <= 2]
    # servers that take the authorized keys of each user from an sshd-style configuration (reloaded when the
    # user name changes): user switches with keys and certificates
    ca = [('none', 'alice'), ('none', 'bob'), ('pk', 'alice', 'ka2', 'good'), ('pk', 'bob', 'ka2', 'good'), ('pk', 'bob', 'kb', 'good'),
          ('pk', 'alice', 'kb', 'good'), ('probe', 'alice', 'ka'), ('probe', 'bob', 'ka'), ('pk', 'bob', 'ka', 'good'),
          ('cert', 'alice', 'good'), ('cert', 'bob', 'good'), ('pw', 'bob', 'wrong')]
    chs = [[r] for r in ca] + [[r1, r2] for r1 in ca for r2 in ca] + \
        [[r1, r2, r3] for r1 in ca[:2] for r2 in ca for r3 in ca[2:9]]
    for mode in ('cfg-%u', 'cfg-match'):
        jobs += [([list(r) for r in h], 1 if tier == 'quick' else 2, mode) for h in chs]
    # application servers that install keys in begin_auth() only for users who have some: a switch to a user
    # without keys (root) must not inherit the previous user's
    ra = [('none', 'alice'), ('pk', 'alice', 'ka2', 'good'), ('probe', 'alice', 'ka'), ('pk', 'alice', 'kb', 'good'), ('none', 'root'),
          ('pk', 'root', 'ka2', 'good'), ('pk', 'root', 'ka', 'good'), ('probe', 'root', 'ka2'), ('cert', 'root', 'good'), ('none', 'bob'),
          ('pk', 'bob', 'kb', 'good'), ('pk', 'root', 'kb', 'good')]
    rhs = [[r] for r in ra] + [[r1, r2] for r1 in ra for r2 in ra] + [[r1, r2, r3] for r1 in ra[:4] for r2 in ra[4:9] for r3 in ra[4:9]]
    jobs += [([list(r) for r in h], 1 if tier == 'quick' else 2, 'sparse') for h in rhs]
    # determinism: the same schedule twice
    probe = [['pw', 'alice', 'right'], ['pw', 'bob', 'wrong']]
    ch0 = core.Chooser([])
    execute(probe, ch0, False, seed)
    dev = []
    for n, c, _c, _l in ch0.trace:
        if n > 1:
            dev.append(1)
            break
        dev.append(0)
    o1 = execute(probe, core.Chooser(dev), False, seed)
    o2 = execute(probe, core.Chooser(dev), False, seed)
    if o1 != o2:
        print('HARNESS-NONDETERMINISM: %r != %r' % (o1, o2))
        return 2
    acc = core.pmap(explore_history, core.rotate(jobs, seed), chunksize=8)
    shutil.rmtree(SCRATCH, ignore_errors=True)
    acc.merge(converse())
    rc = restrict_cases(tier)
    acc.merge(core.pmap(restrict_worker, [rc[i::32] for i in range(32)]))
    acc.merge(core.pmap(hb_worker, hb_jobs(tier)))
    rule = ('every history of USERAUTH requests (alphabet: none/password right|wrong|other-user/'
            'publickey probe/publickey signed good|wrong session id|other user in signed blob|'
            'other signer|wrong service/malformed/channel-open probe, users alice|bob) of length '
            '<=2 over the full alphabet and 3 over a reduced one, sent pipelined; for each, every '
            'schedule of pending validator futures, begin_auth futures, reload_config executor '
            'jobs and packet deliveries with at most `bound` deviations from FIFO; the same over a reduced '
            'alphabet against servers whose per-user keys come from an sshd-style configuration (%u / Match User); real clients: '
            'what the server offers (5 keyboard-interactive styles, password, publickey) x what the client holds x 3 method orders; '
            'restrictions: every subset of 7 authorized_keys options (+ from=) and every certificate permit/force-command/source-address '
            'combination, probed with pty, agent, X11, env, exec, direct-tcpip x2 and tcpip-forward; distinct = '
            'distinct (history, schedule, outcome)')
    return core.finish(PROP, tier, seed, 'model_checking', acc, t0, rule,
                       {'deviation_bound': bound, 'histories': len(hs),
                        'jobs': len(jobs)},
                       assumptions=['application callbacks are honest (return the ground truth) '
                                    'but complete at arbitrary times',
                                    'GSS, security-key and host-based methods not driven'])


def replay(rep):
    r = rep['replay']
    if isinstance(r, dict) and r.get('kind') == 'hostbased':
        hist = tuple((h[0], h[1], h[2], tuple([h[3][0], h[3][1], tuple(h[3][2])]) if isinstance(h[3], list) else h[3], h[4]) for h in r['hist'])
        v = hb_run(r['trust'], hist)
        print(json.dumps(v, indent=1, default=repr))
        if v:
            print('VIOLATION property=%s replay=(given)' % PROP)
            return 1
        return 0
    if r.get('kind') == 'matrix':
        import converse_c05
        acc = converse_c05.matrix_worker([tuple(r['case'])])
        print(json.dumps(acc.violations, indent=1, default=repr))
        return 1 if acc.violations else 0
    if r.get('kind') in ('converse', 'identity'):
        import converse_c05
        if r['kind'] == 'identity':
            c = r['case']
            acc = converse_c05.identity_worker([(tuple(tuple(a) for a in c[0]), tuple(c[1]), tuple(c[2]))])
        else:
            acc = converse_c05.run(only=r['name'])
        print(json.dumps(acc.violations, indent=1, default=repr))
        return 1 if acc.violations else 0
    ch = core.Chooser(r['choices'])
    obs = execute(r['hist'], ch, r.get('async_begin', False))
    v = judge(r['hist'], obs)
    print(json.dumps({'history': r['hist'], 'schedule': [str(e) for e in obs['events']],
                      'observation': {k: obs[k] for k in ('n_success', 'username', 'completed',
                                                          'closed', 'forced', 'fwd_attempt')},
                      'violations': v}, indent=1, default=repr))
    if v:
        print('VIOLATION property=%s replay=(given)' % PROP)
        return 1
    return 0
