"""C18  Config files resolve like OpenSSH, and never expand unsafe input.

Program enumeration: every client configuration built from <= 2 (thorough 3) conditional
blocks over a header alphabet (Host patterns incl. negation/wildcards, Match host /
originalhost / user / localuser / all with negation), each block assigning every option
under test a distinct value, in three option-set variants (plain, Hostname with %h and
tokens in IdentityFile, Include files) x 12 targets; the values SSHClientConfig yields must
equal what `ssh -G -F file` resolves.  Server side: AuthorizedKeysFile templates x hostile
user names.
"""

import itertools
import json
import os
import posixpath
import shutil
import subprocess

import asyncssh
from asyncssh.config import SSHClientConfig, SSHServerConfig

import core

PROP = 'C18'
SSH = shutil.which('ssh')
SCRATCH = '/dev/shm/asyncssh-verif-c18-%d' % os.getpid()       # unique per check run (workers are forked later)
HOME = os.path.join(SCRATCH, 'home')

HEADERS = ['Host a', 'Host a*', 'Host *', 'Host !a *', 'Host * !a', 'Host b.example ab', 'Host ?b', 'Host *.example !b.example',
           'Match host a', 'Match host a*,!ab', 'Match !host a', 'Match originalhost ab', 'Match user u', 'Match !user u',
           'Match all', 'Match localuser root', 'Match host a user u', 'Match host "a,ab"']


def block_options(i, variant, incdir):
    v = i + 1
    if variant == 'plain':
        return ['User u%d' % v, 'Port 220%d' % v, 'Compression %s' % ('yes' if v % 2 else 'no'),
                'IdentityFile ~/.ssh/id_%d' % v, 'SendEnv V%d' % v, 'ProxyJump jump%d' % v]
    if variant == 'tokens':
        return ['Hostname=%%h.d%d.example' % v, 'User = "u%d"' % v, 'IdentityFile "~/.ssh/k %d_%%h_%%r_%%p_%%n_%%%%"' % v,
                'IdentityFile %%d/alt%d_%%u' % v, 'SendEnv=W%d X%d' % (v, v), 'SetEnv A%d=1' % v]
    if variant == 'include':
        return ['Include %s/inc%d.conf' % (incdir, v), 'Port 230%d' % v, 'Include %s/none*.conf' % incdir]
    if variant == 'include-multi':
        # one Include naming several files / a glob matching several: a file that ends inside a
        # non-matching block must not switch off the beginning of the next one
        return ['Include %s/g*.conf' % incdir, 'Port 240%d' % v, 'Include %s/m1.conf %s/m2.conf' % (incdir, incdir),
                'SendEnv B%d' % v]
    if variant == 'env':
        # ${VAR} stands for the variable's text as it is: what looks like a token inside it is not one
        return ['IdentityAgent ${C18_KD%d}/agent' % v, 'User e%d' % v, 'Port 260%d' % v, 'SendEnv E%d' % v]
    if variant == 'include-tokens':
        # tokens written in an included file (or before later lines) stand for the FINAL host, user and port
        return ['User t%d' % v, 'Port 250%d' % v, 'Hostname %%h.t%d.example' % v, 'Include %s/tok%d.conf' % (incdir, v), 'IdentityFile /k/after%d_%%r_%%%%r' % v]
    if variant in ('none-first', 'none-later'):
        # an explicit "none" is a value like any other: obtained first it stands, obtained later it is ignored
        is_none = (i == 0) == (variant == 'none-first')
        return ['ProxyJump %s' % ('none' if is_none else 'jump%d' % v), 'User u%d' % v, 'Port 220%d' % v, 'SendEnv N%d' % v]
    raise ValueError(variant)


def program(headers, variant, incdir):
    lines = []
    if variant == 'include':
        lines.append('Include %s/top.conf' % incdir)
    if variant == 'include-tokens':
        lines.append('Include %s/toktop.conf' % incdir)
        lines.append('IdentityFile /k/top_%r_%h_%p_%%h')
    if variant == 'include-multi':
        # several files on one line are read in the order written (not sorted): m2 before m1 here
        lines.append('Include %s/m2.conf %s/g3.conf %s/m1.conf' % (incdir, incdir, incdir))
    for i, h in enumerate(headers):
        lines.append(h)
        for o in block_options(i, variant, incdir):
            lines.append('    ' + o)
    return '\n'.join(lines) + '\n'


def write_includes(incdir):
    os.makedirs(incdir, exist_ok=True)
    with open(os.path.join(incdir, 'top.conf'), 'w') as f:
        f.write('SendEnv TOP\nHost ab\n  User topab\n')
    for name, text in (('m1.conf', 'SendEnv M1\nHost zzz\n  User m1zzz\n  Port 2501\n'),
                       ('m2.conf', 'SendEnv M2\nUser m2\nHost ab\n  IdentityFile ~/.ssh/m2_ab\n'),
                       ('g1.conf', 'SendEnv G1\nMatch host nomatch\n  User g1no\n  SendEnv G1NO\n'),
                       ('g2.conf', 'SendEnv G2\nCompression yes\nMatch host a\n  ProxyJump g2a\n'),
                       ('g3.conf', 'SendEnv G3\nProxyJump g3\n')):
        with open(os.path.join(incdir, name), 'w') as f:
            f.write(text)
    with open(os.path.join(incdir, 'toktop.conf'), 'w') as f:
        f.write('IdentityFile /k/inctop_%r_%h_%p_%%h_%n\n')
    for v in (1, 2, 3):
        with open(os.path.join(incdir, 'tok%d.conf' % v), 'w') as f:
            f.write('IdentityFile /k/inc%d_%%r_%%h_%%%%h\nSendEnv T%d\n' % (v, v))
    for v in (1, 2, 3):
        with open(os.path.join(incdir, 'inc%d.conf' % v), 'w') as f:
            f.write('User inc%d\nSendEnv I%d\nHost a\n  IdentityFile ~/.ssh/inc_a_%d\n' % (v, v, v))


def expand_tokens(val, host, orig, user, port):
    out = ''
    i = 0
    while i < len(val):
        if val[i] == '%' and i + 1 < len(val):
            c = val[i + 1]
            out += {'h': host, 'n': orig, 'r': user, 'p': str(port), '%': '%', 'd': HOME, 'u': 'root'}.get(c, '%' + c)
            i += 2
        else:
            out += val[i]
            i += 1
    if out.startswith('~/'):
        out = HOME + out[1:]
    return out


def ssh_g(cfgpath, host, user, port):
    cmd = [SSH, '-G', '-F', cfgpath]
    if user:
        cmd += ['-l', user]
    if port:
        cmd += ['-p', str(port)]
    cmd.append(host)
    r = subprocess.run(cmd, capture_output=True, text=True, env=dict(os.environ, HOME=HOME))
    if r.returncode != 0:
        return None, r.stderr.strip()[:200]
    out = {}
    for ln in r.stdout.splitlines():
        k, _, v = ln.partition(' ')
        out.setdefault(k, []).append(v)
    return out, None


def compare(cfgpath, host, user, port, paths=None):
    """paths: asyncssh is given this list of files (config=[f1, f2, ...]); ssh -G reads cfgpath, which
    includes them one after the other (every file starts outside any Host/Match block)"""
    ref, err = ssh_g(cfgpath, host, user, port)
    try:
        cfg = SSHClientConfig.load(None, paths or [cfgpath], False, False, False, 'root', user or (), host, port or ())
        aerr = None
    except Exception as exc:        # pylint: disable=broad-except
        cfg, aerr = None, repr(exc)
    if ref is None or cfg is None:
        if (ref is None) != (cfg is None):
            return [('parse-disagreement', 'ssh -G: %s ; asyncssh: %s' % (err, aerr))]
        return []
    diffs = []
    r_user = ref['user'][0]
    r_host = ref['hostname'][0]
    r_port = int(ref['port'][0])
    a_user = cfg.get('User')
    if (a_user or 'root') != r_user:
        diffs.append(('User', a_user, r_user))
    a_host = cfg.get('Hostname', host)
    if a_host != r_host:
        diffs.append(('Hostname', a_host, r_host))
    if cfg.get('Port', 22) != r_port:
        diffs.append(('Port', cfg.get('Port'), r_port))
    a_comp = cfg.get('Compression')
    if (bool(a_comp)) != (ref.get('compression', ['no'])[0] == 'yes'):
        diffs.append(('Compression', a_comp, ref.get('compression')))
    a_pj = cfg.get('ProxyJump')
    if (a_pj or None) != (ref.get('proxyjump', [None])[0]):
        diffs.append(('ProxyJump', a_pj, ref.get('proxyjump')))
    a_id = cfg.get('IdentityFile')
    if a_id:
        r_id = [expand_tokens(x, r_host, host, r_user, r_port) for x in ref.get('identityfile', [])]
        a_idx = [HOME + x[1:] if x.startswith('~/') else x for x in a_id]
        if a_idx != r_id:
            diffs.append(('IdentityFile', a_idx, r_id))
    a_agent = cfg.get('IdentityAgent')
    r_agent = ref.get('identityagent', [None])[0]
    if r_agent is not None and r_agent not in ('SSH_AUTH_SOCK', 'none') and '${' not in r_agent and a_agent != r_agent:
        diffs.append(('IdentityAgent', a_agent, r_agent))
    a_send = cfg.get('SendEnv') or []
    if list(a_send) != ref.get('sendenv', []):
        diffs.append(('SendEnv', list(a_send), ref.get('sendenv', [])))
    a_set = cfg.get('SetEnv') or []
    if list(a_set) != ref.get('setenv', []):
        diffs.append(('SetEnv', list(a_set), ref.get('setenv', [])))
    return [('option-differs', '%s: asyncssh %r, ssh -G %r' % d) for d in diffs]


def client_worker(job):
    progs = job
    acc = core.Acc()
    wd = os.path.join(SCRATCH, 'w%d' % os.getpid())
    incdir = os.path.join(wd, 'inc')
    write_includes(incdir)
    os.makedirs(HOME, exist_ok=True)
    os.environ['HOME'] = HOME           # asyncssh expands %d and ~ from the environment, like ssh does
    for i_, val_ in enumerate(('/k/a%hb', '/k/My%20Keys', '/k/%u%%r'), 1):
        os.environ['C18_KD%d' % i_] = val_
    for headers, variant in progs:
        cfgpath = os.path.join(wd, 'cfg')
        paths = None
        if variant == 'list':
            # the blocks go into separate files handed to asyncssh as a list
            paths = []
            for i, h in enumerate(headers):
                p = os.path.join(wd, 'part%d' % i)
                with open(p, 'w') as f:
                    f.write(('SendEnv L%d\n' % i) + program((h,), 'plain', incdir).replace('u1', 'u%d' % (i + 1)).replace('2201', '220%d' % (i + 1))
                            .replace('V1', 'V%d' % (i + 1)).replace('id_1', 'id_%d' % (i + 1)).replace('jump1', 'jump%d' % (i + 1)))
                paths.append(p)
            text = ''.join('Include %s\n' % p for p in paths)
        else:
            text = program(headers, variant, incdir)
        with open(cfgpath, 'w') as f:
            f.write(text)
        if paths:
            text = ' | '.join(open(p).read().replace('\n', ' ; ') for p in paths)
        prev = None
        for host in ('a', 'ab', 'b.example'):
            for user in (None, 'u'):
                for port in (None, 2222):
                    viol = compare(cfgpath, host, user, port, paths)
                    # the same files re-evaluated for the next target on top of the previous evaluation (what a
                    # server does when the user name changes, and connect() for canonical/final passes): nothing of
                    # the previous target may stick
                    try:
                        fresh = SSHClientConfig.load(None, paths or [cfgpath], False, False, False, 'root', user or (), host, port or ())
                        chained = SSHClientConfig.load(prev, paths or [cfgpath], True, False, False, 'root', user or (), host, port or ())
                        if chained._options != fresh._options:         # pylint: disable=protected-access
                            diff = {k: (chained._options.get(k), fresh._options.get(k)) for k in set(chained._options) | set(fresh._options)
                                    if chained._options.get(k) != fresh._options.get(k)}
                            viol.append(('reload-keeps-previous-target', 're-evaluated for host=%s user=%s port=%s after another target: %r (chained, fresh)'
                                         % (host, user, port, diff)))
                        prev = chained
                    except Exception as exc:        # pylint: disable=broad-except
                        prev = None
                    acc.add(core.digest((headers, variant, host, user, port)), transitions=1,
                            sample={'config': text[:300], 'target': [host, user, port]} if len(headers) == 2 and variant == 'tokens' and host == 'ab' and user else None)
                    for k, d in viol:
                        acc.violation('config:%s:%s:%s' % (k, variant, d.split(':')[0]),
                                      '%s ; target host=%s user=%s port=%s ; config:\n%s' % (d, host, user, port, text[:600]),
                                      {'kind': 'client', 'headers': list(headers), 'variant': variant, 'target': [host, user, port]})
    shutil.rmtree(wd, ignore_errors=True)
    return acc


# ------------------------------------------------------------------ server side: %u expansion
TEMPLATES = ['%u', 'keys/%u', '%u/keys', '/etc/ssh/%u.keys', '%%u', '/srv/keys/%u/authorized_keys', 'k_%u_%u']
USERS = ['alice', '..', '.', '~', '~x', 'a/b', 'a\\b', 'C:', 'c:x', '${HOME}', 'x${HOME}', '%u', '%h', 'a..b', ' ', 'u' * 255,
         'alice/../root', '../root', 'bob\\..\\admin', 'x/', '/x', '\\x', '...', 'a~b', 'a:b', '${}', 'x$HOME', 'a${b', '-rf',
         'alice\n', 'tab\tname']


def server_worker(_job):
    acc = core.Acc()
    wd = os.path.join(SCRATCH, 's%d' % os.getpid())
    os.makedirs(wd, exist_ok=True)
    for tmpl in TEMPLATES:
        cfgpath = os.path.join(wd, 'sshd')
        with open(cfgpath, 'w') as f:
            f.write('AuthorizedKeysFile %s\nMatch user alice\n  PermitTTY no\n' % tmpl)
        for user in USERS:
            try:
                cfg = SSHServerConfig.load(None, [cfgpath], False, False, False, '127.0.0.1', 22, user, 'h', '10.0.0.1')
                val = cfg.get('AuthorizedKeysFile')
                out = ('value', val)
            except asyncssh.IllegalUserName:
                out = ('IllegalUserName', None)
            except Exception as exc:        # pylint: disable=broad-except
                out = ('error', repr(exc))
            acc.add(core.digest((tmpl, user, out[0])), transitions=1,
                    sample={'template': tmpl, 'user': user, 'result': out[0]} if user == 'alice/../root' else None)
            if out[0] == 'error':
                acc.violation('config:server-expansion-error', 'template %r user %r: %s' % (tmpl, user, out[1]),
                              {'kind': 'server', 'tmpl': tmpl, 'user': user})
            elif out[0] == 'value' and '%u' in tmpl.replace('%%', ''):
                # the name must have been inserted as one inert path component
                for v in (val if isinstance(val, list) else [val]):
                    safe_expected = tmpl.replace('%%', '\0').replace('%u', user).replace('\0', '%')
                    base = tmpl.replace('%%', '\0').replace('%u', 'SAFE').replace('\0', '%')
                    p1 = posixpath.normpath(posixpath.join('/r', safe_expected)).split('/')
                    p0 = posixpath.normpath(posixpath.join('/r', base)).split('/')
                    raw1 = posixpath.join('/r', safe_expected).split('/')
                    changed_dir = (len(p1) != len(p0) or raw1 != p1 or
                                   any(c1 != c0.replace('SAFE', user) for c0, c1 in zip(p0, p1)))
                    meta = any(x in user for x in ('/', '\\')) or bool(__import__('re').search(r'\$\{.*?\}', user)) or user in ('..', '.') or user.startswith('~') or \
                        (len(user) >= 2 and user[1] == ':' and user[0].isalpha())
                    if v != safe_expected:
                        acc.violation('config:server-expansion-wrong', 'template %r user %r expanded to %r' % (tmpl, user, v),
                                      {'kind': 'server', 'tmpl': tmpl, 'user': user})
                    elif changed_dir or meta:
                        acc.violation('config:unsafe-user-substituted:%r' % user, 'template %r with user %r expanded to %r, which '
                                      'changes the meaning of the path' % (tmpl, user, v), {'kind': 'server', 'tmpl': tmpl, 'user': user})
    shutil.rmtree(wd, ignore_errors=True)
    return acc


# ------------------------------------------------------------------ the connection path: second (final) parsing pass
FINAL_HEADERS = ['Host a', 'Host a*', 'Host *', 'Host !a *', 'Host b.example ab', 'Match host a', 'Match originalhost ab', 'Match user u',
                 'Match final', 'Match final host a*', 'Match final originalhost a', 'Match !final host a', 'Match final user u2',
                 'Match final all']


class _Stop(Exception):
    pass


def connect_options(cfgpath, host, user, port):
    """What asyncssh.connect() is about to use for this target: the options object as it stands when the
    connection would be opened (after the second parsing pass that a 'Match final' block asks for).  Seam:
    the module-level tunnel opener, the first thing _connect calls after settling the options, is replaced
    by a recorder that stops the attempt; no socket is opened."""
    import asyncio
    import asyncssh.connection as AC
    got = {}

    async def spy(_tunnel, options, _config):
        got['o'] = options
        raise _Stop()
    orig = AC._open_tunnel          # pylint: disable=protected-access
    AC._open_tunnel = spy
    loop = asyncio.new_event_loop()
    try:
        loop.run_until_complete(asyncssh.connect(host, port or (), username=user or (), config=[cfgpath], known_hosts=None,
                                                 client_keys=None, agent_path=None))
    except _Stop:
        pass
    finally:
        AC._open_tunnel = orig
        loop.run_until_complete(loop.shutdown_asyncgens())
        loop.close()
    return got.get('o')


def single_pass_headers(headers):
    """The same blocks with the final pass written out: a block conditional on `final` holds (its other criteria
    permitting), one conditional on `!final` does not.  ssh -G on this text is the documented one-pass reading
    (first obtained value, Host against the name given) with the final pass in force."""
    out = []
    for h in headers:
        if h.startswith('Match !final'):
            out.append('Match host never.invalid')
        elif h.startswith('Match final'):
            rest = h[len('Match final'):].strip()
            out.append('Match ' + (rest or 'all'))
        else:
            out.append(h)
    return tuple(out)


def _norm(ref):
    def dedup(xs):
        seen, out = set(), []
        for x in xs:
            if x not in seen:
                seen.add(x)
                out.append(x)
        return out
    return {'hostname': ref['hostname'][0], 'port': int(ref['port'][0]), 'user': ref['user'][0],
            'proxyjump': ref.get('proxyjump', [None])[0], 'compression': ref.get('compression', ['no'])[0] == 'yes',
            'sendenv': dedup(ref.get('sendenv', []))}


def connect_compare(cfgpath, modelpath, host, user, port):
    """returns (violations, judged).  Reference: `ssh -G` on the file itself; judged only where that equals `ssh -G`
    on the one-pass reading of the file (modelpath).  Where the two differ, ssh's two-pass implementation departs
    from the rules the property states (first obtained value in file order; Host against the name given): values
    of the first pass win over earlier `Match final` lines, Hostname inside `Match final` is ignored, Host
    patterns of the second pass see the rewritten name -- no verdict follows from the property there."""
    ref, err = ssh_g(cfgpath, host, user, port)
    ref1, err1 = ssh_g(modelpath, host, user, port)
    try:
        o = connect_options(cfgpath, host, user, port)
        aerr = None if o is not None else 'connect() ended before opening anything'
    except Exception as exc:        # pylint: disable=broad-except
        o, aerr = None, repr(exc)
    if ref is None or ref1 is None:
        if ref is None and ref1 is None and o is not None:
            return [('parse-disagreement', 'ssh -G: %s ; asyncssh.connect accepted the file' % err)], True
        return [], False
    if _norm(ref) != _norm(ref1):
        return [], False
    if o is None:
        return [('parse-disagreement', 'ssh -G resolves the file ; asyncssh.connect: %s' % aerr)], True
    want = _norm(ref)
    got = {'hostname': o.host, 'port': o.port, 'user': o.username, 'proxyjump': o.tunnel or None,
           'compression': bool(o.compression_algs and o.compression_algs[0] != b'none'),
           'sendenv': [x.decode() if isinstance(x, bytes) else x for x in (o.send_env or ())]}
    return [('option-differs', '%s: asyncssh.connect %r, ssh -G %r' % (k, got[k], want[k])) for k in want if got[k] != want[k]], True


def connect_worker(job):
    acc = core.Acc()
    wd = os.path.join(SCRATCH, 'c%d' % os.getpid())
    incdir = os.path.join(wd, 'inc')
    os.makedirs(wd, exist_ok=True)
    os.makedirs(HOME, exist_ok=True)
    os.environ['HOME'] = HOME
    for headers, variant in job:
        cfgpath = os.path.join(wd, 'cfg')
        modelpath = os.path.join(wd, 'cfg1')
        text = program(headers, variant, incdir)
        with open(cfgpath, 'w') as f:
            f.write(text)
        with open(modelpath, 'w') as f:
            f.write(program(single_pass_headers(headers), variant, incdir))
        for host in ('a', 'ab', 'b.example'):
            for user in (None, 'u'):
                for port in (None, 2222):
                    viol, judged = connect_compare(cfgpath, modelpath, host, user, port)
                    acc.count('connect:judged' if judged else 'connect:ssh-passes-disagree-not-judged')
                    acc.add(core.digest(('connect', headers, variant, host, user, port)), transitions=1,
                            sample={'connect_config': text[:300], 'target': [host, user, port]} if len(headers) == 2 and 'final' in headers[1] and host == 'a' and not user and not port and variant == 'tokens' else None)
                    for k, d in viol:
                        acc.violation('config:connect-%s:%s:%s' % (k, variant, d.split(':')[0]),
                                      '%s ; target host=%s user=%s port=%s ; config:\n%s' % (d, host, user, port, text[:600]),
                                      {'kind': 'connect', 'headers': list(headers), 'variant': variant, 'target': [host, user, port]})
    shutil.rmtree(wd, ignore_errors=True)
    return acc


def connect_jobs(tier):
    depth = 2 if tier == 'quick' else 3
    hs = []
    for n in range(1, depth + 1):
        hs += [h for h in itertools.product(FINAL_HEADERS, repeat=n) if any('final' in x for x in h) or n == 1]
    progs = [(h, v) for h in hs for v in ('plain', 'tokens')]
    return [progs[i::64] for i in range(64)]


def main(tier, seed):
    t0 = core.now()
    if not SSH:
        print('ssh not available')
    os.makedirs(HOME, exist_ok=True)
    depth = 2 if tier == 'quick' else 3
    hs = []
    for n in range(1, depth + 1):
        hs += list(itertools.product(HEADERS, repeat=n))
    if tier == 'thorough':
        hs = [h for h in hs if len(h) < 3 or len(set(h)) == 3]
    progs = [(h, v) for h in hs for v in ('plain', 'tokens', 'include', 'include-multi', 'list', 'none-first', 'none-later', 'include-tokens', 'env')]
    acc = core.pmap(client_worker, core.rotate([progs[i::64] for i in range(64)], seed))
    n_client = acc.evaluations
    acc.merge(core.pmap(server_worker, [0]))
    acc.merge(core.pmap(connect_worker, core.rotate(connect_jobs(tier), seed)))
    shutil.rmtree(SCRATCH, ignore_errors=True)
    rule = ('client: every sequence of 1..%d conditional blocks over %d headers (Host patterns with wildcards and '
            'negation in either position, Match host/originalhost/user/localuser/all with negation and lists), every '
            'block assigning each option under test a distinct value, x 9 variants (environment references whose text contains percent signs; percent tokens in included files and before the lines that set what they stand for; an explicit none obtained first or later; plain; "=" and quoted spellings, '
            'Hostname with %%h, IdentityFile with %%h %%r %%p %%n %%%% %%d %%u, multiple SendEnv words, SetEnv; Include '
            'of existing, nested-Host and non-matching glob files; one Include naming several files or a glob matching '
            'several, some ending inside a non-matching block; the blocks as separate files given as a list) x 12 targets (3 hosts x user x port) vs ssh -G; '
            'each program also re-evaluated target after target on top of the previous evaluation (reload): equal to a fresh load; '
            'server: %d AuthorizedKeysFile templates x %d user names; connection path: asyncssh.connect() itself (stopped where it '
            'would open the socket or tunnel) for every sequence of 1..%d blocks over %d headers with `Match [!]final` forms x '
            '{plain, Hostname rewrite} x 12 targets: the options it is about to use equal ssh -G, judged where ssh -G of the file '
            'equals ssh -G of its one-pass reading (counters connect:*)' % (depth, len(HEADERS), len(TEMPLATES), len(USERS), depth, len(FINAL_HEADERS)))
    return core.finish(PROP, tier, seed, 'exploration', acc, t0, rule,
                       {'programs': len(progs), 'ssh_G_calls': n_client},
                       assumptions=['OpenSSH 9.2 `ssh -G` is the reference; token expansion of IdentityFile (which '
                                    'ssh -G prints raw) follows ssh_config(5)', 'Match exec and canonical passes '
                                    'are not generated (they need DNS or a shell)',
                                    'final pass: where ssh -G of a file differs from ssh -G of its one-pass reading (first-pass values '
                                    'winning over earlier Match final lines, Hostname inside Match final ignored, Host patterns seeing '
                                    'the rewritten name) the property gives no verdict and the target is not judged'])


def replay(rep):
    r = rep['replay']
    os.makedirs(HOME, exist_ok=True)
    if r['kind'] == 'client':
        acc = client_worker([(tuple(r['headers']), r['variant'])])
    elif r['kind'] == 'connect':
        acc = connect_worker([(tuple(r['headers']), r['variant'])])
    else:
        acc = server_worker(0)
    print(json.dumps(acc.violations[:5], indent=1, default=repr))
    if acc.violations:
        print('VIOLATION property=%s replay=(given)' % PROP)
        return 1
    return 0
