"""C13 (b): downloads never create or modify anything outside the destination the caller named.

 * SCP sink: a real client `asyncssh.scp((conn, src), dest, recurse=True)` against a server
   whose exec handler hand-speaks every record sequence from a hostile alphabet;
 * recursive SFTPClient.get / mget against a model server serving hostile listings.
"""

import itertools
import os
import shutil

import asyncssh

import core
import fsmon
import pair as P
import refsftp as RS
from refsftp import FXP
from vloop import Livelock

BASE = '/dev/shm/asyncssh-verif-c13-%d' % os.getpid()       # unique per check run (workers are forked later)
NAMES = [b'a', b'..', b'.', b'../x', b'/abs/x', b'a/b', b'a\\b', b'', b'..\\x', b'../../y', b'...', b'a/..', b'a/.', b'a/', b'x/../..']


def wdir():
    return os.path.join(BASE, 'dl-%d' % os.getpid())


def prep():
    w = wdir()
    shutil.rmtree(w, ignore_errors=True)
    os.makedirs(os.path.join(w, 'dl', 'dest'))
    os.makedirs(os.path.join(w, 'dl', 'sibling'))
    with open(os.path.join(w, 'dl', 'sibling', 'keep'), 'wb') as f:
        f.write(b'keep')
    with open(os.path.join(w, 'x'), 'wb') as f:
        f.write(b'original-x')
    # what the hostile side's symbolic links point at: must stay byte-, mode- and time-identical
    for p in (os.path.join(w, 'outside-target'), os.path.join(w, 'dl', 'outside-target')):
        with open(p, 'wb') as f:
            f.write(b'private')
        os.chmod(p, 0o600)
        os.utime(p, (1500000000, 1500000000))
    return w, os.path.join(w, 'dl', 'dest')


def outside_state(w):
    """everything in the work dir except dl/dest"""
    out = []
    for d, dirs, files in os.walk(w):
        if d.startswith(os.path.join(w, 'dl', 'dest')):
            dirs[:] = []
            continue
        for n in sorted(files):
            p = os.path.join(d, n)
            if os.path.islink(p):
                out.append((p, b'LINK:' + os.readlink(p).encode()))
            else:
                try:
                    st = os.lstat(p)
                    out.append((p, open(p, 'rb').read(), st.st_mode, int(st.st_mtime)))
                except OSError as exc:
                    out.append((p, repr(exc).encode()))
        for n in sorted(dirs):
            out.append((os.path.join(d, n), None))
    return sorted(out)


# ------------------------------------------------------------------ SCP
def scp_symbols(tier):
    syms = [('E',), ('T',), ('W',), ('F',)]
    for n in NAMES:
        syms.append(('C', n))
        syms.append(('D', n))
    return syms


def scp_run(records, dest_exists=True, preserve=False, errhandler=False):
    w, dest = prep()
    if not dest_exists:
        shutil.rmtree(dest)
    before = outside_state(w)
    loop = P.fresh(0)
    viol = []
    try:
        async def handler(process):
            stdin, stdout = process.stdin, process.stdout
            try:
                await stdin.read(1)
                for rec in records:
                    k = rec[0]
                    if k == 'C':
                        stdout.write(b'C0644 5 ' + rec[1] + b'\n')
                        await stdin.read(1)
                        stdout.write(b'hello\0')
                        await stdin.read(1)
                    elif k == 'D':
                        stdout.write(b'D0755 0 ' + rec[1] + b'\n')
                        await stdin.read(1)
                    elif k == 'E':
                        stdout.write(b'E\n')
                        await stdin.read(1)
                    elif k == 'T':
                        stdout.write(b'T1600000000 0 1600000000 0\n')
                        await stdin.read(1)
                    elif k == 'W':
                        stdout.write(b'\x01warning\n')
                    elif k == 'F':
                        stdout.write(b'\x02fatal\n')
            except Exception:           # pylint: disable=broad-except
                pass
            process.exit(0)
        pair = P.Pair(loop, sopts=dict(process_factory=handler, encoding=None))
        pair.handshake()
        mon = fsmon.start(dest if dest_exists else os.path.dirname(dest))
        try:
            kw = dict(error_handler=lambda exc: None) if errhandler else {}
            t = loop.create_task(asyncssh.scp((pair.c, 'src'), dest, recurse=True, preserve=preserve, **kw))
            loop.flush_all()
            if not t.done():
                # the hostile source went silent: drop the connection, the sink must then finish
                loop.cut(pair.ct)
                loop.flush_all()
            if not t.done():
                viol.append(('hang', 'scp never finished'))
            else:
                t.exception()
        finally:
            fsmon.stop()
        for op, p, phys, ro in mon.violations:
            if not ro:
                viol.append(('write-outside-destination', '%s(%r) resolves to %s' % (op, p, phys)))
                break
        if outside_state(w) != before:
            viol.append(('outside-modified', 'files outside the destination changed'))
        if loop.unretrieved():
            viol.append(('loop-exception', repr(loop.exc_log[0].get('exception'))[:200]))
    except Livelock as exc:
        viol.append(('livelock', str(exc)))
    finally:
        P.done(loop)
    return viol


def scp_worker(job):
    acc = core.Acc()
    try:
        for records in job:
            preserve = bool(records) and records[0] == ('preserve',)
            errh = bool(records) and records[0] == ('errhandler',)
            if preserve or errh:
                records = records[1:]
            viol = scp_run(records, preserve=preserve, errhandler=errh)
            acc.add(core.digest(('scp', records, preserve, errh)), transitions=len(records),
                    sample={'scp_records': [[r[0]] + [x.decode('latin1') for x in r[1:]] for r in records]}
                    if len(records) == 3 and records[0] == ('D', b'a') else None)
            for k, d in viol:
                acc.violation('download:%s:scp%s:%s' % (k, '-p' if preserve else '-errhandler' if errh else '', ''.join(r[0] for r in records)),
                              '%s ; records=%r preserve=%r' % (d, records, preserve),
                              {'kind': 'dl-scp', 'records': ([['preserve']] if preserve else [['errhandler']] if errh else []) + [[r[0]] + [x.decode('latin1') for x in r[1:]] for r in records]})
    finally:
        shutil.rmtree(wdir(), ignore_errors=True)
    return acc


# ------------------------------------------------------------------ recursive SFTP get
class HostileSFTP(RS.RefSFTP):
    """serves whatever path is asked for: type decided by the listing that named it"""

    def __init__(self, loop, listing, nested):
        RS.RefSFTP.__init__(self, loop, extensions=[])
        self.kinds = {}
        self.dirs[b'/dir'] = [(n, k.lower(), None) for n, k in listing]
        self.nested = nested
        for n, k in listing:
            self.kinds[n] = k

    def kind_of(self, path):
        if path in (b'/dir', b'/dir/'):
            return 'd'
        base = path[len(b'/dir/'):] if path.startswith(b'/dir/') else path
        for n, k in self.kinds.items():
            if base == n:
                return k
            if base.startswith(n + b'/') and k == 'd':
                return 'f'
        return 'f'

    def answer(self, idx=0, variant='ok', **kw):
        req = self.pending[idx]
        t, f = req.type, req.f
        if t == FXP['STAT'] and self.kind_of(f['path']) == 'L':
            req.type = t = FXP['LSTAT']     # answers with the link's own attributes whatever was asked
        if t in (FXP['STAT'], FXP['LSTAT']) and f['path'] not in self.files and f['path'] not in self.dirs:
            k = self.kind_of(f['path'])
            if k == 'l' and t == FXP['STAT']:
                k = 'f'
            if k == 'L':            # claims to be a link even when the client asks for what the link names
                k = 'l'
            if k == 'd':
                self.dirs.setdefault(f['path'], [(n, 'f', None) for n in self.nested])
            elif k == 'l':
                self.links.setdefault(f['path'], b'../../outside-target')
            else:
                self.put_file(f['path'], b'DATA')
                # put_file registers the name in its parent listing; undo that side effect
                d = f['path'].rpartition(b'/')[0] or b'/'
                if d in self.dirs and d != b'/dir':
                    pass
        elif t == FXP['OPENDIR'] and f['path'] not in self.dirs:
            self.dirs[f['path']] = [(n, 'f', None) for n in self.nested]
        elif t == FXP['OPEN'] and f['path'] not in self.files:
            self.files[f['path']] = bytearray(b'DATA')
        elif t == FXP['READLINK'] and f['path'] not in self.links:
            self.links[f['path']] = b'../../outside-target'
        return RS.RefSFTP.answer(self, idx, variant, **kw)


def sftp_run(listing, nested, api):
    w, dest = prep()
    before = outside_state(w)
    loop = P.fresh(0)
    viol = []
    try:
        srv = HostileSFTP(loop, listing, nested)
        start, conn = RS.start_client(loop, srv, path_encoding=None)
        for _ in range(20):
            loop.quiesce()
            if start.done():
                break
            if srv.pending:
                srv.answer(0)
        sftp = start.result()
        mon = fsmon.start(dest)
        old_cwd = os.getcwd()
        try:
            if api.startswith('nolocal'):
                # no local path given: the download goes to the local working directory (made the destination here),
                # wherever the server says the remote working directory is
                os.chdir(dest)
                srv.realpath_answer = {'nolocal-sibling': os.path.join(w, 'sibling').encode(), 'nolocal-parent': w.encode(),
                                       'nolocal-dotdot': b'..', 'nolocal-plain': None}[api.split(':')[0]]
                how = api.split(':')[1]

                async def nolocal():
                    await sftp.chdir(b'/dir')
                    await sftp.getcwd()
                    if how == 'get':
                        await sftp.get(b'a')
                    elif how == 'get-recurse':
                        await sftp.get(b'/dir', recurse=True)
                    else:
                        await sftp.mget(b'*', recurse=True)
                coro = nolocal()
            elif api == 'get':
                coro = sftp.get(b'/dir', dest.encode(), recurse=True, follow_symlinks=False)
            elif api == 'get-preserve':
                coro = sftp.get(b'/dir', dest.encode(), recurse=True, follow_symlinks=False, preserve=True)
            elif api == 'mget-preserve':
                coro = sftp.mget(b'/dir/*', dest.encode(), recurse=True, preserve=True)
            elif api == 'get-errhandler':
                # the caller collects errors instead of stopping at the first one
                coro = sftp.get(b'/dir', dest.encode(), recurse=True, error_handler=lambda exc: None)
            elif api == 'mget-errhandler':
                coro = sftp.mget(b'/dir/*', dest.encode(), recurse=True, preserve=True, error_handler=lambda exc: None)
            elif api == 'get-follow':
                coro = sftp.get(b'/dir', dest.encode(), recurse=True, follow_symlinks=True)
            elif api == 'get-follow-preserve':
                coro = sftp.get(b'/dir', dest.encode(), recurse=True, follow_symlinks=True, preserve=True)
            elif api == 'mget-follow-preserve':
                coro = sftp.mget(b'/dir/*', dest.encode(), recurse=True, follow_symlinks=True, preserve=True)
            else:
                coro = sftp.mget(b'/dir/*', dest.encode(), recurse=True)
            t = loop.create_task(coro)
            steps = 0
            while True:
                loop.quiesce()
                if t.done() or not srv.pending:
                    break
                srv.answer(0)
                steps += 1
                if steps > 3000:
                    raise Livelock('too many requests')
            if not t.done():
                viol.append(('hang', '%s never finished' % api))
            else:
                t.exception()
        finally:
            fsmon.stop()
            os.chdir(old_cwd)
        for op, p, phys, ro in mon.violations:
            if not ro:
                viol.append(('write-outside-destination', '%s(%r) resolves to %s' % (op, p, phys)))
                break
        if outside_state(w) != before:
            viol.append(('outside-modified', 'files outside the destination changed'))
        if loop.unretrieved():
            viol.append(('loop-exception', repr(loop.exc_log[0].get('exception'))[:200]))
    except Livelock as exc:
        viol.append(('livelock', str(exc)))
    finally:
        P.done(loop)
    return viol


def glob_run(sub_a, sub_b, patterns, api_kw):
    """mget with patterns whose matches come from different remote directories (or from several patterns) but
    share a base name: /dir/a/<n> and /dir/b/<n>.  Whatever the types, nothing outside the destination
    may be touched."""
    w, dest = prep()
    os.makedirs(os.path.join(os.path.dirname(dest), 'sub'), exist_ok=True)     # for the spelling sub/../<dest>
    before = outside_state(w)
    loop = P.fresh(0)
    viol = []
    try:
        srv = RS.RefSFTP(loop, extensions=[])
        srv.trailing_slash_ok = True
        # like every real server, this one lists '.' and '..'
        dots = [(b'.', 'd', None), (b'..', 'd', None)]
        srv.dirs[b'/'] = dots + [(b'dir', 'd', None), (b'rootfile', 'f', None)]
        srv.put_file(b'/rootfile', b'ROOT')
        srv.dirs[b'/dir'] = dots + [(b'a', 'd', None), (b'b', 'd', None), (b'dirfile', 'f', None)]
        srv.put_file(b'/dir/dirfile', b'DIRFILE')
        for d, (name, kind) in ((b'/dir/a', sub_a), (b'/dir/b', sub_b)):
            srv.dirs[d] = dots + [(name, kind, None)]
            path = d + b'/' + name
            if kind == 'l':
                srv.links[path] = b'../../outside-target'
            elif kind == 'd':
                srv.dirs[path] = [(b'inner', 'f', None)]
                srv.put_file(path + b'/inner', b'INNER')
            else:
                srv.put_file(path, b'PAYLOAD')
        start, conn = RS.start_client(loop, srv, path_encoding=None)
        for _ in range(20):
            loop.quiesce()
            if start.done():
                break
            if srv.pending:
                srv.answer(0)
        sftp = start.result()
        mon = fsmon.start(dest)
        old_cwd = os.getcwd()
        try:
            api_kw = dict(api_kw)
            srv.deny_stat_after_readlink = api_kw.pop('_deny', False)
            fn = sftp.get if api_kw.pop('_get', False) else sftp.mget
            form = api_kw.pop('_dest_form', None)
            dest_arg = dest.encode()
            if form:
                # the destination named in another spelling of the same directory
                os.chdir(os.path.dirname(dest))
                base_ = os.path.basename(dest)
                dest_arg = {'dot': './' + base_, 'dotdot': 'sub/../' + base_, 'slashes': os.path.dirname(dest) + '//' + base_,
                            'trailing': dest + '/'}[form].encode()
            t = loop.create_task(fn(patterns, dest_arg, recurse=True, **api_kw))
            steps = 0
            while True:
                loop.quiesce()
                if t.done() or not srv.pending:
                    break
                srv.answer(0)
                steps += 1
                if steps > 3000:
                    raise Livelock('too many requests')
            if not t.done():
                viol.append(('hang', 'mget never finished'))
            else:
                if os.environ.get('VERIF_DEBUG'):
                    print('   result:', repr(t.exception()))
                t.exception()
        finally:
            fsmon.stop()
            os.chdir(old_cwd)
        for op, p, phys, ro in mon.violations:
            if not ro:
                viol.append(('write-outside-destination', '%s(%r) resolves to %s' % (op, p, phys)))
                break
        if outside_state(w) != before:
            viol.append(('outside-modified', 'files outside the destination changed'))
        if loop.unretrieved():
            viol.append(('loop-exception', repr(loop.exc_log[0].get('exception'))[:200]))
    except Livelock as exc:
        viol.append(('livelock', str(exc)))
    finally:
        P.done(loop)
    return viol


def glob_worker(job):
    acc = core.Acc()
    try:
        for sub_a, sub_b, patterns, kwname in job:
            kw = {'plain': {}, 'preserve': dict(preserve=True), 'errhandler': dict(error_handler=lambda exc: None),
                  'follow': dict(follow_symlinks=True), 'get-list': dict(_get=True),
                  'get-list-preserve': dict(_get=True, preserve=True),
                  'get-list-dot': dict(_get=True, _dest_form='dot'), 'get-list-dotdot': dict(_get=True, _dest_form='dotdot'),
                  'get-list-slashes': dict(_get=True, _dest_form='slashes'), 'get-list-trailing': dict(_get=True, _dest_form='trailing'),
                  'mget-dot': dict(_dest_form='dot'),
                  # the server refuses to describe (LSTAT) a link whose target it has just handed out, the caller
                  # collects errors and goes on: the link exists all the same and later sources meet it
                  'get-list-preserve-errh-deny': dict(_get=True, preserve=True, error_handler=lambda exc: None, _deny=True),
                  'mget-preserve-errh-deny': dict(preserve=True, error_handler=lambda exc: None, _deny=True)}[kwname]
            viol = glob_run(sub_a, sub_b, patterns, kw)
            acc.add(core.digest(('glob', sub_a, sub_b, tuple(patterns), kwname)), transitions=4,
                    sample={'remote': {'/dir/a': [sub_a[0].decode('latin1'), sub_a[1]], '/dir/b': [sub_b[0].decode('latin1'), sub_b[1]]},
                            'patterns': [p.decode() for p in patterns]} if sub_a[1] == 'l' and sub_b[1] == 'f' and len(patterns) == 1 and kwname == 'plain' else None)
            for k, d in viol:
                acc.violation('download:%s:sftp-mget-glob' % k, '%s ; /dir/a/%r(%s) /dir/b/%r(%s) patterns=%r options=%s'
                              % (d, sub_a[0], sub_a[1], sub_b[0], sub_b[1], patterns, kwname),
                              {'kind': 'dl-glob', 'a': [sub_a[0].decode('latin1'), sub_a[1]], 'b': [sub_b[0].decode('latin1'), sub_b[1]],
                               'patterns': [p.decode('latin1') for p in patterns], 'kw': kwname})
    finally:
        shutil.rmtree(wdir(), ignore_errors=True)
    return acc


def glob_jobs():
    cases = []
    kinds = ('f', 'd', 'l')
    for ka in kinds:
        for kb in kinds:
            for name_b in (b'n', b'm'):
                for patterns in ([b'/dir/*/n'], [b'/dir/*/*'], [b'/dir/a/n', b'/dir/b/' + name_b], [b'/dir/a/*', b'/dir/b/*'],
                                 [b'/dir/a/n', b'/dir/a/n'], [b'/dir/a/*', b'/dir/a/n'], [b'/dir/**/n']):
                    for kwname in ('plain', 'preserve', 'errhandler', 'follow', 'mget-preserve-errh-deny'):
                        cases.append(((b'n', ka), (name_b, kb), patterns, kwname))
            # a source named with a trailing slash (or '/.') is copied INTO the destination: its entries meet what
            # an earlier source left there
            # hidden-file patterns next to ordinary ones over the same directories (the listing has '.' and '..')
            for patterns in ([b'/dir/a/*', b'/dir/a/.*'], [b'/dir/*', b'/dir/.*'], [b'/dir/a/.*', b'/dir/a/.*'], [b'/dir/a/.*'], [b'/dir/*/.*', b'/dir/a/*', b'/dir/a/.*'],
                             [b'/dir/a/n', b'/dir/a/?*', b'/dir/a/.?']):
                for kwname in ('plain', 'errhandler'):
                    cases.append(((b'n', ka), (b'n', kb), patterns, kwname))
            for patterns in ([b'/dir/a/n', b'/dir/b/'], [b'/dir/a/n', b'/dir/b/.'], [b'/dir/a/*', b'/dir/b/'], [b'/dir/b/', b'/dir/a/n'],
                             [b'/dir/a/', b'/dir/b/'], [b'/dir/a/.', b'/dir/b/.']):
                for kwname in ('plain', 'preserve', 'get-list', 'get-list-preserve', 'get-list-dot', 'get-list-dotdot', 'get-list-slashes',
                               'get-list-trailing', 'mget-dot', 'get-list-preserve-errh-deny', 'mget-preserve-errh-deny'):
                    cases.append(((b'n', ka), (b'n', kb), patterns, kwname))
    return [cases[i::32] for i in range(32)]


def sftp_worker(job):
    acc = core.Acc()
    try:
        for listing, nested, api in job:
            viol = sftp_run(listing, nested, api)
            acc.add(core.digest(('sftp', listing, nested, api)), transitions=len(listing) + 1,
                    sample={'listing': [[n.decode('latin1'), k] for n, k in listing], 'api': api}
                    if len(listing) == 2 and listing[0][1] == 'd' else None)
            for k, d in viol:
                acc.violation('download:%s:sftp-%s' % (k, api), '%s ; listing=%r nested=%r' % (d, listing, nested),
                              {'kind': 'dl-sftp', 'listing': [[n.decode('latin1'), kk] for n, kk in listing],
                               'nested': [n.decode('latin1') for n in nested], 'api': api})
    finally:
        shutil.rmtree(wdir(), ignore_errors=True)
    return acc


def run(tier, seed):
    os.makedirs(BASE, exist_ok=True)
    syms = scp_symbols(tier)
    seqs = [()] + [(a,) for a in syms] + [(a, b) for a in syms for b in syms]
    dsyms = [x for x in syms if x[0] == 'D']
    for d in dsyms:
        for b in syms:
            for c in syms:
                if tier == 'thorough' or b[0] in ('C', 'D', 'E'):
                    seqs.append((d, b, c))
    short = [q for q in seqs if len(q) <= 2]
    seqs += [(('errhandler',),) + q for q in short] + [(('preserve',),) + q for q in short] + [(('preserve',), ('T',)) + q for q in short if q and q[0][0] in 'CD']
    acc = core.pmap(scp_worker, core.rotate([seqs[i::64] for i in range(64)], seed))
    ents = [(n, k) for n in NAMES for k in ('f', 'd', 'l')]
    jobs = []
    for where in ('nolocal-sibling', 'nolocal-parent', 'nolocal-dotdot', 'nolocal-plain'):
        for how in ('get', 'get-recurse', 'mget'):
            for kind in ('f', 'd', 'l'):
                jobs.append((((b'a', kind),), (b'inner',), where + ':' + how))
    for api in ('get-follow', 'get-follow-preserve', 'mget-follow-preserve', 'get-preserve'):
        for n in (b'a', b'..', b'a/b'):
            jobs.append((((n, 'L'),), (b'inner',), api))
            jobs.append((((b'sub', 'd'),), (n,), api))
    for api in ('get', 'mget', 'get-follow', 'get-preserve', 'mget-preserve', 'get-errhandler', 'mget-errhandler', 'get-follow-preserve'):
        for e in ents:
            for nested in ((b'inner',), (b'../z',), (b'/abs/z',)):
                if e[1] != 'd' and nested != (b'inner',):
                    continue
                jobs.append(((e,), nested, api))
        pairs = [(a, b) for a in ents for b in ents if a[0] <= b[0]]
        if tier == 'quick':
            pairs = [p for p in pairs if p[0][1] == 'd' or p[1][1] == 'd' or p[0][0] == p[1][0]][::2]
        for a, b in pairs:
            jobs.append(((a, b), (b'inner',), api))
    acc.merge(core.pmap(sftp_worker, core.rotate([jobs[i::64] for i in range(64)], seed)))
    acc.merge(core.pmap(glob_worker, glob_jobs()))
    return acc


def replay(r):
    os.makedirs(BASE, exist_ok=True)
    if r['kind'] == 'dl-scp':
        recs = tuple(tuple([x[0]] + [y.encode('latin1') for y in x[1:]]) for x in r['records'])
        return scp_worker([recs])
    if r['kind'] == 'dl-glob':
        return glob_worker([[((r['a'][0].encode('latin1'), r['a'][1]), (r['b'][0].encode('latin1'), r['b'][1]),
                              [p.encode('latin1') for p in r['patterns']], r['kw'])]])
    listing = tuple((n.encode('latin1'), k) for n, k in r['listing'])
    nested = tuple(n.encode('latin1') for n in r['nested'])
    return sftp_worker([(listing, nested, r['api'])])
