"""C10 (c): parsers fed with untrusted data return a value or raise their documented error.

Seed corpus of valid encodings x {every truncation, every single-byte replacement by
0x00/0x7f/0x80/0xff/b+1}.  Documented errors per entry point:
  asn1.der_decode                         -> ASN1DecodeError
  import_private_key / import_public_key / import_certificate,
  decode_ssh_public_key / decode_ssh_certificate
                                          -> KeyImportError | KeyEncryptionError
  SSHPacket field getters                 -> PacketDecodeError
  validate_sshsig                         -> bool (never raises on a malformed signature)
  SSHAgentClient.get_keys/sign            -> ValueError (documented) on bad replies
  SOCKS forwarder                         -> closes the client socket; nothing escapes
"""

import asyncio
import itertools
import os
import shutil
import time

import asyncssh
from asyncssh import asn1
from asyncssh.packet import PacketDecodeError, SSHPacket
from asyncssh.public_key import (KeyImportError, decode_ssh_certificate,
                                 decode_ssh_public_key)

import core
import pair as P
from vloop import Livelock

KeyEncryptionError = asyncssh.KeyEncryptionError
CALL_BUDGET_S = 5.0


def byte_mutations(data, step=1):
    n = len(data)
    for k in range(0, n):
        yield 'trunc@%d' % k, data[:k]
    for off in range(0, n, step):
        b = data[off]
        for r in (0x00, 0x7f, 0x80, 0xff, (b + 1) & 0xff):
            if r != b:
                yield 'b@%d=%02x' % (off, r), data[:off] + bytes([r]) + data[off + 1:]


def u32_mutations(data):
    for off in range(0, len(data) - 3):
        for x in (0, 1, 0x7fffffff, 0xffffffff):
            v = x.to_bytes(4, 'big')
            if data[off:off + 4] != v:
                yield 'u32@%d=%x' % (off, x), data[:off] + v + data[off + 4:]


_keys = {}


def keyset():
    if not _keys:
        for alg, kw in (('ssh-ed25519', {}), ('ecdsa-sha2-nistp256', {}), ('ecdsa-sha2-nistp384', {}),
                        ('ecdsa-sha2-nistp521', {}), ('ssh-rsa', {'key_size': 2048}), ('ssh-ed448', {}),
                        ('ssh-dss', {})):
            try:
                _keys[alg] = P.key('c10-' + alg, alg, **kw)
            except Exception:           # pylint: disable=broad-except
                pass
    return _keys


def corpus(tier):
    """list of (entry, label, callable(data), allowed exception types, seed bytes, use_u32)"""
    items = []
    KI = (KeyImportError, KeyEncryptionError)
    # DER values
    ders = {
        'int': asn1.der_encode(123456789), 'negint': asn1.der_encode(-5), 'bool': asn1.der_encode(True),
        'null': asn1.der_encode(None), 'bytes': asn1.der_encode(b'abcdef'), 'str': asn1.der_encode('héllo'),
        'oid': asn1.der_encode(asn1.ObjectIdentifier('1.2.840.113549.1.1.1')),
        'bits': asn1.der_encode(asn1.BitString(b'\x12\x30', 3)),
        'ia5': asn1.der_encode(asn1.IA5String(b'text')),
        'seq': asn1.der_encode((1, b'x', (2, None), asn1.ObjectIdentifier('2.5.4.3'))),
        'set': asn1.der_encode(frozenset([1, 2, 3])),
        'tagged': asn1.der_encode(asn1.TaggedDERObject(0, (1, 2))),
        'raw': asn1.der_encode(asn1.RawDERObject(5, b'zz', asn1.CONTEXT_SPECIFIC)),
        'long': asn1.der_encode(b'q' * 300),
    }
    for name, d in ders.items():
        items.append(('der_decode', name, asn1.der_decode, (asn1.ASN1DecodeError,), d, False))
    ks = keyset()
    for alg, k in ks.items():
        short = alg.replace('ecdsa-sha2-', '').replace('ssh-', '')
        for fmt in ('openssh', 'pkcs1-der', 'pkcs1-pem', 'pkcs8-der', 'pkcs8-pem'):
            try:
                d = k.export_private_key(fmt)
            except Exception:       # pylint: disable=broad-except
                continue
            if tier == 'quick' and alg in ('ssh-rsa', 'ssh-dss') and fmt.endswith('pem'):
                continue
            items.append(('import_private_key', '%s/%s' % (short, fmt), asyncssh.import_private_key, KI, d, False))
        if alg in ('ssh-ed25519', 'ecdsa-sha2-nistp256') or tier == 'thorough':
            for fmt, kw in (('pkcs8-pem', dict(passphrase='pw', cipher_name='aes128-cbc', hash_name='sha256')),
                            ('pkcs8-der', dict(passphrase='pw', cipher_name='des3-cbc', hash_name='sha1', pbe_version=1)),
                            ('pkcs1-pem', dict(passphrase='pw', cipher_name='aes256-cbc'))):
                try:
                    d = k.export_private_key(fmt, **kw)
                except Exception:       # pylint: disable=broad-except
                    continue
                items.append(('import_private_key(pw)', '%s/%s-enc' % (short, fmt),
                              lambda x: asyncssh.import_private_key(x, 'pw'), KI, d, False))
        for fmt in ('openssh', 'rfc4716', 'pkcs1-der', 'pkcs1-pem', 'pkcs8-der', 'pkcs8-pem'):
            try:
                d = k.export_public_key(fmt)
            except Exception:       # pylint: disable=broad-except
                continue
            items.append(('import_public_key', '%s/%s' % (short, fmt), asyncssh.import_public_key, KI, d, False))
        items.append(('decode_ssh_public_key', short, decode_ssh_public_key, (KeyImportError,), k.public_data, True))
    ca = ks['ssh-ed25519']
    for alg in ('ssh-ed25519', 'ecdsa-sha2-nistp256', 'ssh-rsa'):
        k = ks[alg]
        uc = ca.generate_user_certificate(k, 'id', principals=['a', 'b'], force_command='x',
                                          source_address=['10.0.0.0/8'], permit_pty=False)
        hc = ca.generate_host_certificate(k, 'hid', principals=['h'])
        items.append(('decode_ssh_certificate', 'user/' + alg, decode_ssh_certificate, (KeyImportError,), uc.public_data, True))
        items.append(('decode_ssh_certificate', 'host/' + alg, decode_ssh_certificate, (KeyImportError,), hc.public_data, True))
        if alg == 'ssh-ed25519':
            items.append(('import_certificate', 'user-openssh', asyncssh.import_certificate, KI,
                          uc.export_certificate('openssh'), False))
            items.append(('import_certificate', 'user-rfc4716', asyncssh.import_certificate, KI,
                          uc.export_certificate('rfc4716'), False))
    # SSH packet getters
    from asyncssh.packet import Boolean, Byte, MPInt, NameList, String, UInt32, UInt64
    pkt = Byte(5) + Boolean(True) + UInt32(7) + UInt64(9) + String(b'abc') + MPInt(-12345678901234) + \
        NameList([b'a', b'bc']) + String('hé'.encode())

    def parse_packet(data):
        p = SSHPacket(data)
        p.get_byte()
        p.get_boolean()
        p.get_uint32()
        p.get_uint64()
        p.get_string()
        p.get_mpint()
        p.get_namelist()
        p.get_string()
        p.check_end()
    items.append(('SSHPacket', 'all-getters', parse_packet, (PacketDecodeError,), pkt, True))
    # SSHSIG
    sigkey = ks['ssh-ed25519']
    sig = asyncssh.create_sshsig(sigkey, b'message', namespace='ns')
    signers = ('alice namespaces="ns" ' + sigkey.export_public_key('openssh').decode()).encode()

    def check_sig(s):
        r = asyncssh.validate_sshsig(b'message', s, 'alice', signers)
        if r and s != sig:
            # altered armour that still decodes to the same signature is fine; anything else is C16's business
            pass
        return r
    items.append(('validate_sshsig', 'ed25519', check_sig, (), sig, False))
    return items


def run_item(item_idx_tier):
    idx, tier = item_idx_tier
    entry, label, fn, allowed, seed, use_u32 = corpus(tier)[idx]
    acc = core.Acc()
    try:
        fn(seed)
    except Exception as exc:        # pylint: disable=broad-except
        acc.violation('parser:seed-rejected:%s:%s' % (entry, label), repr(exc),
                      {'kind': 'parser', 'entry': entry, 'label': label, 'mut': 'seed'})
        return acc
    step = 1
    if tier == 'quick' and len(seed) > 700:
        step = 3
    muts = byte_mutations(seed, step)
    if use_u32:
        muts = itertools.chain(muts, u32_mutations(seed))
    outcomes = {}
    for mlabel, data in muts:
        t0 = time.perf_counter()
        try:
            fn(data)
            out = 'ok'
        except allowed as exc:
            out = type(exc).__name__
        except Exception as exc:        # pylint: disable=broad-except
            out = 'UNDOCUMENTED:' + type(exc).__name__
            acc.violation('parser:undocumented-error:%s:%s:%s' % (entry, label.split('/')[0], type(exc).__name__),
                          '%s(%s) raised %r for mutation %s' % (entry, label, exc, mlabel),
                          {'kind': 'parser', 'entry': entry, 'label': label, 'mut': mlabel,
                           'data': data.hex()})
        dt = time.perf_counter() - t0
        if dt > CALL_BUDGET_S:
            acc.violation('parser:slow:%s:%s' % (entry, label), '%s took %.1fs' % (mlabel, dt),
                          {'kind': 'parser', 'entry': entry, 'label': label, 'mut': mlabel,
                           'data': data.hex()})
        outcomes[out] = outcomes.get(out, 0) + 1
        acc.evaluations += 1
        acc.transitions += 1
    acc.digests.add(core.digest((entry, label, sorted(outcomes.items()))))
    for o in outcomes:
        acc.digests.add(core.digest((entry, label, o)))
    if len(acc.samples) < 2:
        acc.samples.append({'parser': entry, 'seed': label, 'outcomes': outcomes})
    return acc


# ------------------------------------------------------------------ SOCKS + agent (event-loop level)
def socks_worker(blobs):
    from asyncssh.socks import SSHSOCKSForwarder
    acc = core.Acc()
    for blob, split in blobs:
        loop = P.fresh(0)
        loop.write_budget = 300
        try:
            opened = []

            class FakeConn:
                def __init__(self):
                    self._loop = loop
                    self.logger = asyncssh.logging.logger

                def create_task(self, coro, *a):
                    return loop.create_task(coro)

                def __getattr__(self, name):
                    # bookkeeping calls into the connection (registering the forwarder and the like): no-ops here
                    if name.startswith('__'):
                        raise AttributeError(name)
                    return lambda *a, **kw: None

            async def coro(session_factory, host, port, orig_host, orig_port):
                opened.append((host, port))
                raise asyncssh.ChannelOpenError(2, 'refused')
            fwd = SSHSOCKSForwarder(FakeConn(), coro)
            sink = asyncio.Protocol()
            t, _ = loop.make_pair(fwd, sink, labels=('socks', 'app'))
            fwd.connection_made(t)
            viol = []
            try:
                step = len(blob) if not split else int(split)       # True (older replay files) means 1
                chunks = [blob[i:i + step] for i in range(0, len(blob), max(step, 1))]
                for c in chunks:
                    if t.closing or t.lost:
                        break
                    loop.inject(t, c)
                    loop.quiesce(500)
            except Livelock as exc:
                viol.append(('livelock', str(exc)))
            exc = loop.unretrieved()
            if exc:
                viol.append(('loop-exception', repr(exc[0].get('exception') or exc[0].get('message'))[:200]))
            if loop.budget_tripped:
                viol.append(('work-budget', loop.budget_tripped))
            # what a client may make the forwarder hold is bounded: no field of a request is longer than 255 bytes
            held = len(getattr(fwd, '_inpbuf', b''))
            if not (t.closing or t.lost) and not opened and held > 255 + max([len(c) for c in chunks] or [0]) + 8:
                viol.append(('unbounded-buffer', '%d bytes of an unfinished request held, connection still open' % held))
            acc.add(core.digest((blob, split, t.closing, tuple(opened))), transitions=len(blob),
                    sample={'socks_bytes': blob.hex(), 'relay_to': opened} if opened and len(acc.samples) < 1 else None)
            for k, d in viol:
                acc.violation('socks:%s:%s' % (k, blob[:6].hex()), d, {'kind': 'socks', 'blob': blob.hex(), 'split': split})
        finally:
            P.done(loop)
    return acc


def socks_blobs(tier):
    alpha = [0, 1, 2, 4, 5, 0xff]
    out = []
    for n in range(1, 5 if tier == 'quick' else 6):
        for t in itertools.product(alpha, repeat=n):
            out.append((bytes(t), False))
    valid = [bytes([4, 1, 0, 80, 10, 0, 0, 1]) + b'user\0', bytes([4, 1, 0, 80, 0, 0, 0, 1]) + b'u\0host.example\0',
             bytes([5, 1, 0]) + bytes([5, 1, 0, 1, 10, 0, 0, 1, 0, 80]),
             bytes([5, 2, 0, 2]) + bytes([5, 1, 0, 3, 4]) + b'host' + bytes([0, 80]),
             bytes([5, 1, 0]) + bytes([5, 1, 0, 4]) + bytes(16) + bytes([0, 80]),
             bytes([4, 1, 0, 80, 10, 0, 0, 1]) + b'u' * 300, bytes([5, 0]), bytes([5, 255]) + bytes(255)]
    # fields that never end, arriving in pieces none of which is long by itself
    for head in (bytes([4, 1, 0, 80, 10, 0, 0, 1]), bytes([4, 1, 0, 80, 0, 0, 0, 1]) + b'\0', bytes([4, 1, 0, 80, 0, 0, 0, 1]) + b'u\0'):
        for n in (256, 300, 1200):
            for step in (1, 7, 100, 255, 256):
                out.append((head + b'h' * n, step))
    for v in valid:
        out.append((v, False))
        out.append((v, True))
        for k in range(len(v)):
            out.append((v[:k], False))
        for off in range(len(v)):
            for r in (0, 1, 3, 4, 5, 0xff):
                if v[off] != r:
                    out.append((v[:off] + bytes([r]) + v[off + 1:], False))
    return out


# ------------------------------------------------------------------ a hostile ssh-agent (a forwarded agent is the peer's)
def agent_calls():
    k = keyset()['ssh-ed25519']
    blob = k.public_data

    def S(b):
        return len(b).to_bytes(4, 'big') + b
    ident = bytes([12]) + (2).to_bytes(4, 'big') + S(blob) + S(b'comment one') + S(blob) + S(b'')
    return [
        ('get_keys', lambda a: a.get_keys(), ident),
        ('sign', lambda a: a.sign(blob, b'data'), bytes([14]) + S(S(b'ssh-ed25519') + S(bytes(64)))),
        ('query_extensions', lambda a: a.query_extensions(), bytes([6]) + S(b'query') + S(b'session-bind@openssh.com')),
        ('remove_all', lambda a: a.remove_all(), bytes([6])),
        ('lock', lambda a: a.lock('pw'), bytes([6])),
        ('add_keys', lambda a: a.add_keys([k]), bytes([6])),
    ]


def agent_replies(good):
    """(label, raw bytes the agent sends, then closes?)"""
    def frame(p):
        return len(p).to_bytes(4, 'big') + p
    out = [('good', frame(good), False)]
    for i in range(len(good)):
        out.append(('trunc@%d' % i, frame(good[:i]), False))
    for i in range(len(good)):
        for r in (0, 1, 0x7f, 0xff):
            if good[i] != r:
                out.append(('byte%d=%02x' % (i, r), frame(good[:i] + bytes([r]) + good[i + 1:]), False))
    out.append(('trailing', frame(good + b'\0'), False))
    for t in list(range(0, 31)) + [255]:
        out.append(('type%d' % t, frame(bytes([t]) + good[1:]), False))
    for ln in (0, 1, len(good) - 1, len(good) + 1, 2 ** 31 - 1, 2 ** 32 - 1):
        out.append(('len=%d+eof' % ln, ln.to_bytes(4, 'big') + good, True))
    out.append(('eof-at-once', b'', True))
    out.append(('eof-in-length', b'\0\0', True))
    return out


def agent_worker(job):
    from asyncssh.agent import SSHAgentClient
    acc = core.Acc()
    for ci in job:
        name, call, good = agent_calls()[ci]
        for label, raw, then_eof in agent_replies(good):
            loop = P.fresh(0)
            loop.write_budget = 300
            viol = []
            out = 'pending'
            try:
                class FakeAgent(asyncio.Protocol):
                    def connection_made(self, transport):
                        self.t = transport

                    def data_received(self, data):
                        self.t.write(raw)
                        if then_eof:
                            self.t.close()
                st = loop.create_task(loop.create_unix_server(FakeAgent, '/vagent'))
                loop.flush_all()
                st.result()
                agent = SSHAgentClient('/vagent')

                async def go():
                    try:
                        return ('ok', await call(agent))
                    finally:
                        agent.close()
                t = loop.create_task(go())
                try:
                    loop.flush_all()
                except Livelock as exc:
                    viol.append(('livelock', str(exc)))
                if not t.done():
                    if then_eof or not ('len=' in label):
                        # a complete (if wrong) reply was sent: the call has everything it is going to get
                        if not (label.startswith('trunc') or label.startswith('byte')) or True:
                            viol.append(('agent-call-hangs', '%s never returned' % name))
                    out = 'pending'
                    t.cancel()
                    try:
                        loop.flush_all()
                    except Livelock:
                        pass
                elif t.exception() is not None:
                    exc = t.exception()
                    out = type(exc).__name__
                    if not isinstance(exc, ValueError):
                        viol.append(('undocumented-error', '%s raised %r' % (name, exc)))
                else:
                    out = 'returned'
                lexc = loop.unretrieved()
                if lexc:
                    viol.append(('loop-exception', repr(lexc[0].get('exception') or lexc[0].get('message'))[:200]))
                if loop.budget_tripped:
                    viol.append(('work-budget', loop.budget_tripped))
            finally:
                P.done(loop)
            acc.add(core.digest(('agent', name, label, out)), transitions=1,
                    sample={'agent_call': name, 'reply': label, 'outcome': out} if label == 'trunc@5' else None)
            acc.count('agent-outcome:%s' % out)
            for k, d in viol:
                acc.violation('agent:%s:%s:%s' % (k, name, label.split('@')[0].split('=')[0].rstrip('0123456789')), '%s ; reply %s' % (d, label),
                              {'kind': 'agent', 'call': ci, 'label': label})
    return acc


# ------------------------------------------------------------------ a hostile SFTP server: reply bodies
def sftp_calls():
    return [('stat', lambda c: c.stat('/f')), ('listdir', lambda c: c.listdir('/d')), ('realpath', lambda c: c.realpath('/d/..')),
            ('readlink', lambda c: c.readlink('/l')), ('read', None), ('statvfs', lambda c: c.statvfs('/')),
            ('open', lambda c: c.open('/f', 'rb')), ('getsize', lambda c: c.getsize('/f')), ('exists', lambda c: c.exists('/f'))]


def sftp_hostile_worker(job):
    """every truncation and single-byte replacement (and wrong length prefixes) of the reply to one SFTP client
    call: the call returns or raises SFTPError; afterwards the session still works or has ended cleanly"""
    import refsftp as RS
    acc = core.Acc()
    for ci in job:
        name, call = sftp_calls()[ci]
        # learn the good reply
        good = {}

        def run(mutate, misframed=False):
            # misframed: the length prefix lies, so the byte stream loses its packet boundaries; the
            # server then never completes another packet and a later request legitimately waits
            loop = P.fresh(0)
            loop.write_budget = 600
            res = {'out': 'pending', 'viol': [], 'misframed': misframed}
            try:
                srv = RS.RefSFTP(loop, extensions=[(b'statvfs@openssh.com', b'2')])
                srv.put_file(b'/f', b'0123456789')
                srv.dirs[b'/d'] = [(b'x', 'f', None), (b'y', 'd', None)]
                srv.links[b'/l'] = b'/f'
                start, conn = RS.start_client(loop, srv)
                for _ in range(20):
                    loop.quiesce()
                    if start.done():
                        break
                    if srv.pending:
                        srv.answer(0)
                sftp = start.result()

                async def go():
                    if name == 'read':
                        f = await sftp.open('/f', 'rb')
                        res['armed'] = True
                        return await f.read(4, 2)
                    res['armed'] = True
                    return await call(sftp)
                t = loop.create_task(go())
                steps = 0
                target = {'open': 'OPEN', 'read': 'READ', 'listdir': 'READDIR', 'statvfs': 'EXTENDED', 'realpath': 'REALPATH', 'readlink': 'READLINK'}.get(name, 'STAT')
                hit = False
                while True:
                    loop.quiesce()
                    if t.done() or not srv.pending:
                        break
                    req = srv.pending[0]
                    if not hit and res.get('armed') and RS.FXP.get(target) == req.type and not (name == 'read' and req.type != RS.FXP['READ']):
                        hit = True
                        srv.mutate = mutate
                        srv.answer(0)
                        srv.mutate = None
                    else:
                        srv.answer(0)
                    steps += 1
                    if steps > 200:
                        raise Livelock('too many requests')
                if not t.done():
                    res['out'] = 'pending'
                elif t.exception() is not None:
                    exc = t.exception()
                    res['out'] = type(exc).__name__
                    if not isinstance(exc, (asyncssh.SFTPError, asyncssh.Error)):
                        res['viol'].append(('undocumented-error', '%s raised %r' % (name, exc)))
                else:
                    res['out'] = 'returned'
                # the session afterwards: a following request is served, or the client reports the session ended
                if not t.done():
                    t.cancel()
                t2 = loop.create_task(sftp.lstat('/f'))
                for _ in range(50):
                    loop.quiesce()
                    if t2.done() or not srv.pending:
                        break
                    srv.answer(0)
                if not t2.done():
                    if res['out'] != 'pending' and not res.get('misframed'):
                        res['viol'].append(('session-stuck', 'a request after the malformed reply never completes'))
                    t2.cancel()
                elif t2.exception() is not None and not isinstance(t2.exception(), (asyncssh.SFTPError, asyncssh.Error)):
                    res['viol'].append(('undocumented-error', 'following request raised %r' % (t2.exception(),)))
                try:
                    loop.quiesce()
                except Livelock:
                    pass
                lexc = loop.unretrieved()
                if lexc:
                    res['viol'].append(('loop-exception', repr(lexc[0].get('exception') or lexc[0].get('message'))[:200]))
                if loop.budget_tripped:
                    res['viol'].append(('work-budget', loop.budget_tripped))
            except Livelock as exc:
                res['viol'].append(('livelock', str(exc)))
            finally:
                P.done(loop)
            return res

        def grab(p):
            good['p'] = p
            return None
        base = run(grab)
        if 'p' not in good or base['out'] != 'returned':
            acc.violation('sftpclient:harness:%s' % name, 'baseline call did not work: %r' % (base,), {'kind': 'sftp-hostile', 'call': ci, 'label': 'base'})
            continue
        g = good['p']

        def frame(p):
            return len(p).to_bytes(4, 'big') + p
        muts = [('trunc@%d' % i, frame(g[:i])) for i in range(len(g))]
        muts += [('byte%d=%02x' % (i, r), frame(g[:i] + bytes([r]) + g[i + 1:])) for i in range(len(g)) for r in (0, 1, 0x7f, 0xff) if g[i] != r and not 1 <= i <= 4]
        muts += [('trailing', frame(g + b'\0')), ('len-short', (len(g) - 1).to_bytes(4, 'big') + g), ('len-zero', b'\0\0\0\0' + g),
                 ('len-huge', b'\xff\xff\xff\xff' + g), ('len-long', (len(g) + 3).to_bytes(4, 'big') + g)]
        # well-framed replies of every type with the smallest and with unexpected contents (a NAME reply naming
        # nothing or two things, an empty DATA, STATUS OK/EOF where data was asked for, ...)
        rid = g[1:5]
        u32b = lambda n: n.to_bytes(4, 'big')
        sb = lambda b: u32b(len(b)) + b
        nm = sb(b'n') + sb(b'n') + u32b(0)
        muts += [('alt-name-0', frame(bytes([104]) + rid + u32b(0))), ('alt-name-2', frame(bytes([104]) + rid + u32b(2) + nm + nm)),
                 ('alt-name-1', frame(bytes([104]) + rid + u32b(1) + nm)),
                 ('alt-status-ok', frame(bytes([101]) + rid + u32b(0) + sb(b'') + sb(b''))), ('alt-status-eof', frame(bytes([101]) + rid + u32b(1) + sb(b'') + sb(b''))),
                 ('alt-status-bare', frame(bytes([101]) + rid + u32b(4))), ('alt-handle-empty', frame(bytes([102]) + rid + sb(b''))),
                 ('alt-data-empty', frame(bytes([103]) + rid + sb(b''))), ('alt-attrs-empty', frame(bytes([105]) + rid + u32b(0))),
                 ('alt-extended-reply-empty', frame(bytes([201]) + rid))]
        for label, raw in muts:
            res = run(lambda p, raw=raw: raw, misframed=label.startswith('len-'))
            acc.add(core.digest(('sftp-hostile', name, label, res['out'])), transitions=2,
                    sample={'sftp_client_call': name, 'reply': label, 'outcome': res['out']} if label == 'trunc@9' else None)
            acc.count('sftpclient-outcome:%s' % res['out'])
            for k, d in res['viol']:
                acc.violation('sftpclient:%s:%s:%s' % (k, name, label.split('@')[0].split('=')[0].rstrip('0123456789')), '%s ; reply %s' % (d, label),
                              {'kind': 'sftp-hostile', 'call': ci, 'label': label})
    return acc


def copydata_worker(_job):
    """SFTP copy-data requests on one file a little longer than a copy block: both handles the same (and two handles of the same file), every
    combination of read offset / length (0 = to end of file) / write offset from a small grid incl. 2^63: the
    request is answered within the work budget and the file does not grow beyond write offset + what there was to
    copy (a copy that feeds on its own output must stop).  The file size limit of the worker process is lowered
    to 1 MiB while this runs, so that a runaway copy hits a wall instead of the disk."""
    import resource
    import signal
    import struct
    import c14
    acc = core.Acc()
    root = os.path.join(c14.SCRATCH, 'copydata-%d' % os.getpid())
    soft, hard = resource.getrlimit(resource.RLIMIT_FSIZE)
    old_handler = signal.signal(signal.SIGXFSZ, signal.SIG_IGN)
    resource.setrlimit(resource.RLIMIT_FSIZE, (1 << 20, hard))
    u64 = lambda n: struct.pack('>Q', n)
    sb = lambda b: struct.pack('>I', len(b)) + b
    from asyncssh.sftp import _COPY_DATA_BLOCK_SIZE as BLK
    FSZ = BLK + 10                  # a file of more than one copy block
    try:
        for v in (3, 6):
            for ro in (0, 2, BLK, FSZ, FSZ + 1, 2 ** 63):
                for ln in (0, 2, BLK, FSZ, 2 ** 64 - 1):
                    for wo in (0, 1, 5, BLK, FSZ, FSZ + 2, 2 ** 40):
                        c14._mkroot(root)
                        with open(os.path.join(root, 'f'), 'wb') as f_:
                            f_.write(b'q' * FSZ)
                        body = sb(b'copy-data') + sb(b'@FILE@') + u64(ro) + u64(ln) + sb(b'@FILE@') + u64(wo)
                        viol = []
                        try:
                            replies, _h, ended, lexc = c14.server_session(v, root, asyncssh.SFTPServer, [(200, 77, body), (17, 99, sb(b'f2') + (b'\0\0\0\0' if v >= 4 else b''))])
                        except Livelock as exc:
                            replies, lexc = [], []
                            viol.append(('livelock', str(exc)))
                        size = os.path.getsize(os.path.join(root, 'f'))
                        avail = max(0, FSZ - ro)
                        want_max = max(FSZ, wo + (avail if ln == 0 else min(ln, avail)))
                        if wo < 2 ** 30 and size > want_max:
                            viol.append(('copy-feeds-on-itself', 'file of %d bytes is %d bytes after copy-data(read %d, length %d, write %d)' % (FSZ, size, ro, ln, wo)))
                        r77 = [p_ for p_ in replies if len(p_) >= 5 and struct.unpack('>I', p_[1:5])[0] == 77]
                        r99 = [p_ for p_ in replies if len(p_) >= 5 and struct.unpack('>I', p_[1:5])[0] == 99]
                        if not viol and (len(r77) != 1 or len(r99) != 1):
                            viol.append(('reply-count', 'copy-data got %d replies, the following stat %d' % (len(r77), len(r99))))
                        if lexc:
                            viol.append(('loop-exception', repr(lexc[0].get('exception') or lexc[0].get('message'))[:200]))
                        acc.add(core.digest(('copydata', v, ro, ln, wo, size)), transitions=2,
                                sample={'copy_data': {'read_offset': ro, 'length': ln, 'write_offset': wo, 'size_after': size}} if (v, ro, ln, wo) == (3, 0, 0, 5) else None)
                        for k, d in viol:
                            acc.violation('sftpserver:%s:copy-data' % k, '%s ; v%d' % (d, v), {'kind': 'copydata'})
    finally:
        resource.setrlimit(resource.RLIMIT_FSIZE, (soft, hard))
        signal.signal(signal.SIGXFSZ, old_handler)
        shutil.rmtree(root, ignore_errors=True)
    return acc


def readdir_bound_worker(_job):
    """one READDIR request (17 bytes) against directories of 130, 300 and 1200 entries, protocol versions 3-6,
    applications that supply long names or leave them to the library: the largest reply must not grow with the
    directory (the listing comes in bounded pieces, each asked for by its own request), and the pieces together
    are the directory, each entry once"""
    import struct
    import c14
    from asyncssh.sftp import SFTPName, SFTPAttrs, SFTPServer
    acc = core.Acc()
    root = os.path.join(c14.SCRATCH, 'rdbound-%d' % os.getpid())
    sb = lambda b: struct.pack('>I', len(b)) + b
    try:
        for v in (3, 4, 5, 6):
            for supplied in (False, True):
                biggest = {}
                for n in (130, 300, 1200):
                    class App(SFTPServer):
                        async def scandir(self, path, n=n):
                            for i in range(n):
                                fn = b'entry-%05d' % i
                                yield SFTPName(fn, (b'long ' + fn) if supplied else b'', SFTPAttrs(size=i, permissions=0o100644))
                    c14._mkroot(root)
                    script = [(12, 10 + i, sb(b'@DIR@')) for i in range(14)]
                    viol = []
                    try:
                        replies, _h, ended, lexc = c14.server_session(v, root, App, script)
                    except Livelock as exc:
                        replies, lexc = [], []
                        viol.append(('livelock', str(exc)))
                    names, sizes = [], []
                    for p_ in replies:
                        if p_[0] == 104:
                            pk = SSHPacket(p_[5:])
                            cnt = pk.get_uint32()
                            sizes.append(cnt)
                            for _ in range(cnt):
                                names.append(SFTPName.decode(pk, v).filename)
                    biggest[n] = max(sizes) if sizes else 0
                    if not viol and names != [b'entry-%05d' % i for i in range(n)]:
                        viol.append(('listing-altered', '%d entries listed for a directory of %d (first difference at %d)' % (
                            len(names), n, next((i for i, x in enumerate(names) if x != b'entry-%05d' % i), len(names)))))
                    if lexc:
                        viol.append(('loop-exception', repr(lexc[0].get('exception') or lexc[0].get('message'))[:200]))
                    acc.add(core.digest(('rdbound', v, supplied, n, tuple(sizes))), transitions=len(script),
                            sample={'readdir': {'version': v, 'entries': n, 'names_per_reply': sizes}} if (v, supplied, n) == (4, False, 300) else None)
                    for k, d in viol:
                        acc.violation('sftpserver:%s:readdir' % k, '%s ; v%d long names supplied=%s' % (d, v, supplied), {'kind': 'rdbound'})
                if biggest[1200] > biggest[300] or biggest[300] > biggest[130] + 170:
                    acc.violation('sftpserver:reply-grows-with-directory:readdir',
                                  'largest single READDIR reply: %r names for directories of 130 / 300 / 1200 entries ; v%d long names supplied=%s'
                                  % ([biggest[k] for k in (130, 300, 1200)], v, supplied), {'kind': 'rdbound'})
    finally:
        shutil.rmtree(root, ignore_errors=True)
    return acc


def nesting_worker(_job):
    """DER values nested 10 .. 50000 deep (SEQUENCE, SET, context tags; definite lengths) given to der_decode and to
    the key / certificate importers, raw and PEM-armoured: a value or the documented error -- the depth of the
    input must not become the depth of the interpreter's stack"""
    import base64
    acc = core.Acc()

    def der_len(n):
        if n < 128:
            return bytes([n])
        b = n.to_bytes((n.bit_length() + 7) // 8, 'big')
        return bytes([0x80 | len(b)]) + b

    def nest(tag, depth, inner=b'\x02\x01\x05'):
        d = inner
        for _ in range(depth):
            d = bytes([tag]) + der_len(len(d)) + d
        return d
    KI = (KeyImportError, KeyEncryptionError)
    targets = [('der_decode', asn1.der_decode, (asn1.ASN1DecodeError,)), ('import_private_key', asyncssh.import_private_key, KI),
               ('import_public_key', asyncssh.import_public_key, KI), ('import_certificate', asyncssh.import_certificate, KI)]
    for tag, tname in ((0x30, 'sequence'), (0x31, 'set'), (0xa0, 'context-0')):
        for depth in (10, 100, 900, 1100, 5000, 50000):
            raw = nest(tag, depth)
            forms = [('der', raw)]
            if depth <= 5000:
                for hdr in ('PRIVATE KEY', 'RSA PRIVATE KEY', 'PUBLIC KEY', 'CERTIFICATE'):
                    forms.append(('pem-' + hdr.lower().replace(' ', '-'), ('-----BEGIN %s-----\n' % hdr).encode() + base64.encodebytes(raw) + ('-----END %s-----\n' % hdr).encode()))
            for fname, data in forms:
                for entry, fn, allowed in targets:
                    if entry == 'der_decode' and fname != 'der':
                        continue
                    out = 'value'
                    try:
                        fn(data)
                    except allowed:
                        out = 'documented-error'
                    except BaseException as exc:        # pylint: disable=broad-except
                        out = type(exc).__name__
                        acc.violation('parser:undocumented-error:%s:nested-%s' % (entry, tname), 'depth %d (%s, %d bytes): %r' % (depth, fname, len(data), exc)[:300],
                                      {'kind': 'nesting'})
                    acc.add(core.digest(('nesting', entry, tname, depth, fname, out)), transitions=1,
                            sample={'nested': tname, 'depth': depth, 'given_to': entry, 'outcome': out} if depth == 5000 and fname == 'der' and entry == 'der_decode' and tname == 'sequence' else None)
    return acc


def sftp_version_worker(_job):
    """the server's answer to FXP_INIT: every known extension with data that is empty, cut short, over-long or of
    the wrong shape, alone and after a good one: starting the SFTP client works or raises SFTPError"""
    import refsftp as RS
    acc = core.Acc()
    u32b = lambda n: n.to_bytes(4, 'big')
    sb = lambda b: u32b(len(b)) + b
    good = {b'vendor-id': sb(b'v') + sb(b'p') + sb(b'1') + (0).to_bytes(8, 'big'), b'newline': b'\n', b'versions': b'3,4,5,6',
            b'supported': u32b(0) * 6 + u32b(0), b'supported2': u32b(0) * 6 + b'\0\0' + u32b(0) + u32b(0) + u32b(0),
            b'acl-supported': u32b(0), b'limits@openssh.com': b'1', b'posix-rename@openssh.com': b'1', b'x-unknown@example.com': b'zz'}
    cases = []
    for name, g in good.items():
        datas = {g, b'', b'\0', b'\xff' * 3, g[:-1], g + b'\0', u32b(0xffffffff) + g, u32b(5) + b'ab', g[:len(g) // 2]}
        for d in sorted(datas):
            cases.append([(name, d)])
            cases.append([(b'newline', b'\n'), (name, d)])
    for version in (3, 6):
        for exts in cases:
            loop = P.fresh(0)
            loop.write_budget = 300
            viol, out = [], 'pending'
            try:
                srv = RS.RefSFTP(loop, extensions=list(exts))
                srv.version = version
                start, conn = RS.start_client(loop, srv, version=version)
                for _ in range(20):
                    loop.quiesce()
                    if start.done():
                        break
                    if srv.pending:
                        srv.answer(0)
                if not start.done():
                    viol.append(('start-hangs', 'start_sftp_client never finished'))
                    start.cancel()
                elif start.exception() is not None:
                    out = type(start.exception()).__name__
                    if not isinstance(start.exception(), (asyncssh.SFTPError, asyncssh.Error)):
                        viol.append(('undocumented-error', 'start_sftp_client raised %r' % (start.exception(),)))
                else:
                    out = 'started'
                try:
                    loop.quiesce()
                except Livelock:
                    pass
                lexc = loop.unretrieved()
                if lexc:
                    viol.append(('loop-exception', repr(lexc[0].get('exception') or lexc[0].get('message'))[:200]))
            except Livelock as exc:
                viol.append(('livelock', str(exc)))
            finally:
                P.done(loop)
            label = '%s=%s' % (exts[-1][0].decode(), exts[-1][1].hex()[:24])
            acc.add(core.digest(('sftp-version', version, tuple(exts), out)), transitions=1)
            for k, d in viol:
                acc.violation('sftpclient:%s:version-extension:%s' % (k, exts[-1][0].decode()), '%s ; v%d extensions %r' % (d, version, exts),
                              {'kind': 'sftp-version'})
    return acc


def run(tier, seed):
    n = len(corpus(tier))
    acc = core.pmap(run_item, core.rotate([(i, tier) for i in range(n)], seed))
    sb = socks_blobs(tier)
    acc.merge(core.pmap(socks_worker, [sb[i::16] for i in range(16)]))
    acc.merge(core.pmap(agent_worker, [[i] for i in range(len(agent_calls()))]))
    acc.merge(core.pmap(sftp_hostile_worker, [[i] for i in range(len(sftp_calls()))]))
    acc.merge(core.pmap(sftp_version_worker, [0]))
    acc.merge(core.pmap(nesting_worker, [0]))
    acc.merge(core.pmap(copydata_worker, [0]))
    acc.merge(core.pmap(readdir_bound_worker, [0]))
    return acc


def replay(r):
    acc = core.Acc()
    if r['kind'] == 'socks':
        return socks_worker([(bytes.fromhex(r['blob']), r['split'])])
    if r['kind'] == 'copydata':
        return copydata_worker(0)
    if r['kind'] == 'rdbound':
        return readdir_bound_worker(0)
    if r['kind'] == 'nesting':
        return nesting_worker(0)
    if r['kind'] == 'sftp-version':
        return sftp_version_worker(0)
    if r['kind'] == 'sftp-hostile':
        full = sftp_hostile_worker([r['call']])
        full.violations = [v for v in full.violations if v['replay'].get('label') == r['label']]
        return full
    if r['kind'] == 'agent':
        full = agent_worker([r['call']])
        full.violations = [v for v in full.violations if v['replay'].get('label') == r['label']]
        return full
    for entry, label, fn, allowed, seed, _u in corpus('thorough'):
        if entry == r['entry'] and label == r['label']:
            data = bytes.fromhex(r['data']) if 'data' in r else seed
            try:
                fn(data)
            except allowed:
                pass
            except Exception as exc:        # pylint: disable=broad-except
                acc.violation('parser:undocumented-error:%s:%s' % (entry, label), repr(exc), r)
    return acc
