"""C10 (c): parsers fed with untrusted data return a value or raise their documented error.

Seed corpus of valid encodings x {every truncation, every single-byte replacement by
0x00/0x7f/0x80/0xff/b+1}.  Documented errors per entry point:
  asn1.der_decode                         -> ASN1DecodeError
  import_private_key / import_public_key / import_certificate,
  decode_ssh_public_key / decode_ssh_certificate
                                          -> KeyImportError | KeyEncryptionError
  SSHPacket field getters                 -> PacketDecodeError
  validate_sshsig                         -> bool (never raises on a malformed signature)
  SSHAgentClient.get_keys/sign            -> ValueError (documented) on bad replies
  SOCKS forwarder                         -> closes the client socket; nothing escapes
"""

import asyncio
import itertools
import time

import asyncssh
from asyncssh import asn1
from asyncssh.packet import PacketDecodeError, SSHPacket
from asyncssh.public_key import (KeyImportError, decode_ssh_certificate,
                                 decode_ssh_public_key)

import core
import pair as P
from vloop import Livelock

KeyEncryptionError = asyncssh.KeyEncryptionError
CALL_BUDGET_S = 5.0


def byte_mutations(data, step=1):
    n = len(data)
    for k in range(0, n):
        yield 'trunc@%d' % k, data[:k]
    for off in range(0, n, step):
        b = data[off]
        for r in (0x00, 0x7f, 0x80, 0xff, (b + 1) & 0xff):
            if r != b:
                yield 'b@%d=%02x' % (off, r), data[:off] + bytes([r]) + data[off + 1:]


def u32_mutations(data):
    for off in range(0, len(data) - 3):
        for x in (0, 1, 0x7fffffff, 0xffffffff):
            v = x.to_bytes(4, 'big')
            if data[off:off + 4] != v:
                yield 'u32@%d=%x' % (off, x), data[:off] + v + data[off + 4:]


_keys = {}


def keyset():
    if not _keys:
        for alg, kw in (('ssh-ed25519', {}), ('ecdsa-sha2-nistp256', {}), ('ecdsa-sha2-nistp384', {}),
                        ('ecdsa-sha2-nistp521', {}), ('ssh-rsa', {'key_size': 2048}), ('ssh-ed448', {}),
                        ('ssh-dss', {})):
            try:
                _keys[alg] = P.key('c10-' + alg, alg, **kw)
            except Exception:           # pylint: disable=broad-except
                pass
    return _keys


def corpus(tier):
    """list of (entry, label, callable(data), allowed exception types, seed bytes, use_u32)"""
    items = []
    KI = (KeyImportError, KeyEncryptionError)
    # DER values
    ders = {
        'int': asn1.der_encode(123456789), 'negint': asn1.der_encode(-5), 'bool': asn1.der_encode(True),
        'null': asn1.der_encode(None), 'bytes': asn1.der_encode(b'abcdef'), 'str': asn1.der_encode('héllo'),
        'oid': asn1.der_encode(asn1.ObjectIdentifier('1.2.840.113549.1.1.1')),
        'bits': asn1.der_encode(asn1.BitString(b'\x12\x30', 3)),
        'ia5': asn1.der_encode(asn1.IA5String(b'text')),
        'seq': asn1.der_encode((1, b'x', (2, None), asn1.ObjectIdentifier('2.5.4.3'))),
        'set': asn1.der_encode(frozenset([1, 2, 3])),
        'tagged': asn1.der_encode(asn1.TaggedDERObject(0, (1, 2))),
        'raw': asn1.der_encode(asn1.RawDERObject(5, b'zz', asn1.CONTEXT_SPECIFIC)),
        'long': asn1.der_encode(b'q' * 300),
    }
    for name, d in ders.items():
        items.append(('der_decode', name, asn1.der_decode, (asn1.ASN1DecodeError,), d, False))
    ks = keyset()
    for alg, k in ks.items():
        short = alg.replace('ecdsa-sha2-', '').replace('ssh-', '')
        for fmt in ('openssh', 'pkcs1-der', 'pkcs1-pem', 'pkcs8-der', 'pkcs8-pem'):
            try:
                d = k.export_private_key(fmt)
            except Exception:       # pylint: disable=broad-except
                continue
            if tier == 'quick' and alg in ('ssh-rsa', 'ssh-dss') and fmt.endswith('pem'):
                continue
            items.append(('import_private_key', '%s/%s' % (short, fmt), asyncssh.import_private_key, KI, d, False))
        if alg in ('ssh-ed25519', 'ecdsa-sha2-nistp256') or tier == 'thorough':
            for fmt, kw in (('pkcs8-pem', dict(passphrase='pw', cipher_name='aes128-cbc', hash_name='sha256')),
                            ('pkcs8-der', dict(passphrase='pw', cipher_name='des3-cbc', hash_name='sha1', pbe_version=1)),
                            ('pkcs1-pem', dict(passphrase='pw', cipher_name='aes256-cbc'))):
                try:
                    d = k.export_private_key(fmt, **kw)
                except Exception:       # pylint: disable=broad-except
                    continue
                items.append(('import_private_key(pw)', '%s/%s-enc' % (short, fmt),
                              lambda x: asyncssh.import_private_key(x, 'pw'), KI, d, False))
        for fmt in ('openssh', 'rfc4716', 'pkcs1-der', 'pkcs1-pem', 'pkcs8-der', 'pkcs8-pem'):
            try:
                d = k.export_public_key(fmt)
            except Exception:       # pylint: disable=broad-except
                continue
            items.append(('import_public_key', '%s/%s' % (short, fmt), asyncssh.import_public_key, KI, d, False))
        items.append(('decode_ssh_public_key', short, decode_ssh_public_key, (KeyImportError,), k.public_data, True))
    ca = ks['ssh-ed25519']
    for alg in ('ssh-ed25519', 'ecdsa-sha2-nistp256', 'ssh-rsa'):
        k = ks[alg]
        uc = ca.generate_user_certificate(k, 'id', principals=['a', 'b'], force_command='x',
                                          source_address=['10.0.0.0/8'], permit_pty=False)
        hc = ca.generate_host_certificate(k, 'hid', principals=['h'])
        items.append(('decode_ssh_certificate', 'user/' + alg, decode_ssh_certificate, (KeyImportError,), uc.public_data, True))
        items.append(('decode_ssh_certificate', 'host/' + alg, decode_ssh_certificate, (KeyImportError,), hc.public_data, True))
        if alg == 'ssh-ed25519':
            items.append(('import_certificate', 'user-openssh', asyncssh.import_certificate, KI,
                          uc.export_certificate('openssh'), False))
            items.append(('import_certificate', 'user-rfc4716', asyncssh.import_certificate, KI,
                          uc.export_certificate('rfc4716'), False))
    # SSH packet getters
    from asyncssh.packet import Boolean, Byte, MPInt, NameList, String, UInt32, UInt64
    pkt = Byte(5) + Boolean(True) + UInt32(7) + UInt64(9) + String(b'abc') + MPInt(-12345678901234) + \
        NameList([b'a', b'bc']) + String('hé'.encode())

    def parse_packet(data):
        p = SSHPacket(data)
        p.get_byte()
        p.get_boolean()
        p.get_uint32()
        p.get_uint64()
        p.get_string()
        p.get_mpint()
        p.get_namelist()
        p.get_string()
        p.check_end()
    items.append(('SSHPacket', 'all-getters', parse_packet, (PacketDecodeError,), pkt, True))
    # SSHSIG
    sigkey = ks['ssh-ed25519']
    sig = asyncssh.create_sshsig(sigkey, b'message', namespace='ns')
    signers = ('alice namespaces="ns" ' + sigkey.export_public_key('openssh').decode()).encode()

    def check_sig(s):
        r = asyncssh.validate_sshsig(b'message', s, 'alice', signers)
        if r and s != sig:
            # altered armour that still decodes to the same signature is fine; anything else is C16's business
            pass
        return r
    items.append(('validate_sshsig', 'ed25519', check_sig, (), sig, False))
    return items


def run_item(item_idx_tier):
    idx, tier = item_idx_tier
    entry, label, fn, allowed, seed, use_u32 = corpus(tier)[idx]
    acc = core.Acc()
    try:
        fn(seed)
    except Exception as exc:        # pylint: disable=broad-except
        acc.violation('parser:seed-rejected:%s:%s' % (entry, label), repr(exc),
                      {'kind': 'parser', 'entry': entry, 'label': label, 'mut': 'seed'})
        return acc
    step = 1
    if tier == 'quick' and len(seed) > 700:
        step = 3
    muts = byte_mutations(seed, step)
    if use_u32:
        muts = itertools.chain(muts, u32_mutations(seed))
    outcomes = {}
    for mlabel, data in muts:
        t0 = time.perf_counter()
        try:
            fn(data)
            out = 'ok'
        except allowed as exc:
            out = type(exc).__name__
        except Exception as exc:        # pylint: disable=broad-except
            out = 'UNDOCUMENTED:' + type(exc).__name__
            acc.violation('parser:undocumented-error:%s:%s:%s' % (entry, label.split('/')[0], type(exc).__name__),
                          '%s(%s) raised %r for mutation %s' % (entry, label, exc, mlabel),
                          {'kind': 'parser', 'entry': entry, 'label': label, 'mut': mlabel,
                           'data': data.hex()})
        dt = time.perf_counter() - t0
        if dt > CALL_BUDGET_S:
            acc.violation('parser:slow:%s:%s' % (entry, label), '%s took %.1fs' % (mlabel, dt),
                          {'kind': 'parser', 'entry': entry, 'label': label, 'mut': mlabel,
                           'data': data.hex()})
        outcomes[out] = outcomes.get(out, 0) + 1
        acc.evaluations += 1
        acc.transitions += 1
    acc.digests.add(core.digest((entry, label, sorted(outcomes.items()))))
    for o in outcomes:
        acc.digests.add(core.digest((entry, label, o)))
    if len(acc.samples) < 2:
        acc.samples.append({'parser': entry, 'seed': label, 'outcomes': outcomes})
    return acc


# ------------------------------------------------------------------ SOCKS + agent (event-loop level)
def socks_worker(blobs):
    from asyncssh.socks import SSHSOCKSForwarder
    acc = core.Acc()
    for blob, split in blobs:
        loop = P.fresh(0)
        loop.write_budget = 300
        try:
            opened = []

            class FakeConn:
                def __init__(self):
                    self._loop = loop
                    self.logger = asyncssh.logging.logger

                def create_task(self, coro, *a):
                    return loop.create_task(coro)

            async def coro(session_factory, host, port, orig_host, orig_port):
                opened.append((host, port))
                raise asyncssh.ChannelOpenError(2, 'refused')
            fwd = SSHSOCKSForwarder(FakeConn(), coro)
            sink = asyncio.Protocol()
            t, _ = loop.make_pair(fwd, sink, labels=('socks', 'app'))
            fwd.connection_made(t)
            viol = []
            try:
                chunks = [blob] if not split else [blob[i:i + 1] for i in range(len(blob))]
                for c in chunks:
                    if t.closing or t.lost:
                        break
                    loop.inject(t, c)
                    loop.quiesce(500)
            except Livelock as exc:
                viol.append(('livelock', str(exc)))
            exc = loop.unretrieved()
            if exc:
                viol.append(('loop-exception', repr(exc[0].get('exception') or exc[0].get('message'))[:200]))
            if loop.budget_tripped:
                viol.append(('work-budget', loop.budget_tripped))
            acc.add(core.digest((blob, split, t.closing, tuple(opened))), transitions=len(blob),
                    sample={'socks_bytes': blob.hex(), 'relay_to': opened} if opened and len(acc.samples) < 1 else None)
            for k, d in viol:
                acc.violation('socks:%s:%s' % (k, blob[:6].hex()), d, {'kind': 'socks', 'blob': blob.hex(), 'split': split})
        finally:
            P.done(loop)
    return acc


def socks_blobs(tier):
    alpha = [0, 1, 2, 4, 5, 0xff]
    out = []
    for n in range(1, 5 if tier == 'quick' else 6):
        for t in itertools.product(alpha, repeat=n):
            out.append((bytes(t), False))
    valid = [bytes([4, 1, 0, 80, 10, 0, 0, 1]) + b'user\0', bytes([4, 1, 0, 80, 0, 0, 0, 1]) + b'u\0host.example\0',
             bytes([5, 1, 0]) + bytes([5, 1, 0, 1, 10, 0, 0, 1, 0, 80]),
             bytes([5, 2, 0, 2]) + bytes([5, 1, 0, 3, 4]) + b'host' + bytes([0, 80]),
             bytes([5, 1, 0]) + bytes([5, 1, 0, 4]) + bytes(16) + bytes([0, 80]),
             bytes([4, 1, 0, 80, 10, 0, 0, 1]) + b'u' * 300, bytes([5, 0]), bytes([5, 255]) + bytes(255)]
    for v in valid:
        out.append((v, False))
        out.append((v, True))
        for k in range(len(v)):
            out.append((v[:k], False))
        for off in range(len(v)):
            for r in (0, 1, 3, 4, 5, 0xff):
                if v[off] != r:
                    out.append((v[:off] + bytes([r]) + v[off + 1:], False))
    return out


def run(tier, seed):
    n = len(corpus(tier))
    acc = core.pmap(run_item, core.rotate([(i, tier) for i in range(n)], seed))
    sb = socks_blobs(tier)
    acc.merge(core.pmap(socks_worker, [sb[i::16] for i in range(16)]))
    return acc


def replay(r):
    acc = core.Acc()
    if r['kind'] == 'socks':
        return socks_worker([(bytes.fromhex(r['blob']), r['split'])])
    for entry, label, fn, allowed, seed, _u in corpus('thorough'):
        if entry == r['entry'] and label == r['label']:
            data = bytes.fromhex(r['data']) if 'data' in r else seed
            try:
                fn(data)
            except allowed:
                pass
            except Exception as exc:        # pylint: disable=broad-except
                acc.violation('parser:undocumented-error:%s:%s' % (entry, label), repr(exc), r)
    return acc
