"""Entry point: ./check <id> [--tier quick|thorough] [--replay file]"""
import argparse
import importlib
import json
import os
import sys

HERE = os.path.dirname(os.path.abspath(__file__))
VERIF = os.path.dirname(HERE)
sys.path.insert(0, HERE)
sys.path.insert(0, os.path.join(VERIF, 'checks'))
# asyncssh must come from /repo's working tree
sys.path.insert(0, os.environ.get('VERIF_REPO', '/repo'))


def main():
    ap = argparse.ArgumentParser()
    ap.add_argument('prop')
    ap.add_argument('--tier', default=os.environ.get('VERIF_TIER', 'quick'),
                    choices=['quick', 'thorough'])
    ap.add_argument('--replay')
    args = ap.parse_args()
    # temporary files the library itself creates (agent forwarding sockets, ...) go to a scratch directory of this
    # run instead of /tmp, and are removed with it: executions are abandoned in mid-flight by design, and worker
    # processes do not run finalizers
    import atexit
    import shutil
    import tempfile
    tmp = '/dev/shm/asyncssh-verif-tmp.%d' % os.getpid()
    os.makedirs(tmp, exist_ok=True)
    os.environ['TMPDIR'] = tmp
    tempfile.tempdir = tmp
    owner = os.getpid()
    atexit.register(lambda: os.getpid() == owner and shutil.rmtree(tmp, ignore_errors=True))
    import asyncssh
    repo = os.path.realpath(os.environ.get('VERIF_REPO', '/repo'))
    assert os.path.realpath(asyncssh.__file__).startswith(repo), asyncssh.__file__
    import determ
    # torn-down virtual loops leave half-run async generators behind; their GC noise is not a result
    sys.unraisablehook = lambda *a: None
    import warnings
    warnings.filterwarnings('ignore', category=RuntimeWarning, message='coroutine .* was never awaited')
    seed = determ.seed_from_env()
    mod = importlib.import_module(args.prop.lower())
    if args.replay:
        with open(args.replay) as f:
            rep = json.load(f)
        sys.exit(mod.replay(rep))
    sys.exit(mod.main(args.tier, seed))


if __name__ == '__main__':
    main()
