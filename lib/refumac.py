"""UMAC (RFC 4418) written from the RFC text, independent of asyncssh's binding to libnettle.

Only AES-128-ECB comes from PyCA.  Used by refpeer as the reference for umac-64/umac-128[-etm]@openssh.com:
the MAC is umac(mac_key, packet, nonce = sequence number as 8 bytes big-endian).
"""
import struct

from cryptography.hazmat.primitives.ciphers import Cipher, algorithms, modes

P36 = 2 ** 36 - 5
P64 = 2 ** 64 - 59
P128 = 2 ** 128 - 159
M64 = 2 ** 64 - 1
M32 = 2 ** 32 - 1


def _aes(key, block):
    return Cipher(algorithms.AES(key), modes.ECB()).encryptor().update(block)


def kdf(key, index, numbytes):
    out = b''
    i = 1
    while len(out) < numbytes:
        out += _aes(key, struct.pack('>QQ', index, i))
        i += 1
    return out[:numbytes]


def pdf(key, nonce, taglen):
    if taglen in (4, 8):
        index = nonce[-1] % (16 // taglen)
        nonce = nonce[:-1] + bytes([nonce[-1] ^ index])
    nonce = nonce + b'\0' * (16 - len(nonce))
    t = _aes(kdf(key, 0, 16), nonce)
    if taglen in (4, 8):
        return t[index * taglen:(index + 1) * taglen]
    return t[:taglen]


def nh(key, msg):
    """key: >= len(msg) bytes; msg: multiple of 32 bytes"""
    t = len(msg) // 4
    m = struct.unpack('<%dI' % t, msg)              # ENDIAN-SWAP then big-endian == little-endian words
    k = struct.unpack('>%dI' % t, key[:len(msg)])
    y = 0
    for i in range(0, t, 8):
        for j in range(4):
            y += (((m[i + j] + k[i + j]) & M32) * ((m[i + j + 4] + k[i + j + 4]) & M32))
    return y & M64


def l1_hash(key, msg):
    chunks = [msg[i:i + 1024] for i in range(0, len(msg), 1024)] or [b'']
    out = b''
    for c in chunks[:-1]:
        out += struct.pack('>Q', (nh(key, c) + 1024 * 8) & M64)
    last = chunks[-1]
    bits = len(last) * 8
    padded = last + b'\0' * (-len(last) % 32)
    if not padded:
        padded = b'\0' * 32
    out += struct.pack('>Q', (nh(key, padded) + bits) & M64)
    return out


def poly(wordbits, maxwordrange, k, msg):
    wb = wordbits // 8
    p = P64 if wordbits == 64 else P128
    offset = 2 ** wordbits - p
    marker = p - 1
    y = 1
    for i in range(0, len(msg), wb):
        m = int.from_bytes(msg[i:i + wb], 'big')
        if m >= maxwordrange:
            y = (k * y + marker) % p
            y = (k * y + (m - offset)) % p
        else:
            y = (k * y + m) % p
    return y


def l2_hash(key, msg):
    k64 = int.from_bytes(key[:8], 'big') & 0x01ffffff01ffffff
    k128 = int.from_bytes(key[8:24], 'big') & 0x01ffffff01ffffff01ffffff01ffffff
    if len(msg) <= 2 ** 17:
        y = poly(64, 2 ** 64 - 2 ** 32, k64, msg)
    else:
        m1, m2 = msg[:2 ** 17], msg[2 ** 17:]
        m2 = m2 + b'\x80'
        m2 += b'\0' * (-len(m2) % 16)
        y = poly(64, 2 ** 64 - 2 ** 32, k64, m1)
        y = poly(128, 2 ** 128 - 2 ** 96, k128, y.to_bytes(16, 'big') + m2)
    return y.to_bytes(16, 'big')


def l3_hash(k1, k2, msg):
    y = 0
    for i in range(8):
        m = int.from_bytes(msg[2 * i:2 * i + 2], 'big')
        k = int.from_bytes(k1[8 * i:8 * i + 8], 'big') % P36
        y += m * k
    y = (y % P36) & M32
    return (y ^ int.from_bytes(k2, 'big')).to_bytes(4, 'big')


def uhash(key, msg, taglen):
    iters = taglen // 4
    l1key = kdf(key, 1, 1024 + (iters - 1) * 16)
    l2key = kdf(key, 2, iters * 24)
    l3key1 = kdf(key, 3, iters * 64)
    l3key2 = kdf(key, 4, iters * 4)
    y = b''
    for i in range(iters):
        a = l1_hash(l1key[i * 16:i * 16 + 1024], msg)
        if len(msg) <= 1024:
            b = b'\0' * 8 + a
        else:
            b = l2_hash(l2key[i * 24:(i + 1) * 24], a)
        y += l3_hash(l3key1[i * 64:(i + 1) * 64], l3key2[i * 4:(i + 1) * 4], b)
    return y


def umac(key, msg, nonce, taglen):
    h = uhash(key, msg, taglen)
    p = pdf(key, nonce, taglen)
    return bytes(x ^ y for x, y in zip(h, p))


RFC_VECTORS = [(b'', '6E155FAD26900BE1'), (b'aaa', '44B5CB542F220104'), (b'a' * 1024, '26BF2F5D60118BD9'),
               (b'a' * 32768, '27F8EF643B0D118D'), (b'abc', 'D4D7B9F6BD4FBFCF'), (b'abc' * 500, 'D4CF26DDEFD5C01A')]


def self_test():
    for msg, want in RFC_VECTORS:
        got = umac(b'abcdefghijklmnop', msg, b'bcdefghi', 8).hex().upper()
        if got != want:
            return 'UMAC-64 of %d bytes: %s, RFC 4418 appendix: %s' % (len(msg), got, want)
    return None


if __name__ == '__main__':
    print(self_test() or 'ok')
