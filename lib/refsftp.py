"""refsftp -- a packet-level model SFTP (v3) server whose every reply is an explorer decision.

The real asyncssh SFTPClient / SFTPClientFile / parallel-IO code runs on top of it through
a fake reader/writer pair.  Files are bytearrays with an explicit list of data extents
(for ranges@asyncssh.com); directories are explicit listings (so hostile names can be
served).  `pending` holds the parsed requests; `answer(i, variant)` produces a reply.
"""

import asyncio
import struct

import asyncssh

FXP = dict(INIT=1, VERSION=2, OPEN=3, CLOSE=4, READ=5, WRITE=6, LSTAT=7, FSTAT=8, SETSTAT=9,
           FSETSTAT=10, OPENDIR=11, READDIR=12, REMOVE=13, MKDIR=14, RMDIR=15, REALPATH=16, STAT=17,
           RENAME=18, READLINK=19, SYMLINK=20, STATUS=101, HANDLE=102, DATA=103, NAME=104, ATTRS=105,
           EXTENDED=200, EXTENDED_REPLY=201)
FX_OK, FX_EOF, FX_NO_SUCH_FILE, FX_PERMISSION_DENIED, FX_FAILURE, FX_BAD_MESSAGE = 0, 1, 2, 3, 4, 5
FX_OP_UNSUPPORTED = 8
S_IFDIR, S_IFREG, S_IFLNK = 0o040000, 0o100000, 0o120000


def u32(n):
    return struct.pack('>I', n)


def u64(n):
    return struct.pack('>Q', n)


def s(b):
    if isinstance(b, str):
        b = b.encode()
    return u32(len(b)) + b


class Rd:
    def __init__(self, d, p=0):
        self.d, self.p = d, p

    def u8(self):
        self.p += 1
        return self.d[self.p - 1]

    def u32(self):
        self.p += 4
        return struct.unpack('>I', self.d[self.p - 4:self.p])[0]

    def u64(self):
        self.p += 8
        return struct.unpack('>Q', self.d[self.p - 8:self.p])[0]

    def s(self):
        n = self.u32()
        self.p += n
        return self.d[self.p - n:self.p]

    def attrs(self):
        flags = self.u32()
        a = {}
        if flags & 1:
            a['size'] = self.u64()
        if flags & 2:
            a['uid'], a['gid'] = self.u32(), self.u32()
        if flags & 4:
            a['perm'] = self.u32()
        if flags & 8:
            a['atime'], a['mtime'] = self.u32(), self.u32()
        if flags & 0x80000000:
            for _ in range(self.u32()):
                self.s()
                self.s()
        return a


def enc_attrs(size=None, perm=None, uid=None, mtime=None):
    flags = (1 if size is not None else 0) | (2 if uid is not None else 0) | \
        (4 if perm is not None else 0) | (8 if mtime is not None else 0)
    out = u32(flags)
    if size is not None:
        out += u64(size)
    if uid is not None:
        out += u32(uid) + u32(uid)
    if perm is not None:
        out += u32(perm)
    if mtime is not None:
        out += u32(mtime) + u32(mtime)
    return out


class FakeReader:
    def __init__(self, loop):
        self.loop = loop
        self.buf = b''
        self.waiter = None
        self.eof = False
        self.logger = asyncssh.logging.logger

    def get_extra_info(self, name, default=None):
        return default

    def feed(self, data):
        self.buf += data
        self._wake()

    def feed_eof(self):
        self.eof = True
        self._wake()

    def _wake(self):
        if self.waiter is not None and not self.waiter.done():
            self.waiter.set_result(None)

    async def readexactly(self, n):
        while len(self.buf) < n:
            if self.eof:
                part, self.buf = self.buf, b''
                raise asyncio.IncompleteReadError(part, n)
            self.waiter = self.loop.create_future()
            await self.waiter
        out, self.buf = self.buf[:n], self.buf[n:]
        return out


class FakeChannel:
    def __init__(self, loop):
        self.closed = loop.create_future()

    async def wait_closed(self):
        await self.closed

    def get_extra_info(self, name, default=None):
        return default


class FakeWriter:
    def __init__(self, server, loop):
        self.server = server
        self.channel = FakeChannel(loop)
        self.closed = False
        self.logger = asyncssh.logging.logger

    def write(self, data):
        if self.closed:
            raise BrokenPipeError('closed')
        self.server.feed(bytes(data))

    def write_eof(self):
        self.server.client_eof = True

    def close(self):
        self.closed = True
        if not self.channel.closed.done():
            self.channel.closed.set_result(None)

    def get_extra_info(self, name, default=None):
        return default


class Req:
    def __init__(self, rid, rtype, name, fields, raw):
        self.id, self.type, self.name, self.f, self.raw = rid, rtype, name, fields, raw

    def __repr__(self):
        return '<%s#%d %r>' % (self.name, self.id, {k: (v if not isinstance(v, (bytes, bytearray)) or len(v) < 20
                                                           else '%d bytes' % len(v)) for k, v in self.f.items()})


class RefSFTP:
    def __init__(self, loop, extensions=(b'limits@openssh.com', b'ranges@asyncssh.com'), version=3):
        self.loop = loop
        self.version = version
        self.extensions = list(extensions)
        self.files = {}             # path(bytes) -> bytearray
        self.extents = {}           # path -> [(offset, length)] data extents (None = whole file)
        self.stat_size = {}         # path -> size announced by stat (defaults to real length)
        self.dirs = {b'/': []}      # path -> [(name bytes, type 'f'|'d'|'l', target)]
        self.links = {}
        self.handles = {}
        self.next_handle = 0
        self.pending = []
        self.answered = []          # (req, variant)
        self.inbuf = b''
        self.reader = FakeReader(loop)
        self.writer = FakeWriter(self, loop)
        self.client_eof = False
        self.log = []
        self.max_read = 0

    # ---- wire in
    def feed(self, data):
        self.inbuf += data
        while len(self.inbuf) >= 4:
            n = struct.unpack('>I', self.inbuf[:4])[0]
            if len(self.inbuf) < 4 + n:
                return
            pkt, self.inbuf = self.inbuf[4:4 + n], self.inbuf[4 + n:]
            self._packet(pkt)

    def _packet(self, pkt):
        t = pkt[0]
        r = Rd(pkt, 1)
        if t == FXP['INIT']:
            ext = b''.join((s(e[0]) + s(e[1])) if isinstance(e, tuple) else (s(e) + s(b'1')) for e in self.extensions)
            self._send(bytes([FXP['VERSION']]) + u32(self.version) + ext)
            return
        rid = r.u32()
        f = {}
        name = {v: k for k, v in FXP.items()}.get(t, 'T%d' % t)
        if t == FXP['OPEN']:
            f['path'], f['pflags'], f['attrs'] = r.s(), r.u32(), r.attrs()
        elif t in (FXP['CLOSE'], FXP['FSTAT'], FXP['READDIR']):
            f['handle'] = r.s()
        elif t == FXP['READ']:
            f['handle'], f['offset'], f['len'] = r.s(), r.u64(), r.u32()
        elif t == FXP['WRITE']:
            f['handle'], f['offset'], f['data'] = r.s(), r.u64(), r.s()
        elif t in (FXP['LSTAT'], FXP['STAT'], FXP['OPENDIR'], FXP['REMOVE'], FXP['RMDIR'], FXP['REALPATH'],
                   FXP['READLINK']):
            f['path'] = r.s()
        elif t in (FXP['SETSTAT'], FXP['MKDIR']):
            f['path'], f['attrs'] = r.s(), r.attrs()
        elif t == FXP['FSETSTAT']:
            f['handle'], f['attrs'] = r.s(), r.attrs()
        elif t in (FXP['RENAME'], FXP['SYMLINK']):
            f['a'], f['b'] = r.s(), r.s()
        elif t == FXP['EXTENDED']:
            f['ext'] = r.s()
            name = 'EXT:' + f['ext'].decode('ascii', 'replace')
            f['rest'] = pkt[r.p:]
        req = Req(rid, t, name, f, pkt)
        self.log.append(('req', name, rid))
        if t == FXP['WRITE']:
            self._apply_write(f)        # servers process writes in arrival order; only the ack is delayed
        self.pending.append(req)

    def _apply_write(self, f):
        h = self.handles.get(f['handle'])
        f['applied'] = bool(h)
        if not h:
            return
        buf = self.files[h[1]]
        off = f['offset']
        if h[2] & 0x04:          # APPEND
            off = len(buf)
        if len(buf) < off:
            buf.extend(bytes(off - len(buf)))
        buf[off:off + len(f['data'])] = f['data']

    # ---- wire out
    def _send(self, payload):
        # `mutate` (C10): a hostile server alters the reply it is about to send, or its length prefix
        mut = getattr(self, 'mutate', None)
        if mut is not None:
            raw = mut(payload)
            if raw is not None:
                self.reader.feed(raw)
                return
        self.reader.feed(u32(len(payload)) + payload)

    def status(self, rid, code, msg='x'):
        if getattr(self, 'bare_status', False):
            # some servers send the status code alone, without message and language tag
            self._send(bytes([FXP['STATUS']]) + u32(rid) + u32(code))
            return
        self._send(bytes([FXP['STATUS']]) + u32(rid) + u32(code) + s(msg) + s(''))

    # ---- model
    def put_file(self, path, data, extents=None, stat_size=None):
        self.files[path] = bytearray(data)
        self.extents[path] = extents
        if stat_size is not None:
            self.stat_size[path] = stat_size
        d, _, n = path.rpartition(b'/')
        self.dirs.setdefault(d or b'/', [])
        if not any(e[0] == n for e in self.dirs[d or b'/']):
            self.dirs[d or b'/'].append((n, 'f', None))

    def _attrs_of(self, path):
        if path in self.files:
            return enc_attrs(size=self.stat_size.get(path, len(self.files[path])), perm=S_IFREG | 0o644,
                             uid=1000, mtime=1_600_000_000)
        if path in self.dirs:
            return enc_attrs(size=0, perm=S_IFDIR | 0o755, uid=1000, mtime=1_600_000_000)
        if path in self.links:
            return enc_attrs(size=0, perm=S_IFLNK | 0o777, uid=1000, mtime=1_600_000_000)
        return None

    def variants(self, req):
        if req.type == FXP['READ']:
            return ['ok', 'short1', 'half', 'fail', 'perm', 'eof'] + (['empty'] if getattr(self, 'empty_reads', False) else [])
        if req.name == 'EXT:limits@openssh.com':
            return ['ok']
        return ['ok', 'fail']

    def answer(self, idx=0, variant='ok', rid_override=None, type_override=None):
        """Answer pending request idx according to the model and `variant`"""
        req = self.pending.pop(idx)
        self.answered.append((req, variant))
        rid = req.id if rid_override is None else rid_override
        t, f = req.type, req.f
        if getattr(self, 'trailing_slash_ok', False) and isinstance(f.get('path'), bytes):
            # '/d/', '/d/.' and '/d/x/..' name the directory /d, as on any POSIX server (opt-in: other checks send hostile
            # paths that must reach the model unchanged)
            import posixpath
            f['path'] = posixpath.normpath(f['path']) if f['path'] else f['path']
        if type_override is not None:
            self._send(bytes([type_override]) + u32(rid) + type_override_body(type_override))
            return req
        if variant == 'fail':
            self.status(rid, FX_FAILURE)
            return req
        if variant == 'perm':
            self.status(rid, FX_PERMISSION_DENIED)
            return req
        if t == FXP['OPEN']:
            path = f['path']
            flags = f['pflags']
            if flags & 0x08:        # CREAT
                if path not in self.files or flags & 0x10:
                    self.put_file(path, b'' if (path not in self.files or flags & 0x10) else self.files[path])
            if path not in self.files:
                self.status(rid, FX_NO_SUCH_FILE)
                return req
            if flags & 0x10:
                self.files[path] = bytearray()
                self.extents[path] = None
            h = b'h%d' % self.next_handle
            self.next_handle += 1
            self.handles[h] = ('file', path, flags)
            self._send(bytes([FXP['HANDLE']]) + u32(rid) + s(h))
        elif t == FXP['CLOSE']:
            self.handles.pop(f['handle'], None)
            self.status(rid, FX_OK)
        elif t == FXP['READ']:
            h = self.handles.get(f['handle'])
            if not h:
                self.status(rid, FX_FAILURE)
                return req
            data = bytes(self.files[h[1]][f['offset']:f['offset'] + f['len']])
            if getattr(self, 'max_read_limit', 0):
                data = data[:self.max_read_limit]       # a server that enforces the limit it announced by answering short
            self.max_read = max(self.max_read, f['len'])
            if variant == 'eof' or not data:
                self.status(rid, FX_EOF)
                return req
            if variant == 'short1':
                data = data[:1]
            elif variant == 'half':
                data = data[:max(1, len(data) // 2)]
            elif variant == 'empty':
                data = b''          # a DATA reply carrying nothing, although the file goes on
            self._send(bytes([FXP['DATA']]) + u32(rid) + s(data))
        elif t == FXP['WRITE']:
            self.status(rid, FX_OK if f.get('applied') else FX_FAILURE)
        elif t in (FXP['STAT'], FXP['LSTAT']):
            a = self._attrs_of(f['path'])
            if getattr(self, 'deny_stat_after_readlink', False) and f['path'] in getattr(self, '_readlinked', ()):
                # opt-in: a server that refuses to describe a link whose target it has just handed out
                self.status(rid, 3)
            elif a is None:
                self.status(rid, FX_NO_SUCH_FILE)
            else:
                self._send(bytes([FXP['ATTRS']]) + u32(rid) + a)
        elif t == FXP['FSTAT']:
            h = self.handles.get(f['handle'])
            if not h:
                self.status(rid, FX_FAILURE)
            else:
                self._send(bytes([FXP['ATTRS']]) + u32(rid) + self._attrs_of(h[1]))
        elif t in (FXP['SETSTAT'], FXP['FSETSTAT']):
            path = f.get('path') or (self.handles.get(f['handle']) or (0, None))[1]
            if path in self.files and 'size' in f['attrs']:
                n = f['attrs']['size']
                buf = self.files[path]
                if n < len(buf):
                    del buf[n:]
                else:
                    buf.extend(bytes(n - len(buf)))
            self.status(rid, FX_OK)
        elif t == FXP['OPENDIR']:
            if f['path'] not in self.dirs:
                self.status(rid, FX_NO_SUCH_FILE)
                return req
            h = b'd%d' % self.next_handle
            self.next_handle += 1
            self.handles[h] = ['dir', f['path'], False]
            self._send(bytes([FXP['HANDLE']]) + u32(rid) + s(h))
        elif t == FXP['READDIR']:
            h = self.handles.get(f['handle'])
            if not h or h[2]:
                self.status(rid, FX_EOF)
                return req
            h[2] = True
            ents = self.dirs[h[1]]
            out = bytes([FXP['NAME']]) + u32(rid) + u32(len(ents))
            for n, kind, _tgt in ents:
                full = (h[1].rstrip(b'/') + b'/' + n)
                if kind == 'f':
                    a = enc_attrs(size=len(self.files.get(full, b'')), perm=S_IFREG | 0o644, uid=1, mtime=1)
                elif kind == 'd':
                    a = enc_attrs(size=0, perm=S_IFDIR | 0o755, uid=1, mtime=1)
                else:
                    a = enc_attrs(size=0, perm=S_IFLNK | 0o777, uid=1, mtime=1)
                out += s(n) + s(b'-rw-r--r-- 1 u g 0 Jan 1 00:00 ' + n) + a
            self._send(out)
        elif t == FXP['REALPATH']:
            p = f['path'] or b'/'
            if not p.startswith(b'/'):
                p = b'/' + p
            if p == b'/.':
                p = b'/'
            if getattr(self, 'realpath_answer', None) is not None:
                p = self.realpath_answer        # a server that decides what the "real" path is
            self._send(bytes([FXP['NAME']]) + u32(rid) + u32(1) + s(p) + s(p) + enc_attrs())
        elif t == FXP['MKDIR']:
            self.dirs.setdefault(f['path'], [])
            self.status(rid, FX_OK)
        elif t == FXP['READLINK']:
            tgt = self.links.get(f['path'])
            if not hasattr(self, '_readlinked'):
                self._readlinked = set()
            self._readlinked.add(f['path'])
            if tgt is None:
                self.status(rid, FX_NO_SUCH_FILE)
            else:
                self._send(bytes([FXP['NAME']]) + u32(rid) + u32(1) + s(tgt) + s(tgt) + enc_attrs())
        elif t in (FXP['REMOVE'], FXP['RMDIR'], FXP['RENAME'], FXP['SYMLINK']):
            self.status(rid, FX_OK)
        elif t == FXP['EXTENDED']:
            ext = f['ext']
            if ext == b'limits@openssh.com':
                lim = getattr(self, 'max_read_limit', 0) or 0
                self._send(bytes([FXP['EXTENDED_REPLY']]) + u32(rid) + u64(0) + u64(lim) + u64(0) + u64(0))
            elif ext == b'statvfs@openssh.com':
                self._send(bytes([FXP['EXTENDED_REPLY']]) + u32(rid) + b''.join(u64(x) for x in (4096, 4096, 1000, 900, 800, 100, 90, 80, 0x1234, 1, 255)))
            elif ext == b'ranges@asyncssh.com':
                r = Rd(f['rest'])
                h = self.handles.get(r.s())
                off, ln = r.u64(), r.u64()
                if not h:
                    self.status(rid, FX_FAILURE)
                    return req
                path = h[1]
                size = len(self.files[path])
                exts = self.extents.get(path)
                if exts is None:
                    exts = [(0, size)] if size else []
                out = []
                for eo, el in exts:
                    lo, hi = max(eo, off), min(eo + el, off + ln, size)
                    if lo < hi:
                        out.append((lo, hi - lo))
                if not out:
                    self.status(rid, FX_EOF)
                else:
                    cap = getattr(self, 'ranges_cap', 128)
                    part = out[:cap]
                    self._send(bytes([FXP['EXTENDED_REPLY']]) + u32(rid) + u32(len(part)) +
                               b''.join(u64(a) + u64(b) for a, b in part) + bytes([1 if len(out) <= cap else 0]))
            else:
                self.status(rid, FX_OP_UNSUPPORTED)
        else:
            self.status(rid, FX_OP_UNSUPPORTED)
        return req


def type_override_body(t):
    if t == FXP['STATUS']:
        return u32(FX_OK) + s('ok') + s('')
    if t == FXP['HANDLE']:
        return s(b'bogus')
    if t == FXP['DATA']:
        return s(b'BOGUSDATA')
    if t == FXP['NAME']:
        return u32(1) + s(b'bogus') + s(b'bogus') + enc_attrs()
    if t == FXP['ATTRS']:
        return enc_attrs(size=12345)
    if t == FXP['EXTENDED_REPLY']:
        return u64(1) + u64(2)
    return b''


class FakeConn:
    """Stands in for the SSHClientConnection argument of asyncssh.sftp.start_sftp_client"""

    def __init__(self, loop):
        self.loop = loop
        self.tasks = []
        self.logger = asyncssh.logging.logger

    def create_task(self, coro, logger=None):
        t = self.loop.create_task(coro)
        self.tasks.append(t)
        return t


def start_client(loop, server, path_encoding='utf-8', version=3):
    """returns a task resolving to a real asyncssh SFTPClient talking to `server`"""
    from asyncssh.sftp import start_sftp_client
    conn = FakeConn(loop)
    return loop.create_task(start_sftp_client(conn, loop, 'strict', server.reader, server.writer,
                                              path_encoding, 'strict', version)), conn
