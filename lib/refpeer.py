"""refpeer -- an independent, scriptable SSH-2 endpoint (shares no code with asyncssh).

RFC 4253 binary packet protocol (E&M, ETM, AES-GCM, chacha20-poly1305@openssh.com),
key derivation, KEXINIT, curve25519 / ecdh-nistp / dh-group / dh-gex key exchange in
both roles, ed25519 host keys, strict-kex sequence reset, zlib.  Primitives come from
hashlib/hmac/cryptography.hazmat directly.

Two uses: ORACLE (decodes what asyncssh emits with keys it derived itself) and
ADVERSARY (message-scripted; can send anything at any time).
"""

import hashlib
import hmac as _hmac
import os
import struct
import zlib

from cryptography.exceptions import InvalidSignature, InvalidTag
from cryptography.hazmat.primitives import poly1305, serialization
from cryptography.hazmat.primitives.asymmetric import ec, ed25519, x25519
from cryptography.hazmat.primitives.ciphers import Cipher, algorithms, modes
from cryptography.hazmat.primitives.ciphers.aead import AESGCM

try:
    from cryptography.hazmat.decrepit.ciphers.algorithms import TripleDES
except ImportError:                                     # older cryptography
    TripleDES = algorithms.TripleDES


class RefError(Exception):
    """refpeer detected a protocol violation by its peer"""


# --------------------------------------------------------------------- wire types
def u32(n):
    return struct.pack('>I', n & 0xffffffff)


def u64(n):
    return struct.pack('>Q', n)


def byte(n):
    return bytes((n,))


def boolean(b):
    return b'\1' if b else b'\0'


def string(s):
    if isinstance(s, str):
        s = s.encode('utf-8')
    return u32(len(s)) + s


def mpint(n):
    if n == 0:
        return u32(0)
    l = (n.bit_length() // 8) + 1
    b = n.to_bytes(l, 'big', signed=True)
    return string(b)


def namelist(names):
    return string(b','.join(n if isinstance(n, bytes) else n.encode() for n in names))


class Reader:
    def __init__(self, data, pos=0):
        self.d, self.p = data, pos

    def take(self, n):
        if self.p + n > len(self.d):
            raise RefError('short packet')
        r = self.d[self.p:self.p + n]
        self.p += n
        return r

    def byte(self):
        return self.take(1)[0]

    def boolean(self):
        return self.take(1) != b'\0'

    def u32(self):
        return struct.unpack('>I', self.take(4))[0]

    def string(self):
        return self.take(self.u32())

    def mpint(self):
        return int.from_bytes(self.string(), 'big', signed=True)

    def namelist(self):
        s = self.string()
        return s.split(b',') if s else []

    def rest(self):
        return self.d[self.p:]

    def end(self):
        return self.p == len(self.d)


# --------------------------------------------------------------------- constants
MSG_DISCONNECT, MSG_IGNORE, MSG_UNIMPLEMENTED, MSG_DEBUG = 1, 2, 3, 4
MSG_SERVICE_REQUEST, MSG_SERVICE_ACCEPT, MSG_EXT_INFO = 5, 6, 7
MSG_KEXINIT, MSG_NEWKEYS = 20, 21
MSG_KEX_ECDH_INIT, MSG_KEX_ECDH_REPLY = 30, 31
MSG_KEXDH_INIT, MSG_KEXDH_REPLY = 30, 31
MSG_KEX_DH_GEX_REQUEST_OLD, MSG_KEX_DH_GEX_GROUP, MSG_KEX_DH_GEX_INIT = 30, 31, 32
MSG_KEX_DH_GEX_REPLY, MSG_KEX_DH_GEX_REQUEST = 33, 34
MSG_USERAUTH_REQUEST, MSG_USERAUTH_FAILURE, MSG_USERAUTH_SUCCESS = 50, 51, 52
MSG_USERAUTH_BANNER = 53
MSG_USERAUTH_PK_OK = 60
MSG_GLOBAL_REQUEST, MSG_REQUEST_SUCCESS, MSG_REQUEST_FAILURE = 80, 81, 82
MSG_CHANNEL_OPEN, MSG_CHANNEL_OPEN_CONFIRMATION, MSG_CHANNEL_OPEN_FAILURE = 90, 91, 92
MSG_CHANNEL_WINDOW_ADJUST, MSG_CHANNEL_DATA, MSG_CHANNEL_EXTENDED_DATA = 93, 94, 95
MSG_CHANNEL_EOF, MSG_CHANNEL_CLOSE, MSG_CHANNEL_REQUEST = 96, 97, 98
MSG_CHANNEL_SUCCESS, MSG_CHANNEL_FAILURE = 99, 100

# RFC 3526 / RFC 2409 MODP groups
_P = {
 1: 'FFFFFFFFFFFFFFFFC90FDAA22168C234C4C6628B80DC1CD129024E088A67CC74020BBEA63B139B22514A08798E3404DDEF9519B3CD3A431B302B0A6DF25F14374FE1356D6D51C245E485B576625E7EC6F44C42E9A637ED6B0BFF5CB6F406B7EDEE386BFB5A899FA5AE9F24117C4B1FE649286651ECE65381FFFFFFFFFFFFFFFF',
 14: 'FFFFFFFFFFFFFFFFC90FDAA22168C234C4C6628B80DC1CD129024E088A67CC74020BBEA63B139B22514A08798E3404DDEF9519B3CD3A431B302B0A6DF25F14374FE1356D6D51C245E485B576625E7EC6F44C42E9A637ED6B0BFF5CB6F406B7EDEE386BFB5A899FA5AE9F24117C4B1FE649286651ECE45B3DC2007CB8A163BF0598DA48361C55D39A69163FA8FD24CF5F83655D23DCA3AD961C62F356208552BB9ED529077096966D670C354E4ABC9804F1746C08CA18217C32905E462E36CE3BE39E772C180E86039B2783A2EC07A28FB5C55DF06F4C52C9DE2BCBF6955817183995497CEA956AE515D2261898FA051015728E5A8AACAA68FFFFFFFFFFFFFFFF',
}
_G = 2

DH_KEX = {}
for _name, _grp, _hash in [
        ('diffie-hellman-group1-sha1', 1, 'sha1'),
        ('diffie-hellman-group14-sha1', 14, 'sha1'),
        ('diffie-hellman-group14-sha256', 14, 'sha256'),
        ('diffie-hellman-group14-sha256@ssh.com', 14, 'sha256'),
        ('diffie-hellman-group14-sha224@ssh.com', 14, 'sha224')]:
    DH_KEX[_name] = (int(_P[_grp], 16), _hash)
GEX_KEX = {
    'diffie-hellman-group-exchange-sha1': 'sha1',
    'diffie-hellman-group-exchange-sha256': 'sha256',
    'diffie-hellman-group-exchange-sha224@ssh.com': 'sha224',
    'diffie-hellman-group-exchange-sha384@ssh.com': 'sha384',
    'diffie-hellman-group-exchange-sha512@ssh.com': 'sha512',
}
ECDH_KEX = {
    'ecdh-sha2-nistp256': (ec.SECP256R1, 'sha256'),
    'ecdh-sha2-nistp384': (ec.SECP384R1, 'sha384'),
    'ecdh-sha2-nistp521': (ec.SECP521R1, 'sha512'),
}
C25519_KEX = {'curve25519-sha256': 'sha256', 'curve25519-sha256@libssh.org': 'sha256'}
ALL_KEX = list(C25519_KEX) + list(ECDH_KEX) + list(DH_KEX) + list(GEX_KEX)

# name -> (keysize, ivsize, blocksize, kind)
CIPHERS = {
    'chacha20-poly1305@openssh.com': (64, 0, 8, 'chacha'),
    'aes128-gcm@openssh.com': (16, 12, 16, 'gcm'),
    'aes256-gcm@openssh.com': (32, 12, 16, 'gcm'),
    'aes128-ctr': (16, 16, 16, 'ctr'), 'aes192-ctr': (24, 16, 16, 'ctr'),
    'aes256-ctr': (32, 16, 16, 'ctr'),
    'aes128-cbc': (16, 16, 16, 'cbc'), 'aes192-cbc': (24, 16, 16, 'cbc'),
    'aes256-cbc': (32, 16, 16, 'cbc'),
    '3des-cbc': (24, 8, 8, '3des'),
}
# name -> (keysize, digest, taglen, etm)
MACS = {}
for _n, _ks, _h, _tl in [
        ('hmac-sha2-256', 32, 'sha256', 32), ('hmac-sha2-512', 64, 'sha512', 64),
        ('hmac-sha1', 20, 'sha1', 20), ('hmac-md5', 16, 'md5', 16),
        ('hmac-sha2-256-96', 32, 'sha256', 12), ('hmac-sha2-512-96', 64, 'sha512', 12),
        ('hmac-sha1-96', 20, 'sha1', 12), ('hmac-md5-96', 16, 'md5', 12)]:
    MACS[_n] = (_ks, _h, _tl, False)
    MACS[_n + '-etm@openssh.com'] = (_ks, _h, _tl, True)
for _n, _ks, _h, _tl in [
        ('hmac-sha256-2@ssh.com', 32, 'sha256', 32), ('hmac-sha224@ssh.com', 28, 'sha224', 28),
        ('hmac-sha256@ssh.com', 16, 'sha256', 32), ('hmac-sha384@ssh.com', 48, 'sha384', 48),
        ('hmac-sha512@ssh.com', 64, 'sha512', 64)]:
    MACS[_n] = (_ks, _h, _tl, False)
for _n, _tl in [('umac-64', 8), ('umac-128', 16)]:
    MACS[_n + '@openssh.com'] = (16, 'umac', _tl, False)
    MACS[_n + '-etm@openssh.com'] = (16, 'umac', _tl, True)
COMPRESSIONS = ['none', 'zlib@openssh.com', 'zlib']


def _tag(key, dig, tl, seq, data):
    """data starts with the 4-byte sequence number (RFC 4253 6.4); UMAC takes it as its nonce instead"""
    if dig == 'umac':
        import refumac
        return refumac.umac(key, data[4:], u64(seq), tl)
    return _hmac.new(key, data, dig).digest()[:tl]


# --------------------------------------------------------------------- one direction
class Direction:
    """Cipher/MAC/compression state of one direction (send or receive)"""

    def __init__(self):
        self.seq = 0
        self.kind = None            # None = cleartext
        self.block = 8
        self.mac = None             # (key, digest, taglen, etm)
        self.comp = None
        self.comp_delayed = False
        self.authed = False
        self.ctx = None

    def setup(self, cipher, mac, comp, key, iv, mackey, encrypt):
        ks, ivs, bs, kind = CIPHERS[cipher]
        self.kind, self.block = kind, bs
        self.key, self.iv = key, iv
        if kind in ('ctr', 'cbc', '3des'):
            alg = TripleDES(key) if kind == '3des' else algorithms.AES(key)
            mode = modes.CTR(iv) if kind == 'ctr' else modes.CBC(iv)
            c = Cipher(alg, mode)
            self.ctx = c.encryptor() if encrypt else c.decryptor()
            ksz, dig, tl, etm = MACS[mac]
            self.mac = (mackey[:ksz], dig, tl, etm)
        elif kind == 'gcm':
            self.gcm = AESGCM(key)
            self.mac = None
        elif kind == 'chacha':
            self.k2, self.k1 = key[:32], key[32:64]
            self.mac = None
        if comp == 'none':
            self.comp = None
        else:
            self.comp = comp
            self.comp_delayed = comp == 'zlib@openssh.com'
            self.z = zlib.compressobj() if encrypt else zlib.decompressobj()

    def compressing(self):
        return self.comp and (self.authed or not self.comp_delayed)

    # .. chacha helpers
    def _chacha(self, key, ctr, data):
        nonce = struct.pack('<Q', ctr) + u64(self.seq)
        return Cipher(algorithms.ChaCha20(key, nonce), None).encryptor().update(data)

    # .. sending
    def seal(self, payload, padlen_override=None, pad_bytes=None):
        if self.compressing():
            payload = self.z.compress(payload) + self.z.flush(zlib.Z_SYNC_FLUSH)
        aead_or_etm = self.kind in ('gcm', 'chacha') or (self.mac and self.mac[3])
        hdr = 1 if aead_or_etm else 5
        bs = max(8, self.block)
        padlen = -(hdr + len(payload)) % bs
        if padlen < 4:
            padlen += bs
        if padlen_override is not None:
            padlen = padlen_override
        pad = pad_bytes if pad_bytes is not None else os.urandom(padlen)
        body = byte(padlen) + payload + pad
        length = u32(len(body))
        seq = self.seq
        if self.kind is None:
            out = length + body
        elif self.kind == 'gcm':
            ct = self.gcm.encrypt(self.iv, body, length)
            out = length + ct
            self.iv = self.iv[:4] + u64((int.from_bytes(self.iv[4:], 'big') + 1) & (2 ** 64 - 1))
        elif self.kind == 'chacha':
            elen = self._chacha(self.k1, 0, length)
            polykey = self._chacha(self.k2, 0, b'\0' * 32)
            ct = self._chacha(self.k2, 1, body)
            tag = poly1305.Poly1305.generate_tag(polykey, elen + ct)
            out = elen + ct + tag
        else:
            key, dig, tl, etm = self.mac
            if etm:
                ct = self.ctx.update(body)
                tag = _tag(key, dig, tl, seq, u32(seq) + length + ct)
                out = length + ct + tag
            else:
                tag = _tag(key, dig, tl, seq, u32(seq) + length + body)
                out = self.ctx.update(length + body) + tag
        self.seq = (seq + 1) & 0xffffffff
        return out

    # .. receiving: returns (payload, consumed, info) or None if more bytes are needed
    def open(self, buf):
        info = {}
        seq = self.seq
        if self.kind is None:
            if len(buf) < 4:
                return None
            n = struct.unpack('>I', buf[:4])[0]
            self._check_len(n)
            if len(buf) < 4 + n:
                return None
            body, used = buf[4:4 + n], 4 + n
            info['total'] = 4 + n
            info['align'] = (4 + n) % 8
        elif self.kind == 'gcm':
            if len(buf) < 4:
                return None
            n = struct.unpack('>I', buf[:4])[0]
            self._check_len(n)
            if len(buf) < 4 + n + 16:
                return None
            try:
                body = self.gcm.decrypt(self.iv, buf[4:4 + n + 16], buf[:4])
            except InvalidTag:
                raise RefError('AES-GCM tag mismatch on packet seq %d' % seq) from None
            self.iv = self.iv[:4] + u64((int.from_bytes(self.iv[4:], 'big') + 1) & (2 ** 64 - 1))
            used = 4 + n + 16
            info['align'] = n % 16
        elif self.kind == 'chacha':
            if len(buf) < 4:
                return None
            n = struct.unpack('>I', self._chacha(self.k1, 0, buf[:4]))[0]
            self._check_len(n)
            if len(buf) < 4 + n + 16:
                return None
            polykey = self._chacha(self.k2, 0, b'\0' * 32)
            try:
                poly1305.Poly1305.verify_tag(polykey, buf[:4 + n], buf[4 + n:4 + n + 16])
            except InvalidSignature:
                raise RefError('chacha20-poly1305 tag mismatch on packet seq %d' % seq) from None
            body = self._chacha(self.k2, 1, buf[4:4 + n])
            used = 4 + n + 16
            info['align'] = n % 8
        else:
            key, dig, tl, etm = self.mac
            bs = self.block
            if etm:
                if len(buf) < 4:
                    return None
                n = struct.unpack('>I', buf[:4])[0]
                self._check_len(n)
                if len(buf) < 4 + n + tl:
                    return None
                tag = _tag(key, dig, tl, seq, u32(seq) + buf[:4 + n])
                if not _hmac.compare_digest(tag, buf[4 + n:4 + n + tl]):
                    raise RefError('ETM MAC mismatch on packet seq %d' % seq)
                body = self.ctx.update(buf[4:4 + n])
                used = 4 + n + tl
                info['align'] = n % max(8, bs)
            else:
                if len(buf) < bs:
                    return None
                if getattr(self, '_first', None) is None:
                    self._first = self.ctx.update(buf[:bs])
                first = self._first
                n = struct.unpack('>I', first[:4])[0]
                self._check_len(n)
                if len(buf) < 4 + n + tl:
                    return None
                rest = self.ctx.update(buf[bs:4 + n])
                self._first = None
                clear = first + rest
                tag = _tag(key, dig, tl, seq, u32(seq) + clear)
                if not _hmac.compare_digest(tag, buf[4 + n:4 + n + tl]):
                    raise RefError('MAC mismatch on packet seq %d' % seq)
                body = clear[4:]
                used = 4 + n + tl
                info['align'] = (4 + n) % max(8, bs)
        padlen = body[0]
        info['padlen'] = padlen
        if padlen < 4:
            raise RefError('padding length %d < 4 (seq %d)' % (padlen, seq))
        if info['align'] != 0:
            raise RefError('packet not aligned to block size (seq %d)' % seq)
        if padlen + 1 > len(body):
            raise RefError('padding longer than packet')
        payload = body[1:len(body) - padlen]
        if self.compressing():
            try:
                payload = self.z.decompress(payload)
            except zlib.error as exc:
                raise RefError('decompression failed: %s' % exc) from None
        self.seq = (seq + 1) & 0xffffffff
        info['seq'] = seq
        return payload, used, info

    @staticmethod
    def _check_len(n):
        if n < 5 or n > 262144 + 64:
            raise RefError('bad packet length %d' % n)


# --------------------------------------------------------------------- the peer
class RefPeer:
    """Sans-IO SSH endpoint.  Feed it bytes with receive(); it appends bytes to write
    to self.out (or calls self.writer).  All decoded messages go to self.inbox."""

    def __init__(self, role, version=b'SSH-2.0-RefPeer_1.0', kex=('curve25519-sha256',),
                 hostkey_algs=('ssh-ed25519',), ciphers=('aes128-ctr',),
                 macs=('hmac-sha2-256',), comps=('none',), strict=True, hostkey=None,
                 auto=True, ext_info=False, ciphers_sc=None, macs_sc=None, comps_sc=None,
                 rand=os.urandom, gex=(2048, 2048, 2048)):
        assert role in ('client', 'server')
        self.role = role
        self.version = version
        self.kex_names = list(kex)
        self.hostkey_algs = list(hostkey_algs)
        self.ciphers_cs, self.ciphers_sc = list(ciphers), list(ciphers_sc or ciphers)
        self.macs_cs, self.macs_sc = list(macs), list(macs_sc or macs)
        self.comps_cs, self.comps_sc = list(comps), list(comps_sc or comps)
        self.offer_strict = strict
        self.ext_info = ext_info
        self.hostkey = hostkey or ed25519.Ed25519PrivateKey.generate()
        self.auto = auto                    # run key exchange automatically
        self.rand = rand
        self.gex = gex
        self.writer = None
        self.out = []
        self.inbuf = b''
        self.inbox = []                     # (msgtype, payload)
        self.infos = []                     # per received packet: dict
        self.sent = []                      # (msgtype, payload)
        self.peer_version = None
        self.send_dir, self.recv_dir = Direction(), Direction()
        self.my_kexinit = self.peer_kexinit = None
        self.session_id = None
        self.K = self.H = None
        self.hash = None
        self.kex_alg = None
        self.negotiated = {}
        self.kex_done = 0                   # completed exchanges
        self.in_kex = False
        self.strict = False
        self.newkeys_sent = self.newkeys_rcvd = False
        self._pending = None
        self.version_sent = False
        self.peer_first_packet_seen = False
        self.peer_hostkey_blob = None
        self.closed = False
        self.deferred = []                  # payloads queued while in kex
        self.keys_history = []              # derived key sets (for C11)
        self.on_message = None              # callback(msgtype, payload)

    # .. output
    def _write(self, data):
        if self.writer:
            self.writer(data)
        else:
            self.out.append(data)

    def start(self):
        if not self.version_sent:
            self.version_sent = True
            self._write(self.version + b'\r\n')
            if self.auto:
                self.send_kexinit()

    def send_raw(self, data):
        self._write(data)

    def send(self, payload, **kw):
        """Protect and send one payload (no phase checks at all)"""
        self.sent.append((payload[0] if payload else None, payload))
        self._write(self.send_dir.seal(payload, **kw))

    def send_app(self, payload):
        """Send respecting an ongoing key exchange (queue until NEWKEYS)"""
        if self.in_kex:
            self.deferred.append(payload)
        else:
            self.send(payload)

    # .. input
    def receive(self, data):
        self.inbuf += data
        if self.peer_version is None:
            while True:
                idx = self.inbuf.find(b'\n')
                if idx < 0:
                    return
                line, self.inbuf = self.inbuf[:idx], self.inbuf[idx + 1:]
                if line.endswith(b'\r'):
                    line = line[:-1]
                if line.startswith(b'SSH-'):
                    self.peer_version = line
                    break
        while self.inbuf and not self.closed:
            r = self.recv_dir.open(self.inbuf)
            if r is None:
                return
            payload, used, info = r
            self.inbuf = self.inbuf[used:]
            if not payload:
                raise RefError('empty payload')
            info['type'] = payload[0]
            self.infos.append(info)
            self._dispatch(payload)

    def _dispatch(self, payload):
        t = payload[0]
        self.inbox.append((t, payload))
        first = not self.peer_first_packet_seen
        self.peer_first_packet_seen = True
        if t == MSG_KEXINIT:
            self._got_kexinit(payload, first)
        elif t == MSG_NEWKEYS:
            self._got_newkeys()
        elif 30 <= t <= 49 and self.in_kex and self.auto:
            self._got_kex_msg(t, payload)
        elif t == MSG_DISCONNECT:
            self.closed = True
        elif t == MSG_USERAUTH_SUCCESS:
            self.send_dir.authed = self.recv_dir.authed = True
        if self.on_message:
            self.on_message(t, payload)

    # .. key exchange
    def build_kexinit(self, cookie=None):
        kex = list(self.kex_names)
        if self.offer_strict and not self.kex_done:
            kex.append('kex-strict-c-v00@openssh.com' if self.role == 'client'
                       else 'kex-strict-s-v00@openssh.com')
        if self.ext_info and not self.kex_done:
            kex.append('ext-info-c' if self.role == 'client' else 'ext-info-s')
        return (byte(MSG_KEXINIT) + (cookie or self.rand(16)) + namelist(kex) +
                namelist(self.hostkey_algs) + namelist(self.ciphers_cs) +
                namelist(self.ciphers_sc) + namelist(self.macs_cs) + namelist(self.macs_sc) +
                namelist(self.comps_cs) + namelist(self.comps_sc) + namelist([]) +
                namelist([]) + boolean(bool(getattr(self, 'follows', False)) and not self.kex_done) + u32(0))

    def send_kexinit(self, payload=None):
        self.my_kexinit = payload or self.build_kexinit()
        self.in_kex = True
        self.newkeys_sent = self.newkeys_rcvd = False
        self.send(self.my_kexinit)
        if getattr(self, 'follows', False) and not self.kex_done and getattr(self, 'guess_payload', None):
            # RFC 4253 7.1: first_kex_packet_follows with a guess; when the guess is wrong the peer must
            # ignore this packet (it still consumes a sequence number)
            self.send(self.guess_payload)

    @staticmethod
    def parse_kexinit(payload):
        r = Reader(payload, 17)
        lists = [r.namelist() for _ in range(10)]
        follows = r.boolean()
        r.u32()
        if not r.end():
            raise RefError('trailing bytes in KEXINIT')
        return lists, follows

    def _got_kexinit(self, payload, first):
        self.peer_kexinit = payload
        lists, _ = self.parse_kexinit(payload)
        if not self.kex_done:
            tag = b'kex-strict-s-v00@openssh.com' if self.role == 'client' \
                else b'kex-strict-c-v00@openssh.com'
            self.strict = self.offer_strict and tag in lists[0]
            self.peer_kexinit_first = first
        if not self.auto:
            return
        if not self.in_kex:
            self.send_kexinit()
        mine, _ = self.parse_kexinit(self.my_kexinit)
        cl, sv = (mine, lists) if self.role == 'client' else (lists, mine)

        def pick(i):
            for a in cl[i]:
                if a in sv[i] and not a.startswith(b'kex-strict') and not a.startswith(b'ext-info'):
                    return a.decode()
            raise RefError('no common algorithm in list %d' % i)
        self.kex_alg = pick(0)
        n = {'hostkey': pick(1), 'enc_cs': pick(2), 'enc_sc': pick(3)}
        n['mac_cs'] = pick(4) if CIPHERS[n['enc_cs']][3] not in ('gcm', 'chacha') else None
        n['mac_sc'] = pick(5) if CIPHERS[n['enc_sc']][3] not in ('gcm', 'chacha') else None
        n['cmp_cs'], n['cmp_sc'] = pick(6), pick(7)
        self.negotiated = n
        if self.role == 'client':
            self._client_kex_start()

    def _hash_name(self):
        a = self.kex_alg
        if a in C25519_KEX:
            return C25519_KEX[a]
        if a in ECDH_KEX:
            return ECDH_KEX[a][1]
        if a in DH_KEX:
            return DH_KEX[a][1]
        return GEX_KEX[a]

    def _client_kex_start(self):
        a = self.kex_alg
        if a in C25519_KEX:
            self._priv = x25519.X25519PrivateKey.from_private_bytes(self.rand(32))
            self._e = self._priv.public_key().public_bytes(serialization.Encoding.Raw,
                                                           serialization.PublicFormat.Raw)
            self.send(byte(MSG_KEX_ECDH_INIT) + string(self._e))
        elif a in ECDH_KEX:
            self._priv = ec.generate_private_key(ECDH_KEX[a][0]())
            self._e = self._priv.public_key().public_bytes(
                serialization.Encoding.X962, serialization.PublicFormat.UncompressedPoint)
            self.send(byte(MSG_KEX_ECDH_INIT) + string(self._e))
        elif a in DH_KEX:
            self._p, self._g = DH_KEX[a][0], _G
            self._dh_init(MSG_KEXDH_INIT)
        else:
            self.send(byte(MSG_KEX_DH_GEX_REQUEST) + u32(self.gex[0]) + u32(self.gex[1]) +
                      u32(self.gex[2]))

    def _dh_init(self, msgtype):
        self._x = int.from_bytes(self.rand(40), 'big') + 2
        self._e = pow(self._g, self._x, self._p)
        self.send(byte(msgtype) + mpint(self._e))

    def hostkey_blob(self):
        if getattr(self, 'fake_hostkey_blob', None) is not None:
            return self.fake_hostkey_blob
        pub = self.hostkey.public_key().public_bytes(serialization.Encoding.Raw,
                                                     serialization.PublicFormat.Raw)
        return string('ssh-ed25519') + string(pub)

    def _got_kex_msg(self, t, payload):
        a = self.kex_alg
        r = Reader(payload, 1)
        V_C, V_S = (self.version, self.peer_version) if self.role == 'client' \
            else (self.peer_version, self.version)
        I_C, I_S = (self.my_kexinit, self.peer_kexinit) if self.role == 'client' \
            else (self.peer_kexinit, self.my_kexinit)
        prefix = string(V_C) + string(V_S) + string(I_C) + string(I_S)
        hname = self._hash_name()
        if self.role == 'server':
            ks = self.hostkey_blob()
            if a in C25519_KEX or a in ECDH_KEX:
                if t != MSG_KEX_ECDH_INIT:
                    raise RefError('unexpected kex message %d' % t)
                qc = r.string()
                if a in C25519_KEX:
                    priv = x25519.X25519PrivateKey.from_private_bytes(self.rand(32))
                    qs = priv.public_key().public_bytes(serialization.Encoding.Raw,
                                                        serialization.PublicFormat.Raw)
                    shared = priv.exchange(x25519.X25519PublicKey.from_public_bytes(qc))
                else:
                    curve = ECDH_KEX[a][0]()
                    priv = ec.generate_private_key(curve)
                    qs = priv.public_key().public_bytes(
                        serialization.Encoding.X962, serialization.PublicFormat.UncompressedPoint)
                    shared = priv.exchange(ec.ECDH(),
                                           ec.EllipticCurvePublicKey.from_encoded_point(curve, qc))
                K = int.from_bytes(shared, 'big')
                H = hashlib.new(hname, prefix + string(ks) + string(qc) + string(qs) +
                                mpint(K)).digest()
                sig = string('ssh-ed25519') + string(self.hostkey.sign(H))
                self._finish_kex(K, H, hname)
                self.send(byte(MSG_KEX_ECDH_REPLY) + string(ks) + string(qs) + string(sig))
                self._send_newkeys()
            elif a in DH_KEX:
                p = DH_KEX[a][0]
                e = r.mpint()
                y = int.from_bytes(self.rand(40), 'big') + 2
                f = pow(_G, y, p)
                K = pow(e, y, p)
                H = hashlib.new(hname, prefix + string(ks) + mpint(e) + mpint(f) + mpint(K)).digest()
                sig = string('ssh-ed25519') + string(self.hostkey.sign(H))
                self._finish_kex(K, H, hname)
                self.send(byte(MSG_KEXDH_REPLY) + string(ks) + mpint(f) + string(sig))
                self._send_newkeys()
            else:
                if t == MSG_KEX_DH_GEX_REQUEST:
                    self._gex_req = payload[1:13]
                    self._p, self._g = int(_P[14], 16), _G
                    self.send(byte(MSG_KEX_DH_GEX_GROUP) + mpint(self._p) + mpint(self._g))
                elif t == MSG_KEX_DH_GEX_INIT:
                    e = r.mpint()
                    y = int.from_bytes(self.rand(40), 'big') + 2
                    f = pow(self._g, y, self._p)
                    K = pow(e, y, self._p)
                    H = hashlib.new(hname, prefix + string(ks) + self._gex_req + mpint(self._p) +
                                    mpint(self._g) + mpint(e) + mpint(f) + mpint(K)).digest()
                    sig = string('ssh-ed25519') + string(self.hostkey.sign(H))
                    self._finish_kex(K, H, hname)
                    self.send(byte(MSG_KEX_DH_GEX_REPLY) + string(ks) + mpint(f) + string(sig))
                    self._send_newkeys()
                else:
                    raise RefError('unexpected gex message %d' % t)
        else:
            if a in GEX_KEX and t == MSG_KEX_DH_GEX_GROUP:
                self._p, self._g = r.mpint(), r.mpint()
                self._dh_init(MSG_KEX_DH_GEX_INIT)
                return
            ks = r.string()
            self.peer_hostkey_blob = ks
            if a in C25519_KEX or a in ECDH_KEX:
                qs = r.string()
                sig = r.string()
                if a in C25519_KEX:
                    shared = self._priv.exchange(x25519.X25519PublicKey.from_public_bytes(qs))
                else:
                    shared = self._priv.exchange(
                        ec.ECDH(), ec.EllipticCurvePublicKey.from_encoded_point(ECDH_KEX[a][0](), qs))
                K = int.from_bytes(shared, 'big')
                H = hashlib.new(hname, prefix + string(ks) + string(self._e) + string(qs) +
                                mpint(K)).digest()
            else:
                f = r.mpint()
                sig = r.string()
                if not 1 < f < self._p - 1:
                    raise RefError('bad DH f')
                K = pow(f, self._x, self._p)
                mid = b''
                if a in GEX_KEX:
                    mid = u32(self.gex[0]) + u32(self.gex[1]) + u32(self.gex[2]) + \
                        mpint(self._p) + mpint(self._g)
                H = hashlib.new(hname, prefix + string(ks) + mid + mpint(self._e) + mpint(f) +
                                mpint(K)).digest()
            self._verify_hostsig(ks, sig, H)
            self._finish_kex(K, H, hname)
            self._send_newkeys()

    def _verify_hostsig(self, ks, sig, H):
        r = Reader(ks)
        alg = r.string()
        if alg != b'ssh-ed25519':
            raise RefError('refpeer only verifies ssh-ed25519 host keys, got %r' % alg)
        pub = ed25519.Ed25519PublicKey.from_public_bytes(r.string())
        s = Reader(sig)
        if s.string() != b'ssh-ed25519':
            raise RefError('signature algorithm mismatch')
        try:
            pub.verify(s.string(), H)
        except InvalidSignature:
            raise RefError('host signature does not verify over the exchange hash '
                           'refpeer computed') from None

    def _finish_kex(self, K, H, hname):
        self.K, self.H, self.hash = K, H, hname
        if self.session_id is None:
            self.session_id = H

    def derive(self, letter, need):
        hname = self.hash
        k = mpint(self.K)
        out = hashlib.new(hname, k + self.H + letter + self.session_id).digest()
        while len(out) < need:
            out += hashlib.new(hname, k + self.H + out).digest()
        return out[:need]

    def _keys_for(self, cs):
        n = self.negotiated
        enc = n['enc_cs'] if cs else n['enc_sc']
        mac = n['mac_cs'] if cs else n['mac_sc']
        cmp_ = n['cmp_cs'] if cs else n['cmp_sc']
        ks, ivs, _bs, _kind = CIPHERS[enc]
        iv = self.derive(b'A' if cs else b'B', ivs) if ivs else b''
        key = self.derive(b'C' if cs else b'D', ks)
        mk = self.derive(b'E' if cs else b'F', MACS[mac][0]) if mac else b''
        return enc, mac, cmp_, key, iv, mk

    def _send_newkeys(self):
        self.send(byte(MSG_NEWKEYS))
        self.newkeys_sent = True
        cs = self.role == 'client'
        enc, mac, cmp_, key, iv, mk = self._keys_for(cs)
        authed = self.send_dir.authed
        old = self.send_dir
        d = Direction()
        d.seq = 0 if self.strict else old.seq
        d.authed = authed
        d.setup(enc, mac, cmp_, key, iv, mk, True)
        self.send_dir = d
        self.keys_history.append(('send', enc, key, iv, mk))
        self._maybe_kex_complete()

    def _got_newkeys(self):
        if self.K is None or not self.in_kex:
            if self.auto:
                raise RefError('NEWKEYS before key exchange finished')
            return
        self.newkeys_rcvd = True
        cs = self.role != 'client'
        enc, mac, cmp_, key, iv, mk = self._keys_for(cs)
        old = self.recv_dir
        d = Direction()
        d.seq = 0 if self.strict else old.seq
        d.authed = old.authed
        d.setup(enc, mac, cmp_, key, iv, mk, False)
        self.recv_dir = d
        self.keys_history.append(('recv', enc, key, iv, mk))
        self._maybe_kex_complete()

    def _maybe_kex_complete(self):
        if self.newkeys_sent and self.newkeys_rcvd and self.in_kex:
            self.in_kex = False
            self.kex_done += 1
            dq, self.deferred = self.deferred, []
            for p in dq:
                self.send(p)

    # .. convenience builders
    def service_request(self, name='ssh-userauth'):
        return byte(MSG_SERVICE_REQUEST) + string(name)

    def userauth_request(self, user, method, rest=b'', service='ssh-connection'):
        return byte(MSG_USERAUTH_REQUEST) + string(user) + string(service) + string(method) + rest

    def password_request(self, user, password):
        return self.userauth_request(user, 'password', boolean(False) + string(password))

    def channel_open_session(self, sender=0, window=2 ** 21, maxpkt=32768):
        return byte(MSG_CHANNEL_OPEN) + string('session') + u32(sender) + u32(window) + u32(maxpkt)

    def channel_request(self, recipient, name, want_reply=True, rest=b''):
        return byte(MSG_CHANNEL_REQUEST) + u32(recipient) + string(name) + boolean(want_reply) + rest

    def channel_data(self, recipient, data):
        return byte(MSG_CHANNEL_DATA) + u32(recipient) + string(data)

    def types(self):
        return [t for t, _ in self.inbox]


class RefProtocol:
    """asyncio.Protocol adapter: puts a RefPeer on a VTransport"""

    def __init__(self, peer):
        self.peer = peer
        self.transport = None
        self.error = None
        self.lost = False
        self.eof = False

    def connection_made(self, transport):
        self.transport = transport
        self.peer.writer = transport.write
        self.peer.start()

    def data_received(self, data):
        if self.error:
            return
        try:
            self.peer.receive(data)
        except RefError as exc:
            self.error = exc

    def eof_received(self):
        self.eof = True
        return False

    def connection_lost(self, exc):
        self.lost = True
