"""Fidelity self-test of the seam: the same scripted scenarios run on VLoop+vnet
and on the stock selector loop over real loopback sockets must give identical
application-level observation logs.  Run by setup.sh and by thorough tiers."""

import asyncio
import os
import sys

HERE = os.path.dirname(os.path.abspath(__file__))
sys.path.insert(0, HERE)
sys.path.insert(0, os.environ.get('VERIF_REPO', '/repo'))
os.environ.setdefault('HOME', '/dev/shm/asyncssh-verif-home')

import asyncssh          # noqa: E402

import pair as P         # noqa: E402
from vloop import VLoop  # noqa: E402


def scenario(n):
    """Returns (server session on_start, client coroutine(conn, log))"""

    def on_start(sess):
        ch = sess.chan
        if n == 0:
            ch.write(b'out-1')
            ch.write_stderr(b'err-1')
            ch.write(b'out-2' * 1000)
            ch.exit(3)
        elif n == 1:
            sess.eof_keep_open = True
        elif n == 2:
            ch.write(b'x' * 70000)
            ch.write_eof()
            ch.exit_with_signal('TERM', False, 'bye')

    async def client(conn, log):
        if n == 0:
            r = await conn.run('cmd', encoding=None)
            log.append(('run', r.exit_status, r.stdout, r.stderr))
        elif n == 1:
            chan, sess = await conn.create_session(lambda: P.RecSession('cli'),
                                                   'echo', encoding=None, window=16,
                                                   max_pktsize=8)
            chan.write(b'0123456789' * 5)
            chan.write_eof()
            await asyncio.sleep(0)
            chan.close()
            await chan.wait_closed()
            log.append(('sess', [e[0] for e in sess.log]))
        elif n == 2:
            r = await conn.run('cmd', encoding=None)
            log.append(('run', r.exit_status, r.exit_signal, len(r.stdout)))
        conn.close()
        await conn.wait_closed()
    return on_start, client


def server_log(env):
    out = []
    for s in env.get('server_sessions', []):
        evs = []
        for e in s.log:
            if e[0] == 'data':
                if evs and evs[-1][0] == 'data' and evs[-1][1] == e[1]:
                    evs[-1] = ('data', e[1], evs[-1][2] + e[2])
                else:
                    evs.append(e)
            else:
                evs.append(e)
        out.append(evs)
    return out


async def real_run(n):
    on_start, client = scenario(n)
    env = {'session_factory': lambda: P.RecSession('srv', on_start=on_start)}
    log = []
    acceptor = await asyncssh.listen('127.0.0.1', 0, server_factory=lambda: P.RecServer(env),
                                     server_host_keys=[P.key('host')])
    port = acceptor.get_port()
    conn = await asyncssh.connect('127.0.0.1', port, known_hosts=None, username='u',
                                  password='pw', client_keys=None, agent_path=None,
                                  config=None)
    await client(conn, log)
    acceptor.close()
    await acceptor.wait_closed()
    await asyncio.sleep(0.05)
    return log, server_log(env)


def virtual_run(n):
    on_start, client = scenario(n)
    env = {'session_factory': lambda: P.RecSession('srv', on_start=on_start)}
    log = []
    loop = VLoop(auto_executor=True)
    with loop:
        async def go():
            acceptor = await asyncssh.listen('127.0.0.1', 2200,
                                             server_factory=lambda: P.RecServer(env),
                                             server_host_keys=[P.key('host')])
            conn = await asyncssh.connect('127.0.0.1', 2200, known_hosts=None,
                                          username='u', password='pw', client_keys=None,
                                          agent_path=None, config=None)
            await client(conn, log)
            acceptor.close()
            await acceptor.wait_closed()
        t = loop.create_task(go())
        loop.flush_all()
        assert t.done(), 'virtual scenario %d did not finish' % n
        t.result()
        assert not loop.unretrieved(), loop.exc_log
    return log, server_log(env)


def main():
    ok = True
    for n in range(3):
        v = virtual_run(n)
        try:
            r = asyncio.run(real_run(n))
        except OSError as exc:   # no loopback in this sandbox: cannot compare
            print('selftest scenario %d: real loop unavailable (%s), skipped' % (n, exc))
            continue
        same = repr(v) == repr(r)
        print('selftest scenario %d: %s' % (n, 'identical' if same else 'DIFFERENT'))
        if not same:
            ok = False
            print(' virtual:', repr(v)[:1500])
            print(' real   :', repr(r)[:1500])
    return 0 if ok else 1


if __name__ == '__main__':
    sys.exit(main())
