"""pair -- real SSHClientConnection <-> real SSHServerConnection on a VLoop.

Connections are constructed directly (no sockets) and wired through VTransports.
Recording owners/sessions log every callback in `.log` lists.
"""

import asyncio
import os

import asyncssh

import determ
from vloop import VLoop

_keys = {}


def key(name, alg='ssh-ed25519', **kw):
    """Process-wide cached long-term keys (generated before os.urandom is patched
    matters not: PyCA uses OpenSSL's RNG; keys are only compared within a run)."""
    k = _keys.get((name, alg))
    if k is None:
        k = asyncssh.generate_private_key(alg, **kw)
        _keys[(name, alg)] = k
    return k


class RecSession(asyncssh.SSHClientSession, asyncssh.SSHServerSession):
    """Callback-API session (client or server side) that records everything"""

    def __init__(self, name='sess', on_start=None):
        self.name = name
        self.log = []
        self.data = {}          # datatype -> list of chunks
        self.chan = None
        self.eof = 0
        self.lost = 0
        self.lost_exc = None
        self.after_lost = 0
        self.on_start = on_start
        self.eof_keep_open = True

    def _ev(self, *ev):
        if self.lost:
            self.after_lost += 1
        self.log.append(ev)

    def connection_made(self, chan):
        self.chan = chan
        self._ev('made')

    def session_started(self):
        self._ev('started')
        if self.on_start:
            self.on_start(self)

    def shell_requested(self):
        self._ev('shell')
        return True

    def exec_requested(self, command):
        self._ev('exec', command)
        return True

    def subsystem_requested(self, subsystem):
        self._ev('subsystem', subsystem)
        return True

    def pty_requested(self, term_type, term_size, term_modes):
        self._ev('pty', term_type)
        return True

    def data_received(self, data, datatype):
        if self.eof:
            self.after_eof = getattr(self, 'after_eof', 0) + 1
        self._ev('data', datatype, data)
        self.data.setdefault(datatype, []).append(data)

    def eof_received(self):
        self.eof += 1
        self._ev('eof')
        return self.eof_keep_open

    def exit_status_received(self, status):
        self._ev('exit_status', status)

    def exit_signal_received(self, signal, core_dumped, msg, lang):
        self._ev('exit_signal', signal, core_dumped, msg)

    def signal_received(self, signal):
        self._ev('signal', signal)

    def break_received(self, msec):
        self._ev('break', msec)
        return True

    def terminal_size_changed(self, *a):
        self._ev('winch', a)

    def soft_eof_received(self):
        self._ev('soft_eof')

    def connection_lost(self, exc):
        self._ev('lost', type(exc).__name__ if exc else None)
        self.lost += 1
        self.lost_exc = exc

    def got(self, datatype=None):
        chunks = self.data.get(datatype, [])
        if chunks and isinstance(chunks[0], str):
            return ''.join(chunks)
        return b''.join(chunks)


class RecServer(asyncssh.SSHServer):
    """Server owner: password 'pw' for any user; records callbacks"""

    def __init__(self, env):
        self.env = env
        self.log = []
        self.conn = None
        self.lost = 0

    def connection_made(self, conn):
        self.conn = conn
        self.log.append(('made',))

    def connection_lost(self, exc):
        self.lost += 1
        self.log.append(('lost', type(exc).__name__ if exc else None))
        self.lost_exc = exc

    def begin_auth(self, username):
        self.log.append(('begin_auth', username))
        return self.env.get('auth_required', True)

    def auth_completed(self):
        self.log.append(('auth_completed',))

    def password_auth_supported(self):
        return True

    def validate_password(self, username, password):
        return password == self.env.get('password', 'pw')

    def session_requested(self):
        f = self.env.get('session_factory')
        if f is None:
            return False
        r = f()
        self.env.setdefault('server_sessions', []).append(r)
        return r


class RecClient(asyncssh.SSHClient):
    def __init__(self):
        self.log = []
        self.lost = 0
        self.lost_exc = None

    def connection_made(self, conn):
        self.log.append(('made',))

    def connection_lost(self, exc):
        self.lost += 1
        self.lost_exc = exc
        self.log.append(('lost', type(exc).__name__ if exc else None))

    def auth_completed(self):
        self.log.append(('auth_completed',))


class Pair:
    """A connected, optionally authenticated client/server pair."""

    def __init__(self, loop, sopts=None, copts=None, env=None, connect=True,
                 wait='auth', caddr=('127.0.0.1', 40001), saddr=('127.0.0.1', 22), cwait=None):
        self.loop = loop
        self.env = env if env is not None else {}
        env = self.env
        sk = dict(server_factory=lambda: self._mk_server(), server_host_keys=[key('host')],
                  login_timeout=0, keepalive_interval=0)
        sk.update(sopts or {})
        ck = dict(client_factory=lambda: self._mk_client(), known_hosts=None,
                  username='user', password='pw', client_keys=None, agent_path=None,
                  config=None, login_timeout=0, keepalive_interval=0,
                  preferred_auth='password', kex_algs=['curve25519-sha256'])
        ck.update(copts or {})
        self.sopt = asyncssh.SSHServerConnectionOptions(**sk)
        self.copt = asyncssh.SSHClientConnectionOptions(**ck)
        self.sopt.waiter = loop.create_future()
        self.copt.waiter = loop.create_future()
        self.server_owner = None
        self.client_owner = None
        self.s = asyncssh.SSHServerConnection(loop, self.sopt, wait=wait)
        self.c = asyncssh.SSHClientConnection(loop, self.copt, wait=cwait or wait)
        self.ct, self.st = loop.make_pair(self.c, self.s, caddr, saddr, labels=('client', 'server'))
        if connect:
            self.s.connection_made(self.st)
            self.c.connection_made(self.ct)

    def _mk_server(self):
        self.server_owner = RecServer(self.env)
        return self.server_owner

    def _mk_client(self):
        self.client_owner = RecClient()
        return self.client_owner

    def handshake(self):
        self.loop.flush_all()
        w = self.copt.waiter
        if not w.done():
            raise RuntimeError('handshake did not complete')
        w.result()
        if self.sopt.waiter.done():
            self.sopt.waiter.result()
        return self

    def spawn(self, coro):
        """Start a coroutine as a task on the loop; returns the task"""
        return self.loop.create_task(coro)

    def run(self, coro, flush=True):
        t = self.loop.create_task(coro)
        if flush:
            self.loop.flush_all()
        else:
            self.loop.quiesce()
        if not t.done():
            raise RuntimeError('task still pending: %r' % (t,))
        return t.result()


def fresh(seed=0, auto_executor=True):
    determ.install()
    loop = VLoop(auto_executor=auto_executor)
    loop.install()
    determ.reset(seed, loop, epoch=determ.EPOCH)      # a check may have moved the epoch (C16 set_now)
    loop.arm_watchdog(int(__import__('os').environ.get('VERIF_WATCHDOG_S', '60')))
    return loop


def done(loop):
    loop.disarm_watchdog()
    loop.uninstall()
    loop.shutdown()
    determ.unbind()


_labels_installed = False


def install_wire_labels():
    """Harness-side seam: label every transport write with the plaintext SSH
    message type (class-level wrappers around send_packet/_send; no repo hook)."""
    global _labels_installed
    if _labels_installed:
        return
    _labels_installed = True
    from asyncssh.connection import SSHConnection
    orig_send_packet = SSHConnection.send_packet
    orig_send = SSHConnection._send

    def send_packet(self, pkttype, *args, **kw):
        st = self.__dict__.setdefault('_v_stack', [])
        st.append(pkttype)
        try:
            return orig_send_packet(self, pkttype, *args, **kw)
        finally:
            st.pop()

    def _send(self, data):
        st = self.__dict__.get('_v_stack')
        tr = self._transport
        if tr is not None and hasattr(tr, 'next_label'):
            tr.next_label = st[-1] if st else 'raw'
        return orig_send(self, data)

    SSHConnection.send_packet = send_packet
    SSHConnection._send = _send


def deliver_packet(loop, t):
    """Deliver to t the peer's queued writes up to and including the first one
    that is not an IGNORE packet (asyncssh prefixes each packet with IGNORE)."""
    from vloop import EOF
    n = 0
    while t.peer.outq:
        head = t.peer.outq[0]
        r = loop.deliver(t)
        n += 1
        if r is EOF or getattr(head, 'label', None) != 2:
            break
    return n
